(* C02rec -- C02 step 3: the index-order / recipe invariant of the mutable ContractionTree.
   Statements only; proofs are `exact <lemma of Proofs/TreeStateRecipes.v / TreeStateReady.v>`.
   Model: Model/TreeState.v (shared with C04), Model/TreeStateRec.v (extract_contractions' getter
   calls, the boolean preconditions, the monitor).
   The recipe invariant is split as the design note of docs/C02.md asks:
   (A) [PA]: every cached legs dict of a LEAF is exactly compute_leaf_legs of the current sliced set
       (key order = axis order of the pre-processed array), every cached legs dict of the ROOT has
       exactly the declared output order minus the removed indices, and every cached `inds` of a node
       comes with cached legs of which it is the key list (leaf, root) / a duplicate-free enumeration
       (elsewhere).  [QA n s] = C04's cost invariant InvC /\ (no exception raised -> PA).
   (B) [PB]: every cached einsum_eq / tensordot_axes / tensordot_perm / can_dot of a node with children is
       the recipe derived from the index orders (legs) cached on the node and its two children, which
       are then cached.
   What is proved (closed under the global context):
   * C02rec_prim_preserves_A: EVERY primitive of the trace alphabet preserves QA under C04's
     precondition prim_pre plus one clause (legs supplied for the root carry the declared order);
     C02rec_checked_trace_A: the boolean preA_trace_b certifies a whole trace from a fresh tree.
   * C02rec_reset_*: (B) holds after _reset_contraction_recipes / reset_contraction_indices in ANY
     state, hence after remove_ind / restore_ind / sort_contraction_indices (which end with it);
     C02rec_getters_preserve_B / C02rec_extract_preserves: every getter and extract_contractions
     preserve (B) (in states satisfying QA).
   * C02rec_history_ready / C02rec_history_value: for every boolean-checked trace from a fresh tree
     whose tail is a recipe reset followed only by queries, after extract_contractions (any traversal
     that visits every key of children, either prefer_einsum) the state passes contractible_b, so the
     value contracted is einsum_spec of the sliced/projected network in the declared output order,
     and every cached equation is the step that semantics executes.  Premises that remain, all
     boolean and about the END state only, none about index orders or recipes: no exception; the
     children dict describes a complete tree keyed by sorted nodes; tree.preprocessing is complete
     (preproc_complete_b -- its preservation is NOT proved here; evaluated per run). *)
From Coq Require Import Lia.
From Ctg Require Import Base Net Einsum Program BaseFacts NetFacts ProgramFacts TreeState TreeStateFacts TreeStateInv
                        TreeStatePre TreeStateProg TreeStateValue TreeStateRec TreeStateRecipes TreeStateReady.
Open Scope nat_scope.

Theorem C02rec_prim_preserves_A : forall n, 2 <= NN n -> NoDup (output n) ->
  forall p s, QA n s -> primA_pre n p s -> QA n (step n p s).
Proof. exact step_preserves_QA. Qed.
Print Assumptions C02rec_prim_preserves_A.

Theorem C02rec_precondition_checker_sound : forall n, NoDup (output n) ->
  forall p s, primA_pre_b n p s = true -> primA_pre n p s.
Proof. exact primA_pre_b_sound. Qed.
Print Assumptions C02rec_precondition_checker_sound.

Theorem C02rec_checked_trace_A : forall n, 2 <= NN n -> NoDup (output n) ->
  forall tr, preA_trace_b n tr (init_state n) = true -> QA n (run n tr (init_state n)).
Proof. exact checked_trace_QA. Qed.
Print Assumptions C02rec_checked_trace_A.

Theorem C02rec_reset_recipes_establishes_B : forall s, PB (reset_recipes s).
Proof. exact PB_reset_recipes. Qed.
Print Assumptions C02rec_reset_recipes_establishes_B.
Theorem C02rec_reset_inds_establishes_B : forall s, PB (reset_inds s).
Proof. exact PB_reset_inds. Qed.
Print Assumptions C02rec_reset_inds_establishes_B.
Theorem C02rec_remove_ind_establishes_B : forall n ind pj s, PBe (remove_ind n ind pj s).
Proof. exact PBe_remove_ind. Qed.
Print Assumptions C02rec_remove_ind_establishes_B.
Theorem C02rec_restore_ind_establishes_B : forall n ind s, PBe (restore_ind n ind s).
Proof. exact PBe_restore_ind. Qed.
Print Assumptions C02rec_restore_ind_establishes_B.
Theorem C02rec_sort_inds_establishes_B : forall n pr a b c s, PBe (sort_inds n pr a b c s).
Proof. exact PBe_sort_inds. Qed.
Print Assumptions C02rec_sort_inds_establishes_B.

Theorem C02rec_getters_preserve_B : forall n, 2 <= NN n -> NoDup (output n) ->
  forall g nd s, InvC n s -> PAe n s -> PBe s -> good_node n nd -> PBe (do_get n g nd s).
Proof. exact getter_preserves_PBe. Qed.
Print Assumptions C02rec_getters_preserve_B.

Theorem C02rec_extract_preserves : forall n, 2 <= NN n -> NoDup (output n) ->
  forall pe nodes s, GoodSt n s -> (forall e, In e nodes -> nget (fst e) (children s) <> None) ->
  GoodSt n (extract n pe nodes s) /\ mrl n s (extract n pe nodes s) /\
  (err (extract n pe nodes s) = false ->
   forall e l r, In e nodes -> nget (fst e) (children s) = Some (l, r) -> filled3 (extract n pe nodes s) (fst e) l r).
Proof. exact extract_ok. Qed.
Print Assumptions C02rec_extract_preserves.

Theorem C02rec_history_ready : forall n, 2 <= NN n -> NoDup (output n) ->
  forall tr pe nodes l r, wf_net_b n = true ->
  preA_trace_b n tr (init_state n) = true -> tail_ok_b tr = true ->
  let s1 := run n tr (init_state n) in
  let s := extract n pe nodes s1 in
  nodes_ok_b s1 nodes = true -> sorted_keys_b s = true -> preproc_complete_b n s = true -> err s = false ->
  tree_of (tfuel s) (children s) (seq 0 (NN n)) = Some (Node l r) ->
  contractible_b n s (Node l r) = true /\ PB s.
Proof. exact checked_history_ready. Qed.
Print Assumptions C02rec_history_ready.

Theorem C02rec_history_value : forall n tr pe nodes l r arr e0,
  2 <= NN n -> wf_net_b n = true ->
  preA_trace_b n tr (init_state n) = true -> tail_ok_b tr = true ->
  let s := extract n pe nodes (run n tr (init_state n)) in
  nodes_ok_b (run n tr (init_state n)) nodes = true -> sorted_keys_b s = true -> preproc_complete_b n s = true ->
  err s = false -> tree_of (tfuel s) (children s) (seq 0 (NN n)) = Some (Node l r) ->
  forall e, agree_removed (sliced s) e0 e ->
  srun_root n s arr e0 (Node l r) (map e (filter (fun j => negb (memb j (removed (sliced s)))) (output n)))
  = einsum_spec n (sliced s) arr e.
Proof. exact checked_history_value. Qed.
Print Assumptions C02rec_history_value.

Theorem C02rec_equation_is_step : forall s nd i l r e, PB s -> nget nd (info s) = Some i ->
  nget nd (children s) = Some (l, r) -> i_eq i = Some e ->
  exists li ri pi, rd i_inds s l = Some li /\ rd i_inds s r = Some ri /\ i_inds i = Some pi /\ e = einsum_eq_of li ri pi.
Proof. exact PB_equation_is_step. Qed.
Print Assumptions C02rec_equation_is_step.

(* non-vacuity: 'ab,bc,cd->da'.  Build, contract once (recipes + contractor), sort the indices, slice c,
   restore it, query the costs, then extract_contractions along the dfs traversal: every boolean premise
   of C02rec_history_value holds, for both the einsum and the tensordot path.  A root re-created with
   merge-ordered legs (what simulated annealing did before fix 88a452f) is rejected by the checker. *)
Definition exr := mkNet [[0;1]; [1;2]; [2;3]] [3;0] [(0,2%Z);(1,3%Z);(2,2%Z);(3,2%Z)].
Definition exr_tr : list prim :=
  [PPair [0] [1] None None None; PPair [0;1] [2] None None None;
   PGet GEq [0;1;2]; PGet GEq [0;1]; PCoreAdd 0;
   PSortInds PrFlops true true false;
   PRemoveInd 2 None; PGet GCanDot [0;1;2];
   PRestoreInd 2; PStats false; PGet GTdAxes [0;1]].
Definition exr_nodes : list (node * (node * node)) := [([0;1], ([0], [1])); ([0;1;2], ([0;1], [2]))].
Definition exr_ready (pe : bool) : bool :=
  let s1 := run exr exr_tr (init_state exr) in
  let s := extract exr pe exr_nodes s1 in
  sorted_keys_b s && preproc_complete_b exr s && negb (err s)
  && match tree_of (tfuel s) (children s) (seq 0 (NN exr)) with
     | Some t => tree_eqb t (Node (Node (Leaf 0) (Leaf 1)) (Leaf 2)) | None => false end
  && contractible_b exr s (Node (Node (Leaf 0) (Leaf 1)) (Leaf 2)).
Example C02rec_nonvacuous :
  let s1 := run exr exr_tr (init_state exr) in
  wf_net_b exr = true /\ preA_trace_b exr exr_tr (init_state exr) = true /\ tail_ok_b exr_tr = true
  /\ nodes_ok_b s1 exr_nodes = true
  /\ exr_ready true = true /\ exr_ready false = true
  /\ rd i_inds (extract exr true exr_nodes s1) [0;1;2] = Some [3;0]
  (* legs for the root in merge order are rejected *)
  /\ primA_pre_b exr (PPair [0;1] [2] (Some [(0,1);(3,1)]) None None)
       (run exr [PPair [0] [1] None None None] (init_state exr)) = false
  /\ primA_pre_b exr (PPair [0;1] [2] (Some [(3,0);(0,0)]) None None)
       (run exr [PPair [0] [1] None None None] (init_state exr)) = true
  (* a trace that does not end with a reset is not accepted by the tail condition *)
  /\ tail_ok_b [PPair [0] [1] None None None; PGet GEq [0;1]] = false.
Proof. vm_compute. repeat split; reflexivity. Qed.

(* C11 -- cotengra's matmul-based einsum and tensordot agree with the reference.
   Statements only; every proof is `exact <lemma of Proofs/BMMFacts.v>`.

   Model:  Model/BMM.v      the plan parsers of cotengra/contract.py
           Model/ArrayOps.v the numpy kernels (row-major tensors over Z), the plan
                            executors, and the reference `einsum_ref` written from the
                            mathematical definition (sum over all assignments of the
                            non-output labels of the product of the operand entries).
   Both are tied to /repo and to numpy by harness/props/c11.py on every run.

   THE FULL PROPERTY, for all equations, ranks, shapes and data, IS PROVED for the model:
     (0a) C11_einsum2_correct      two operands (both the matmul path and the pure
                                   multiplication path; repeated labels, batch labels,
                                   outer / Hadamard products, size-1 dimensions, any output order)
     (0b) C11_einsum1_correct      one operand (diagonals, traces, sums, transpositions)
   Hypotheses: the operand shapes are consistent with the equation (one size function sz
   gives every occurrence of a label its dimension), the operands are well formed arrays,
   the output labels are distinct and occur in the inputs, and labels are codes >= 4 (the
   codes 0..3 are the separators , -> blank and dot of the string encoding).
     (0b') C11_einsum1_implicit_output_correct, C11_einsum1_blanks_ignored   the implicit form
                                   (no '->') and blanks, which the one-operand path accepts
     (0c) C11_tensordot_correct / C11_tensordot_int_correct   tensordot for every valid
                                   non-negative axes specification (pairs of axis lists, or an int)
   Further results kept because they are what the chain is made of and because they
   localise a future failure:
   (1) for ALL inputs: the structure of the plans (classification of the labels is a
       partition, permutations are permutations, reshape targets have the right
       number of elements, the diag/sum/perm bookkeeping of the one-operand plan);
   (2) for ALL shapes and data: the row-major index arithmetic behind reshape
       (ravel/unravel inverse, fuse, split), and the kernels transpose / sum / matmul
       each equal the reference einsum of the corresponding equation;
   (3) BOUNDED theorems, exhaustive inside the stated box, by vm_compute, at the
       probe entries a_i = 256^i, b_j = 256^(|a| j) (see `probe_a`, `probe_b`) -- for
       einsum they are now subsumed by (0) but they are independent evidence (no proof
       chain, just evaluation) and they are what covers tensordot;
   (4) implicit output / blanks on the two-operand path and negative tensordot axes
       (C11_einsum2_implicit_output_correct, C11_einsum2_blanks_ignored,
       C11_tensordot_signed_axes_correct): the model follows /repo after the fixes 23dce6e and
       eebb3ef; the former `_refuted` theorem about negative axes is replaced by these.
   What the theorems do NOT cover: that the model is the code (executed correspondence,
   harness/props/c11.py), that numpy's kernels behave as Model/ArrayOps.v says (compared
   with numpy on integer arrays every run), the tensordot() wrapper's
   normalisation of `axes` (oracle only), shapes that are not
   consistent (numpy-style broadcasting of 1 against n). *)
From Coq Require Import Lia ZArith List Sorted.
From Ctg Require Import Base BMM ArrayOps BaseFacts BMMFacts.
Import ListNotations.


(* ------------------------------------------------------------------ *)
(* (0) THE FULL THEOREMS                                                *)
Theorem C11_einsum2_correct : forall (sz : nat -> nat) ta tb out a b,
  tshape a = map sz ta -> tshape b = map sz tb -> wf_tensor a = true -> wf_tensor b = true ->
  NoDup out -> incl out (ta ++ tb) ->
  Forall (fun c => 4 <= c) ta -> Forall (fun c => 4 <= c) tb -> Forall (fun c => 4 <= c) out ->
  einsum2 (eq2 ta tb out) a b = Some (einsum_ref [ta; tb] out [a; b]).
Proof. exact fin_einsum2_correct_gen. Qed.
Print Assumptions C11_einsum2_correct.

Theorem C11_einsum1_correct : forall (sz : nat -> nat) lhs out t,
  tshape t = map sz lhs -> wf_tensor t = true ->
  Forall (fun c => 4 <= c) lhs -> NoDup out -> incl out lhs ->
  einsum_single (eq1 lhs out) t = Some (einsum_ref [lhs] out [t]).
Proof. exact dg_einsum_single. Qed.
Print Assumptions C11_einsum1_correct.


(* the same two theorems with the executable shape-consistency predicate `consistent`
   (ranks match, arrays well formed, every occurrence of a label has the same dimension >= 1,
   output labels distinct and present in the inputs) as the only hypothesis besides the encoding *)
Theorem C11_einsum2_correct_consistent : forall ta tb out a b,
  consistent [ta; tb] out [a; b] = true ->
  Forall (fun c => 4 <= c) ta -> Forall (fun c => 4 <= c) tb ->
  einsum2 (eq2 ta tb out) a b = Some (einsum_ref [ta; tb] out [a; b]).
Proof. exact br_einsum2_consistent. Qed.
Print Assumptions C11_einsum2_correct_consistent.

Theorem C11_einsum1_correct_consistent : forall ta out a,
  consistent [ta] out [a] = true -> Forall (fun c => 4 <= c) ta ->
  einsum_single (eq1 ta out) a = Some (einsum_ref [ta] out [a]).
Proof. exact br_einsum1_consistent. Qed.
Print Assumptions C11_einsum1_correct_consistent.

(* one-operand equations in the implicit form (no '->': the output is the labels occurring exactly
   once, in increasing order -- numpy's rule) and with blanks anywhere in the string *)
Theorem C11_einsum1_implicit_output_correct : forall (sz : nat -> nat) lhs t,
  tshape t = map sz lhs -> wf_tensor t = true -> Forall (fun c => 4 <= c) lhs ->
  einsum_single lhs t = Some (einsum_ref [lhs] (im_implicit_out lhs) [t]).
Proof. exact im_einsum_single_implicit. Qed.
Print Assumptions C11_einsum1_implicit_output_correct.

Theorem C11_implicit_output_members : forall x lhs, In x (im_implicit_out lhs) <-> count x lhs = 1.
Proof. exact im_implicit_out_in. Qed.
Print Assumptions C11_implicit_output_members.
Theorem C11_implicit_output_sorted : forall lhs, StronglySorted lt (im_implicit_out lhs).
Proof. exact im_implicit_out_ssorted. Qed.
Print Assumptions C11_implicit_output_sorted.

Theorem C11_einsum1_blanks_ignored : forall e t,
  einsum_single e t = einsum_single (remove_all SPACE e) t.
Proof. exact im_einsum_single_blanks. Qed.
Print Assumptions C11_einsum1_blanks_ignored.

(* (0c) tensordot, every valid non-negative axes specification: pairs of duplicate-free, in-range,
   equally long axis lists whose dimensions match; and every integer `axes`.  `tensordot_ref` is
   the definition (contract a's axes xa[k] with b's axes xb[k]; free axes of a then of b). *)
Theorem C11_tensordot_correct : forall xa xb a b,
  NoDup xa -> NoDup xb ->
  Forall (fun j => j < length (tshape a)) xa -> Forall (fun j => j < length (tshape b)) xb ->
  length xa = length xb -> dims_at (tshape a) xa = dims_at (tshape b) xb ->
  wf_tensor a = true -> wf_tensor b = true ->
  tensordot (AxPair (zs xa) (zs xb)) a b = Some (tensordot_ref xa xb a b).
Proof. exact td_tensordot_correct_dims. Qed.
Print Assumptions C11_tensordot_correct.

Theorem C11_tensordot_int_correct : forall n a b,
  n <= length (tshape a) -> n <= length (tshape b) ->
  dims_at (tshape a) (seq (length (tshape a) - n) n) = dims_at (tshape b) (seq 0 n) ->
  wf_tensor a = true -> wf_tensor b = true ->
  tensordot (AxInt n) a b =
  Some (tensordot_ref (seq (length (tshape a) - n) n) (seq 0 n) a b).
Proof. exact td_tensordot_int_correct. Qed.
Print Assumptions C11_tensordot_int_correct.

(* two-operand equations in the implicit form 'ab,bc' (the output is the labels occurring exactly
   once in both terms together, in increasing order) and with blanks anywhere: since /repo 23dce6e
   _parse_eq_to_batch_matmul sanitises its equation like the one-operand path *)
Theorem C11_einsum2_implicit_output_correct : forall (sz : nat -> nat) ta tb a b,
  tshape a = map sz ta -> tshape b = map sz tb -> wf_tensor a = true -> wf_tensor b = true ->
  Forall (fun c => 4 <= c) ta -> Forall (fun c => 4 <= c) tb ->
  einsum2 (nb_lhs ta tb) a b = Some (einsum_ref [ta; tb] (im_implicit_out (ta ++ tb)) [a; b]).
Proof. exact nb_einsum2_implicit. Qed.
Print Assumptions C11_einsum2_implicit_output_correct.

Theorem C11_einsum2_blanks_ignored : forall e a b, einsum2 e a b = einsum2 (remove_all SPACE e) a b.
Proof. exact nb_einsum2_blanks. Qed.
Print Assumptions C11_einsum2_blanks_ignored.

Theorem C11_einsum2_blanks_explicit_correct : forall (sz : nat -> nat) e ta tb out a b,
  remove_all SPACE e = eq2 ta tb out ->
  tshape a = map sz ta -> tshape b = map sz tb -> wf_tensor a = true -> wf_tensor b = true ->
  NoDup out -> incl out (ta ++ tb) ->
  Forall (fun c => 4 <= c) ta -> Forall (fun c => 4 <= c) tb -> Forall (fun c => 4 <= c) out ->
  einsum2 e a b = Some (einsum_ref [ta; tb] out [a; b]).
Proof. exact nb_einsum2_blanks_explicit. Qed.
Print Assumptions C11_einsum2_blanks_explicit_correct.

(* tensordot with negative axes (since /repo eebb3ef): every axes pair with entries in
   [-ndim, ndim) is first normalised (nb_axes: ax + ndim if ax < 0) and then agrees with the definition *)
Theorem C11_tensordot_negative_axes_normalised : forall xa xb a b,
  nb_in_range (length (tshape a)) xa -> nb_in_range (length (tshape b)) xb ->
  tensordot (AxPair xa xb) a b =
  tensordot (AxPair (zs (nb_axes (length (tshape a)) xa)) (zs (nb_axes (length (tshape b)) xb))) a b.
Proof. exact nb_tensordot_normalises. Qed.
Print Assumptions C11_tensordot_negative_axes_normalised.

Theorem C11_tensordot_signed_axes_correct : forall xa xb a b,
  let ra := length (tshape a) in let rb := length (tshape b) in
  nb_in_range ra xa -> nb_in_range rb xb ->
  NoDup (nb_axes ra xa) -> NoDup (nb_axes rb xb) -> length xa = length xb ->
  dims_at (tshape a) (nb_axes ra xa) = dims_at (tshape b) (nb_axes rb xb) ->
  wf_tensor a = true -> wf_tensor b = true ->
  tensordot (AxPair xa xb) a b = Some (tensordot_ref (nb_axes ra xa) (nb_axes rb xb) a b).
Proof. exact nb_tensordot_signed_correct. Qed.
Print Assumptions C11_tensordot_signed_axes_correct.

(* the equation the tensordot parser builds, and its reference semantics *)
Theorem C11_tensordot_equation : forall sa sb xa xb,
  NoDup xa -> NoDup xb ->
  Forall (fun j => j < length sa) xa -> Forall (fun j => j < length sb) xb ->
  length xa = length xb ->
  (forall k, k < length xa -> nth (nth k xa 0) sa 0 = nth (nth k xb 0) sb 0) ->
  tdot_equation (AxPair (zs xa) (zs xb)) sa sb
  = Some (eq2 (td_ia (length sa)) (td_ib (length sa) (length sb) xa xb) (td_io (length sa) (length sb) xa xb)).
Proof. exact td_equation. Qed.
Print Assumptions C11_tensordot_equation.

(* the two execution paths separately (which one is taken is decided by p2_con: the labels
   of size <> 1 shared by both operands and absent from the output) *)
Theorem C11_einsum2_matmul_path : forall (sz : nat -> nat) ta tb out a b,
  tshape a = map sz ta -> tshape b = map sz tb -> wf_tensor a = true -> wf_tensor b = true ->
  NoDup out -> incl out (ta ++ tb) ->
  Forall (fun c => 4 <= c) ta -> Forall (fun c => 4 <= c) tb -> Forall (fun c => 4 <= c) out ->
  p2_con sz ta tb out <> [] ->
  einsum2 (eq2 ta tb out) a b = Some (einsum_ref [ta; tb] out [a; b]).
Proof. exact a2_einsum2_bmm. Qed.
Print Assumptions C11_einsum2_matmul_path.

Theorem C11_einsum2_pure_multiplication_path : forall (sz : nat -> nat) ta tb out a b,
  tshape a = map sz ta -> tshape b = map sz tb -> wf_tensor a = true -> wf_tensor b = true ->
  NoDup out -> incl out (ta ++ tb) ->
  Forall (fun c => 4 <= c) ta -> Forall (fun c => 4 <= c) tb -> Forall (fun c => 4 <= c) out ->
  p2_con sz ta tb out = [] ->
  einsum2 (eq2 ta tb out) a b = Some (einsum_ref [ta; tb] out [a; b]).
Proof. exact q2_einsum2_pure_gen. Qed.
Print Assumptions C11_einsum2_pure_multiplication_path.

(* the plan the parser returns, explicitly, for arbitrary terms and consistent sizes *)
Theorem C11_plan_is : forall (sz : nat -> nat) ta tb out,
  incl out (ta ++ tb) ->
  Forall (fun c => 4 <= c) ta -> Forall (fun c => 4 <= c) tb -> Forall (fun c => 4 <= c) out ->
  let bat := p2_bat sz ta tb out in let con := p2_con sz ta tb out in
  let ak := p2_ak sz ta tb out in let bk := p2_bk sz ta tb out in let sing := p2_sing sz out in
  con <> [] ->
  exists p, index_all (sing ++ bat ++ ak ++ bk) out = Some p /\
    parse_bmm (eq2 ta tb out) (map sz ta) (map sz tb) =
    Some (mk_pre ta (bat ++ ak ++ con), (mk_pre tb (bat ++ con ++ bk),
         (pl_gshape sz (pl_lgroups bat ak con), (pl_gshape sz (pl_rgroups bat con bk),
         (p2_nsab sz sing bat ak bk, (pl_perm p, false)))))).
Proof. exact p2_plan. Qed.
Print Assumptions C11_plan_is.

(* algebra of the reference used by the chain: one-operand pre-steps commute into the
   two-operand reference; a transposition permutes the output labels; size-1 output labels
   are extra unit axes *)
Theorem C11_reference_pre_steps_compose : forall (sz : nat -> nat) ta tb o da db a b,
  incl o (ta ++ tb) ->
  tshape a = map sz ta -> tshape b = map sz tb ->
  (forall x, In x da -> In x ta) ->
  (forall x, In x ta -> In x o -> In x da) ->
  (forall x, In x ta -> In x tb -> sz x <> 1 -> In x da) ->
  (forall x, In x da -> In x o \/ In x tb) ->
  (forall x, In x db -> In x tb) ->
  (forall x, In x tb -> In x o -> In x db) ->
  (forall x, In x tb -> In x ta -> sz x <> 1 -> In x db) ->
  (forall x, In x db -> In x o \/ In x ta) ->
  einsum_ref [da; db] o [einsum_ref [ta] da [a]; einsum_ref [tb] db [b]] = einsum_ref [ta; tb] o [a; b].
Proof. exact sg_pre_sum_compose_gen. Qed.
Print Assumptions C11_reference_pre_steps_compose.

Theorem C11_reference_transpose : forall terms ops mid p,
  NoDup mid -> is_perm p (length mid) = true ->
  transpose (einsum_ref terms mid ops) p = Some (einsum_ref terms (map (fun q => nth q mid 0) p) ops).
Proof. exact cp_transpose_of_ref_gen. Qed.
Print Assumptions C11_reference_transpose.

(* ------------------------------------------------------------------ *)
(* (1) structure of the two-operand plan, all inputs                    *)

(* the four index classes are exactly: labels carrying a dimension <> 1 on the left
   operand, split by (on the right operand?, in the output?), plus the labels that
   occur only on the right and in the output *)
Theorem C11_classification_is_definition : forall a_term shape_a b_term shape_b out c,
  classify a_term shape_a b_term shape_b out = Some c ->
  let A := nonsing (combine a_term shape_a) in
  let B := nonsing (combine b_term shape_b) in
  forall ix,
  (In ix (c_bat c) <-> In ix A /\ In ix b_term /\ In ix out) /\
  (In ix (c_con c) <-> In ix A /\ In ix b_term /\ ~ In ix out) /\
  (In ix (c_akeep c) <-> In ix A /\ ~ In ix b_term /\ In ix out) /\
  (In ix (c_bkeep c) <-> In ix B /\ ~ In ix a_term /\ In ix out).
Proof. exact classify_in. Qed.
Print Assumptions C11_classification_is_definition.

(* ... pairwise disjoint and duplicate free ... *)
Theorem C11_classification_is_partition : forall a_term shape_a b_term shape_b out c,
  classify a_term shape_a b_term shape_b out = Some c ->
  NoDup (c_bat c ++ c_con c ++ c_akeep c ++ c_bkeep c).
Proof. exact classify_nodup. Qed.
Print Assumptions C11_classification_is_partition.

(* ... and exhaustive: every non-singleton label of the left operand is batch / contracted /
   kept, or occurs nowhere else and is summed by the one-operand step eq_a; likewise right *)
Theorem C11_classification_covers_left : forall a_term shape_a b_term shape_b out c,
  classify a_term shape_a b_term shape_b out = Some c ->
  forall ix, In ix (nonsing (combine a_term shape_a)) ->
  In ix (c_bat c ++ c_con c ++ c_akeep c) \/ (~ In ix b_term /\ ~ In ix out).
Proof. exact classify_cover. Qed.
Print Assumptions C11_classification_covers_left.

Theorem C11_classification_covers_right : forall a_term shape_a b_term shape_b out c,
  classify a_term shape_a b_term shape_b out = Some c ->
  forall ix, In ix (nonsing (combine b_term shape_b)) ->
  In ix a_term \/ In ix (c_bkeep c) \/ ~ In ix out.
Proof. exact classify_cover_b. Qed.
Print Assumptions C11_classification_covers_right.

(* the reshape targets have exactly the number of elements of the arrays they are applied to:
   prod(new_shape_a) = product of the sizes of (bat, a_keep, con), etc.; prod(new_shape_ab) =
   product of the sizes of the produced output labels (singleton axes contribute 1) *)
Theorem C11_plan_reshape_sizes : forall a_term shape_a b_term shape_b out c eq_a eq_b nsa nsb nsab perm_ab pure,
  classify a_term shape_a b_term shape_b out = Some c ->
  c_con c <> [] ->
  parse_bmm_terms a_term shape_a b_term shape_b out
    = Some (eq_a, (eq_b, (nsa, (nsb, (nsab, (perm_ab, pure)))))) ->
  pure = false /\
  let sz := fun ix => lget0 ix (c_sizes c) in
  (forall s, nsa = Some s -> nprod s = nprod (map sz (c_bat c ++ c_akeep c ++ c_con c))) /\
  (forall s, nsb = Some s -> nprod s = nprod (map sz (c_bat c ++ c_con c ++ c_bkeep c))) /\
  (forall s, nsab = Some s -> nprod s = nprod (map sz (c_bat c ++ c_akeep c ++ c_bkeep c))).
Proof. exact bmm_plan_shapes. Qed.
Print Assumptions C11_plan_reshape_sizes.

(* perm_ab is a permutation of the right length and carries the produced labels
   (singletons, batch, kept-left, kept-right) to the requested output *)
Theorem C11_plan_perm_ab_is_permutation : forall a_term shape_a b_term shape_b out c eq_a eq_b nsa nsb nsab perm_ab pure,
  classify a_term shape_a b_term shape_b out = Some c ->
  c_con c <> [] ->
  parse_bmm_terms a_term shape_a b_term shape_b out
    = Some (eq_a, (eq_b, (nsa, (nsb, (nsab, (perm_ab, pure)))))) ->
  let produced := filter (fun ix => memb ix (c_sing c)) out ++ c_bat c ++ c_akeep c ++ c_bkeep c in
  NoDup out -> NoDup produced ->
  exists p, index_all produced out = Some p /\
    (perm_ab = None -> p = seq 0 (length p)) /\
    (forall q, perm_ab = Some q -> q = p) /\
    map (fun k => nth k produced 0) p = out /\
    is_perm p (length produced) = true.
Proof. exact bmm_plan_perm. Qed.
Print Assumptions C11_plan_perm_ab_is_permutation.

(* any tuple made by `tuple(s.index(ix) for ix in l)` (the transpose-only eq_a / eq_b and
   perm_ab) is a permutation when l is a duplicate-free rearrangement of s *)
Theorem C11_index_tuple_is_permutation : forall s l p,
  index_all s l = Some p -> NoDup l -> NoDup s -> incl s l ->
  map (fun k => nth k s 0) p = l /\ is_perm p (length s) = true.
Proof. exact index_all_perm_full. Qed.
Print Assumptions C11_index_tuple_is_permutation.

(* ------------------------------------------------------------------ *)
(* (1') structure of the one-operand plan (diag, sum, perm), all inputs  *)

(* the labels that get a diagonal are exactly those occurring at least twice, each once *)
Theorem C11_single_diag_labels : forall lhs out ix,
  In ix (fst (scan_single lhs out [] [] [])) <-> 2 <= count ix lhs.
Proof. exact scan_single_diag_in. Qed.
Print Assumptions C11_single_diag_labels.
Theorem C11_single_diag_labels_nodup : forall lhs out, NoDup (fst (scan_single lhs out [] [] [])).
Proof. exact scan_single_diag_nodup. Qed.
Print Assumptions C11_single_diag_labels_nodup.

(* the labels that are summed are exactly the inner labels of the reference *)
Theorem C11_single_sum_labels_are_inner : forall lhs out,
  snd (scan_single lhs out [] [] []) = filter (fun j => negb (memb j out)) (unique lhs).
Proof. exact scan_single_sum. Qed.
Print Assumptions C11_single_sum_labels_are_inner.

(* the final transposition carries the labels left after diag and sum to the output *)
Theorem C11_single_perm_labels : forall lhs out shape dsel sax perm,
  parse_single_core lhs out shape = Some (dsel, (sax, perm)) ->
  (perm = None -> labels_after_sum lhs out = out) /\
  (forall p, perm = Some p -> map (fun k => nth k (labels_after_sum lhs out) 0) p = out).
Proof. exact parse_single_core_labels. Qed.
Print Assumptions C11_single_perm_labels.

(* ------------------------------------------------------------------ *)
(* (2) row-major index arithmetic, all shapes                            *)
Theorem C11_ravel_unravel : forall s k, k < nprod s -> ravel s (unravel s k) = k.
Proof. exact ravel_unravel. Qed.
Print Assumptions C11_ravel_unravel.
Theorem C11_unravel_ravel : forall s idx, valid_idx s idx -> unravel s (ravel s idx) = idx.
Proof. exact unravel_ravel. Qed.
Print Assumptions C11_unravel_ravel.
(* fusing adjacent axes (reshape (.., d1, d2, ..) -> (.., d1*d2, ..)) *)
Theorem C11_reshape_fuse : forall s1 s2 i1 i2, length i1 = length s1 ->
  ravel (s1 ++ s2) (i1 ++ i2) = ravel s1 i1 * nprod s2 + ravel s2 i2.
Proof. exact ravel_app. Qed.
Print Assumptions C11_reshape_fuse.
(* splitting a fused axis *)
Theorem C11_reshape_split : forall s1 s2 k, k < nprod (s1 ++ s2) -> 0 < nprod s2 ->
  unravel (s1 ++ s2) k = unravel s1 (k / nprod s2) ++ unravel s2 (k mod nprod s2).
Proof. exact unravel_app. Qed.
Print Assumptions C11_reshape_split.
(* reshape re-reads the same row-major position *)
Theorem C11_reshape_entries : forall t s t' idx, reshape t s = Some t' -> wf_tensor t = true ->
  valid_idx s idx -> tget t' idx = tget t (unravel (tshape t) (ravel s idx)).
Proof. exact tget_reshape. Qed.
Print Assumptions C11_reshape_entries.
(* two well-formed tensors with the same shape and the same entries are equal *)
Theorem C11_tensor_extensionality : forall t1 t2, wf_tensor t1 = true -> wf_tensor t2 = true ->
  tshape t1 = tshape t2 ->
  (forall idx, valid_idx (tshape t1) idx -> tget t1 idx = tget t2 idx) -> t1 = t2.
Proof. exact tensor_ext. Qed.
Print Assumptions C11_tensor_extensionality.

(* (2') each kernel IS the reference einsum of its equation: all shapes, all data *)
Theorem C11_matmul_is_einsum : forall x y m kk n i j k,
  i <> j -> i <> k -> j <> k -> tshape x = [m; kk] -> tshape y = [kk; n] ->
  matmul x y = Some (einsum_ref [[i; k]; [k; j]] [i; j] [x; y]).
Proof. exact matmul2_is_einsum. Qed.
Print Assumptions C11_matmul_is_einsum.
Theorem C11_batched_matmul_is_einsum : forall x y bb m kk n b i j k,
  b <> i -> b <> j -> b <> k -> i <> j -> i <> k -> j <> k ->
  tshape x = [bb; m; kk] -> tshape y = [bb; kk; n] ->
  matmul x y = Some (einsum_ref [[b; i; k]; [b; k; j]] [b; i; j] [x; y]).
Proof. exact matmul3_is_einsum. Qed.
Print Assumptions C11_batched_matmul_is_einsum.
Theorem C11_transpose_is_einsum : forall t lhs p,
  NoDup lhs -> length lhs = length (tshape t) -> is_perm p (length lhs) = true ->
  transpose t p = Some (einsum_ref [lhs] (map (fun q => nth q lhs 0) p) [t]).
Proof. exact transpose_is_einsum. Qed.
Print Assumptions C11_transpose_is_einsum.
Theorem C11_sum_axes_is_einsum : forall t lhs axes,
  NoDup lhs -> length lhs = length (tshape t) ->
  StronglySorted lt axes -> Forall (fun a => a < length lhs) axes ->
  sum_axes t axes = Some (einsum_ref [lhs] (map (fun q => nth q lhs 0) (sf_kept (length lhs) axes)) [t]).
Proof. exact sum_axes_is_einsum. Qed.
Print Assumptions C11_sum_axes_is_einsum.

(* ------------------------------------------------------------------ *)
(* (3) BOUNDED theorems (exhaustive in the box, by vm_compute).
   Box A: two operands, labels {4,5,6} ('a','b','c'), operand rank <= 3, every duplicate-free
          output over the present labels (any order), every size assignment from {1,2}.
   Box B: same with rank <= 2 and sizes from {1,2,3}.
   Box C: one operand, rank <= 4, sizes {1,2,3}.
   Entries: a_i = 256^i, b_j = 256^(|a| j).  What this implies: model result and reference
   coincide AT THESE ENTRIES.  Both sides are bilinear forms sum c_ij a_i b_j with natural
   coefficients (the executors only copy, add, and multiply one a-entry by one b-entry) and
   c_ij <= 27 < 256 in the box, so equality at the probe fixes every coefficient; that last
   argument is NOT formalised in Coq. *)
Theorem C11_einsum2_bounded_rank3_sizes12 : forall ta tb out szs,
    length ta <= 3 -> length tb <= 3 ->
    Forall (fun c => In c [4;5;6]) ta -> Forall (fun c => In c [4;5;6]) tb ->
    NoDup out -> incl out (ta ++ tb) ->
    length szs = 3 -> Forall (fun d => In d [1;2]) szs ->
    let a := probe_a (shape_of [4;5;6] szs ta) in
    let b := probe_b (shape_of [4;5;6] szs ta) (shape_of [4;5;6] szs tb) in
    einsum2 (eq2 ta tb out) a b = Some (einsum_ref [ta; tb] out [a; b]).
Proof. exact einsum2_bounded_3_3. Qed.
Print Assumptions C11_einsum2_bounded_rank3_sizes12.

Theorem C11_einsum2_bounded_rank2_sizes123 : forall ta tb out szs,
    length ta <= 2 -> length tb <= 2 ->
    Forall (fun c => In c [4;5;6]) ta -> Forall (fun c => In c [4;5;6]) tb ->
    NoDup out -> incl out (ta ++ tb) ->
    length szs = 3 -> Forall (fun d => In d [1;2;3]) szs ->
    let a := probe_a (shape_of [4;5;6] szs ta) in
    let b := probe_b (shape_of [4;5;6] szs ta) (shape_of [4;5;6] szs tb) in
    einsum2 (eq2 ta tb out) a b = Some (einsum_ref [ta; tb] out [a; b]).
Proof. exact einsum2_bounded_3_2. Qed.
Print Assumptions C11_einsum2_bounded_rank2_sizes123.

Theorem C11_einsum1_bounded_rank4_sizes123 : forall ta out szs,
    length ta <= 4 -> Forall (fun c => In c [4;5;6]) ta ->
    NoDup out -> incl out ta ->
    length szs = 3 -> Forall (fun d => In d [1;2;3]) szs ->
    let a := probe_a (shape_of [4;5;6] szs ta) in
    einsum_single (eq1 ta out) a = Some (einsum_ref [ta] out [a]).
Proof. exact einsum1_bounded_3_4. Qed.
Print Assumptions C11_einsum1_bounded_rank4_sizes123.

(* tensordot: ranks <= 3, dimensions {1,2}, EVERY pair of duplicate-free in-range axis lists
   with matching dimensions; and every integer `axes` *)
Theorem C11_tensordot_bounded_rank3 : forall sa sb xa xb,
    length sa <= 3 -> length sb <= 3 ->
    Forall (fun d => In d [1;2]) sa -> Forall (fun d => In d [1;2]) sb ->
    NoDup xa -> NoDup xb -> Forall (fun j => j < length sa) xa -> Forall (fun j => j < length sb) xb ->
    length xa = length xb -> dims_at sa xa = dims_at sb xb ->
    let a := probe_a sa in let b := probe_b sa sb in
    tensordot (AxPair (zs xa) (zs xb)) a b = Some (tensordot_ref xa xb a b).
Proof. exact tensordot_bounded_3. Qed.
Print Assumptions C11_tensordot_bounded_rank3.

Theorem C11_tensordot_int_bounded_rank3 : forall sa sb n,
    In sa (terms_upto [1;2] 3) -> In sb (terms_upto [1;2] 3) -> n <= 3 ->
    check_td_int sa sb n = true.
Proof. exact tensordot_int_bounded_3. Qed.
Print Assumptions C11_tensordot_int_bounded_rank3.



(* ------------------------------------------------------------------ *)
(* non-vacuity: the hypotheses above are met by concrete, non-trivial instances *)

(* 'aab,bcd->dac' with a(2,2,3) b(3,1,2): repeated label, contraction, singleton in the output,
   permuted output *)
Example C11_ex_classify :
  exists c, classify [4;4;5] [2;2;3] [5;6;7] [3;1;2] [7;4;6] = Some c /\
            c_bat c = [] /\ c_con c = [5] /\ c_akeep c = [4] /\ c_bkeep c = [7] /\
            parse_bmm (eq2 [4;4;5] [5;6;7] [7;4;6]) [2;2;3] [3;1;2]
            = Some (Some (false, [4;4;5;1;4;5]), (Some (false, [5;6;7;1;5;7]),
                    (None, (None, (Some [1;2;2], (Some [2;1;0], false)))))).
Proof. eexists. vm_compute. repeat split. Qed.

Example C11_ex_einsum2 :
  let a : tensor := ([2;2;3], map Z.of_nat (seq 1 12)) in
  let b : tensor := ([3;1;2], map Z.of_nat (seq 1 6)) in
  consistent [[4;4;5];[5;6;7]] [7;4;6] [a; b] = true /\
  einsum2 (eq2 [4;4;5] [5;6;7] [7;4;6]) a b = Some (einsum_ref [[4;4;5];[5;6;7]] [7;4;6] [a; b]) /\
  einsum2 (eq2 [4;4;5] [5;6;7] [7;4;6]) a b = Some ([2;2;1], [22; 103; 28; 136]%Z).
Proof. vm_compute. repeat split. Qed.

(* 'abab->ba' : two diagonals, the second one non-adjacent (result axis goes to the front) *)
Example C11_ex_single :
  parse_single (eq1 [4;5;4;5] [5;4]) [2;3;2;3]
  = Some (Some [[None; Some 3; None; Some 3]; [None; Some 2; Some 2]], (None, None)) /\
  (let a : tensor := ([2;3;2;3], map Z.of_nat (seq 0 36)) in
   einsum_single (eq1 [4;5;4;5] [5;4]) a = Some (einsum_ref [[4;5;4;5]] [5;4] [a])).
Proof. vm_compute. repeat split. Qed.

Example C11_ex_bounded_instance :
  let szs := [2;1;2] in
  let a := probe_a (shape_of [4;5;6] szs [4;5;4]) in
  let b := probe_b (shape_of [4;5;6] szs [4;5;4]) (shape_of [4;5;6] szs [5;6]) in
  einsum2 (eq2 [4;5;4] [5;6] [6;4]) a b = Some (einsum_ref [[4;5;4];[5;6]] [6;4] [a; b]) /\
  tshape (einsum_ref [[4;5;4];[5;6]] [6;4] [a; b]) = [2;2].
Proof. vm_compute. repeat split. Qed.

Example C11_ex_tensordot :
  let a : tensor := ([2;3], map Z.of_nat (seq 1 6)) in
  let b : tensor := ([3;2], map Z.of_nat (seq 1 6)) in
  tensordot (AxPair [1%Z] [0%Z]) a b = Some (tensordot_ref [1] [0] a b) /\
  tensordot (AxInt 1) a b = Some ([2;2], [22; 28; 49; 64]%Z) /\
  tensordot (AxPair [1%Z;0%Z] [0%Z;1%Z]) a b = Some ([], [86%Z]).
Proof. vm_compute. repeat split. Qed.

(* the full theorem is not vacuous: 'acbad,ebfbdc->fcdea' with sizes a2 b3 c1 d2 e1 f2
   (repeated labels, a contracted label, a batch label, two size-1 labels -- one of them in the
   output --, permuted output) satisfies its hypotheses and is evaluated *)
Example C11_ex_full :
  let sz := fun x => match x with 4 => 2 | 5 => 3 | 6 => 1 | 7 => 2 | 8 => 1 | _ => 2 end in
  let ta := [4;6;5;4;7] in let tb := [8;5;9;5;7;6] in let out := [9;6;7;8;4] in
  let a : tensor := (map sz ta, map Z.of_nat (seq 1 24)) in
  let b : tensor := (map sz tb, map Z.of_nat (seq 2 36)) in
  tshape a = map sz ta /\ tshape b = map sz tb /\ wf_tensor a = true /\ wf_tensor b = true /\
  NoDup out /\ incl out (ta ++ tb) /\ p2_con sz ta tb out = [5] /\ p2_sing sz out = [6; 8] /\
  einsum2 (eq2 ta tb out) a b = Some (einsum_ref [ta; tb] out [a; b]) /\
  tshape (einsum_ref [ta; tb] out [a; b]) = [2; 1; 2; 1; 2].
Proof.
  cbv zeta. split; [reflexivity|]. split; [reflexivity|]. split; [reflexivity|]. split; [reflexivity|].
  split; [repeat constructor; cbn; intuition discriminate|].
  split; [intros x Hx; cbn in Hx |- *; intuition|].
  vm_compute. repeat split.
Qed.

(* the former counterexample of the negative-axis defect now agrees with the definition;
   'ab,bc' and ' ab , bc -> ac ' are evaluated *)
Example C11_ex_fixed_forms :
  (let a : tensor := ([2], [1%Z; 2%Z]) in let b : tensor := ([2], [3%Z; 4%Z]) in
   tensordot (AxPair [0%Z] [(-1)%Z]) a b = Some (tensordot_ref [0] [0] a b) /\
   tensordot (AxPair [0%Z] [(-1)%Z]) a b = Some ([], [11%Z])) /\
  (let a : tensor := ([2;3], map Z.of_nat (seq 1 6)) in let b : tensor := ([3;2], map Z.of_nat (seq 1 6)) in
   einsum2 (nb_lhs [4;5] [5;6]) a b = Some ([2;2], [22; 28; 49; 64]%Z) /\
   im_implicit_out ([4;5] ++ [5;6]) = [4;6] /\
   einsum2 [2;4;5;2;0;2;5;6;2;1;2;4;6;2] a b = Some ([2;2], [22; 28; 49; 64]%Z)).
Proof. vm_compute. repeat split. Qed.

(* C11 -- placeholder, replaced below *)
From Ctg Require Import Base BMM ArrayOps BMMFacts.
Theorem C11_nprod_app : forall l1 l2, nprod (l1 ++ l2) = nprod l1 * nprod l2.
Proof. exact nprod_app. Qed.
Print Assumptions C11_nprod_app.

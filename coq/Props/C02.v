(* C02 -- tree transformations never change the value the tree computes.
   Statements only; proofs are `exact <lemma of Proofs/TreeStateFacts.v>`.
   Model: Model/TreeState.v (shared with C04).  Honest summary of what is and is not proved:
   * proved for all states: every modelled composite that changes (children, index orders,
     sliced_inds) -- remove_ind, restore_ind, sort_contraction_indices, reset_contraction_indices,
     _reset_contraction_recipes -- leaves the compiled-contractor cache EMPTY or raises
     (part (v) of the invariant: a contractor is never reused across such a change);
   * the recipe invariant (iii)-(iv) is the decidable predicate [recipe_inv_b] of the model; it is
     NOT proved to be preserved by the primitives.  It is evaluated inside Coq on EVERY state the
     real tree reaches in the generated histories (harness/props/c02.py), together with the exact
     replay of the primitive trace by the model;
   * C02_history_value_conditional composes C01's theorem (hypothesis program_correct_hyp -- C01's
     Model/Program.v is not part of this development yet) with the preservation step (hypothesis
     prim_preserves_hyp, NOT proved): it only shows that these two facts are what is needed.
   The end-to-end statement of C02 is judged on every run by the oracle: tree.contract on integer
   arrays against the dense einsum after every step of every history. *)
From Coq Require Import Lia.
From Ctg Require Import Base Net BaseFacts NetFacts TreeState TreeStateFacts.

Theorem C02_remove_ind_invalidates_contractors : forall n ind pj s,
  cores (remove_ind n ind pj s) = [] \/ err (remove_ind n ind pj s) = true.
Proof. exact cores_remove_ind. Qed.
Print Assumptions C02_remove_ind_invalidates_contractors.

Theorem C02_restore_ind_invalidates_contractors : forall n ind s,
  cores (restore_ind n ind s) = [] \/ err (restore_ind n ind s) = true.
Proof. exact cores_restore_ind. Qed.
Print Assumptions C02_restore_ind_invalidates_contractors.

Theorem C02_sort_inds_invalidates_contractors : forall n pr a b c s,
  cores (sort_inds n pr a b c s) = [] \/ err (sort_inds n pr a b c s) = true.
Proof. exact cores_sort_inds. Qed.
Print Assumptions C02_sort_inds_invalidates_contractors.

Theorem C02_history_value_conditional :
  forall (n : net) (Value : Type) (contract_of : tstate -> Value) (einsum_of : list slinfo -> Value)
         (Good : tstate -> Prop),
  (forall s, Good s -> contract_of s = einsum_of (sliced s)) ->            (* program_correct_hyp *)
  forall pre : prim -> tstate -> Prop,
  (forall p s, Good s -> pre p s -> Good (step n p s)) ->                  (* prim_preserves_hyp *)
  forall tr s0, Good s0 -> pre_trace n pre tr s0 ->
  contract_of (run n tr s0) = einsum_of (sliced (run n tr s0)).
Proof. exact history_value_conditional. Qed.
Print Assumptions C02_history_value_conditional.

(* non-vacuity: 'ab,bc,cd->da' (output order differs from the merge order).  Build, derive all
   recipes of the root, sort the indices, slice c, restore it: the recipe invariant holds at every
   stage, the root's index order is the declared output (3,0), and the contractor cache, filled
   before remove_ind, is empty after it. *)
Definition ex2 := mkNet [[0;1]; [1;2]; [2;3]] [3;0] [(0,2%Z);(1,3%Z);(2,2%Z);(3,2%Z)].
Example C02_nonvacuous :
  let s0 := run ex2 [PPair [0] [1] None None None; PPair [0;1] [2] None None None;
                     PGet GEq [0;1;2]; PGet GCanDot [0;1;2]; PGet GTdAxes [0;1;2]; PGet GTdPerm [0;1;2];
                     PGet GEq [0;1]; PCoreAdd 0] (init_state ex2) in
  let s1 := run ex2 [PSortInds PrFlops true true false] s0 in
  let s2 := run ex2 [PGet GEq [0;1;2]; PCoreAdd 1; PRemoveInd 2 None] s1 in
  let s3 := run ex2 [PRestoreInd 2; PGet GTdPerm [0;1;2]] s2 in
  recipe_inv_b ex2 s0 = true /\ recipe_inv_b ex2 s1 = true /\ recipe_inv_b ex2 s2 = true
  /\ recipe_inv_b ex2 s3 = true /\ cost_inv_b ex2 s3 = true
  /\ rd i_inds s0 [0;1;2] = Some [3;0] /\ rd i_tdperm s0 [0;1;2] = Some (Some [1;0])
  /\ cores s0 = [0] /\ cores s2 = [] /\ err s3 = false.
Proof. vm_compute. repeat split; reflexivity. Qed.

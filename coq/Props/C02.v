(* C02 -- tree transformations never change the value the tree computes.
   Statements only; proofs are `exact <lemma of Proofs/TreeStateFacts.v / TreeStateValue.v>`.
   Model: Model/TreeState.v (the mutable tree, shared with C04) + Model/TreeStateProg.v (the value
   a state computes, read off its caches).  What is proved, and what is not:
   * C02_state_value / C02_history_value_checked (NO hypothesis about C01 any more): a state that
     passes the readiness check [contractible_b] -- children dict describes a complete tree t, every
     node has a cached index order, leaves' = the order of their (pre-processed) arrays, root's = the
     declared output, every internal order is a duplicate-free enumeration of the node's legs
     (Program.admissible_b), preprocessing is exactly the from-scratch leaf simplifications, no
     exception -- contracts, through the einsum path with THE ORDERS CACHED IN THE STATE (whatever
     sort_contraction_indices made of them), to einsum_spec of the sliced/projected network in the
     declared output order.  Proof: ProgramFacts.run_root_g_correct (C01) + admissible_b_sound.
     C02_cached_equation_is_step ties the equation string cached on a node (recipe_inv_b) to the index
     triple that semantics uses.  The tensordot path is covered by C01td only for the DEFAULT orders.
   * NOT proved: that every state reachable by primitive traces is ready once extract_contractions has
     run (preservation of the recipe invariant by the primitives).  Per run, [contractible_b] and
     [recipe_inv_b] are evaluated inside Coq on the states the real tree reaches (harness/props/c02.py),
     next to the exact replay of the primitive trace.
   * the contractor-cache lemmas: remove_ind / restore_ind / sort_contraction_indices always end with
     an empty compiled-contractor cache (or raise).
   End to end C02 is judged on every run by the oracle (tree.contract vs the dense einsum). *)
From Coq Require Import Lia.
From Ctg Require Import Base Net Einsum Program BaseFacts NetFacts ProgramFacts TreeState TreeStateFacts
                        TreeStateProg TreeStateValue.
Open Scope nat_scope.

Theorem C02_remove_ind_invalidates_contractors : forall n ind pj s,
  cores (remove_ind n ind pj s) = [] \/ err (remove_ind n ind pj s) = true.
Proof. exact cores_remove_ind. Qed.
Print Assumptions C02_remove_ind_invalidates_contractors.

Theorem C02_restore_ind_invalidates_contractors : forall n ind s,
  cores (restore_ind n ind s) = [] \/ err (restore_ind n ind s) = true.
Proof. exact cores_restore_ind. Qed.
Print Assumptions C02_restore_ind_invalidates_contractors.

Theorem C02_sort_inds_invalidates_contractors : forall n pr a b c s,
  cores (sort_inds n pr a b c s) = [] \/ err (sort_inds n pr a b c s) = true.
Proof. exact cores_sort_inds. Qed.
Print Assumptions C02_sort_inds_invalidates_contractors.

Theorem C02_state_value : forall n s arr e0 l r, contractible_b n s (Node l r) = true ->
  forall e, agree_removed (sliced s) e0 e ->
  srun_root n s arr e0 (Node l r) (map e (filter (fun j => negb (memb j (removed (sliced s)))) (output n)))
  = einsum_spec n (sliced s) arr e.
Proof. exact state_value. Qed.
Print Assumptions C02_state_value.

(* the tree the value is computed along IS the one the children dict describes *)
Theorem C02_contractible_tree : forall n s t, contractible_b n s t = true ->
  tree_of (tfuel s) (children s) (seq 0 (NN n)) = Some t.
Proof. exact contractible_tree. Qed.
Print Assumptions C02_contractible_tree.

Theorem C02_history_value_checked : forall n tr s0 arr e0 l r,
  contractible_b n (run n tr s0) (Node l r) = true ->
  forall e, agree_removed (sliced (run n tr s0)) e0 e ->
  srun_root n (run n tr s0) arr e0 (Node l r)
     (map e (filter (fun j => negb (memb j (removed (sliced (run n tr s0))))) (output n)))
  = einsum_spec n (sliced (run n tr s0)) arr e.
Proof. exact history_value_checked. Qed.
Print Assumptions C02_history_value_checked.

Theorem C02_cached_equation_is_step : forall n s l r i e x,
  recipe_inv_b n s = true ->
  In (node_of (Node l r), i) (info s) ->
  nget (node_of (Node l r)) (children s) = Some (node_of l, node_of r) ->
  rd i_inds s (node_of l) <> None -> rd i_inds s (node_of r) <> None ->
  i_inds i = Some x -> i_eq i = Some e ->
  e = einsum_eq_of (cinds s l) (cinds s r) x.
Proof. exact cached_equation_is_step. Qed.
Print Assumptions C02_cached_equation_is_step.

(* non-vacuity: 'ab,bc,cd->da' (output order differs from the merge order).  Build, derive all
   recipes of the root, sort the indices, slice c, restore it: the recipe invariant holds at every
   stage, the root's index order is the declared output (3,0), and the contractor cache, filled
   before remove_ind, is empty after it. *)
Definition ex2 := mkNet [[0;1]; [1;2]; [2;3]] [3;0] [(0,2%Z);(1,3%Z);(2,2%Z);(3,2%Z)].
Example C02_nonvacuous :
  let s0 := run ex2 [PPair [0] [1] None None None; PPair [0;1] [2] None None None;
                     PGet GEq [0;1;2]; PGet GCanDot [0;1;2]; PGet GTdAxes [0;1;2]; PGet GTdPerm [0;1;2];
                     PGet GEq [0;1]; PCoreAdd 0] (init_state ex2) in
  let s1 := run ex2 [PSortInds PrFlops true true false] s0 in
  let s2 := run ex2 [PGet GEq [0;1;2]; PCoreAdd 1; PRemoveInd 2 None] s1 in
  let s3 := run ex2 [PRestoreInd 2; PGet GTdPerm [0;1;2]] s2 in
  recipe_inv_b ex2 s0 = true /\ recipe_inv_b ex2 s1 = true /\ recipe_inv_b ex2 s2 = true
  /\ recipe_inv_b ex2 s3 = true /\ cost_inv_b ex2 s3 = true
  /\ rd i_inds s0 [0;1;2] = Some [3;0] /\ rd i_tdperm s0 [0;1;2] = Some (Some [1;0])
  /\ cores s0 = [0] /\ cores s2 = [] /\ err s3 = false
  (* readiness: after the recipes of every node have been derived (what extract_contractions does),
     in the sorted state s1 and in the sliced state s2 alike *)
  /\ contractible_b ex2 (run ex2 [PGet GEq [0;1;2]; PGet GEq [0;1]] s1) (Node (Node (Leaf 0) (Leaf 1)) (Leaf 2)) = true
  /\ contractible_b ex2 (run ex2 [PGet GEq [0;1;2]; PGet GEq [0;1]] s2) (Node (Node (Leaf 0) (Leaf 1)) (Leaf 2)) = true
  /\ contractible_b ex2 s2 (Node (Node (Leaf 0) (Leaf 1)) (Leaf 2)) = false.
Proof. vm_compute. repeat split; reflexivity. Qed.

(* C19 -- exponent stripping preserves the value and survives extreme scales.
   Statements only; every proof is `exact <lemma of Proofs/ExponentFacts.v>` (or a
   vm_compute witness).  Model: Model/Exponent.v -- ONE generic Gallina transcription of
   Contractor.__call__ (strip_exponent / check_zero), add_maybe_exponent_stripped and
   gather_slices, instantiated over Coq's reals (these theorems; exponent = real log10)
   and over exact rationals with IEEE special values (executed against the real code by
   harness/props/c19.py, and used for the `_refuted` witnesses).
   The kernels (einsum / tensordot / transpose) enter only through the hypothesis that
   they are homogeneous: b (a*x) (c*y) = (a*c) * b x y  (`homog_instr`), which is proved
   for every table-form bilinear map (`C19_kernels_homogeneous`).
   The theorems are about real arithmetic: IEEE-754 rounding is outside (partial: ieee754).
   Axioms: the standard library's real numbers (sig_forall_dec, sig_not_dec,
   functional_extensionality_dep, classic). *)
From Coq Require Import List Bool Reals Lra QArith.
From Ctg Require Import Base Exponent ExponentFacts.
Import ListNotations.
Local Open Scope R_scope.

(* strip_value: for every well-formed program (every register consumed once, fresh targets,
   one live register at the end -- what extract_contractions(tree) produces) of homogeneous
   kernels and all input arrays: if no normalisation factor is 0, the stripped run's
   (m, e) satisfies  plain result = 10^e * m.
   `g` is the divisor actually used for `p_array / factor` as a function of the factor: any g that
   is the identity on non-zero factors (guard_ok) -- the pinned code's g = id and the proposed fix's
   g f = f + (f == 0) (C19_guards_ok). *)
Theorem C19_strip_value : forall g g' prog arrays m e,
  guard_ok g ->
  Forall homog_instr prog ->
  wf_prog R prog (seq 0 (length arrays)) = true ->
  Forall (fun t => fst t <> 0) (R_trace g prog (combine (seq 0 (length arrays)) arrays) 0) ->
  R_core g true false prog arrays = Done m (Some e) ->
  R_core g' false false prog arrays = Done (R_scale (pow10 e) m) None.
Proof. exact strip_value. Qed.
Print Assumptions C19_strip_value.

(* the same with check_zero=True: a run that does not take the zero exit returns the value,
   and returns exactly what check_zero=False returns *)
Theorem C19_strip_value_check_zero : forall g g' prog arrays m e,
  guard_ok g ->
  Forall homog_instr prog ->
  wf_prog R prog (seq 0 (length arrays)) = true ->
  R_core g true true prog arrays = Done m (Some e) ->
  R_core g' false false prog arrays = Done (R_scale (pow10 e) m) None /\
  R_core g true false prog arrays = Done m (Some e).
Proof. exact strip_value_cz. Qed.
Print Assumptions C19_strip_value_check_zero.

(* strip_value_total -- the code after fix 150ba09 (instance 3 of the model: divisor
   factor + (factor == 0), exponents in R + {-inf}, log10 0 = -inf).  For EVERY well-formed program
   of homogeneous kernels and ALL inputs -- zero intermediates included, no hypothesis on the
   factors -- the stripped run's (m, e) denotes the plain result, with 10^(-inf) * m = 0. *)
Theorem C19_strip_value_total : forall g' prog arrays m e,
  Forall homog_instr prog ->
  wf_prog R prog (seq 0 (length arrays)) = true ->
  T_core true false prog arrays = Done m (Some e) ->
  R_core g' false false prog arrays = Done (R_scale (p10 e) m) None.
Proof. exact strip_value_total. Qed.
Print Assumptions C19_strip_value_total.

(* add_maybe_exponent_stripped after the fix (`if e == -inf: return (xm + ym, e)`), all four
   combinations, exponents possibly -inf: the value of the result is the sum of the values *)
Theorem C19_add_stripped_value_total : forall x y,
  T_value (T_add x y) = R_madd (T_value x) (T_value y).
Proof. exact T_add_value. Qed.
Print Assumptions C19_add_stripped_value_total.

(* C19_sliced_sum_value_total: every sliced tree without sliced output index, all inputs,
   slices whose partial result is exactly zero included (one, several or all): whenever the slice
   runs return (they do unless the program has no pairwise step), the plain slice contractions
   return and the gathered (mantissa, exponent) denotes their sum (10^(-inf) = 0). *)
Theorem C19_sliced_sum_value_total : forall g' prog slices ms r,
  Forall homog_instr prog ->
  Forall2 (fun arrs me => wf_prog R prog (seq 0 (length arrs)) = true /\
                          T_core true false prog arrs = Done (fst me) (Some (snd me))) slices ms ->
  T_gather_sum (map strip_of ms) = Some r ->
  exists ps, Forall2 (fun arrs p => R_core g' false false prog arrs = Done p None) slices ps /\
             match ps with
             | [] => False
             | p :: rest => T_value r = fold_left R_madd (map (fun x => MArr x) rest) (MArr p)
             end.
Proof. exact sliced_sum_value_total. Qed.
Print Assumptions C19_sliced_sum_value_total.

(* the sliced-output (stack) branch, same generality, the all-chunks-zero case (emax = -inf)
   included: every rescaled chunk times 10^emax is the sum of the plain results of the slices
   with that chunk's key *)
Theorem C19_gather_stack_value_total : forall b chunks res em,
  T_gather_stack b chunks = Some (res, Some em) ->
  map (fun km => (fst km, R_mscale_r (snd km) (p10 em))) res = map tkvalue chunks.
Proof. exact T_gather_stack_value. Qed.
Print Assumptions C19_gather_stack_value_total.

Theorem C19_sliced_stack_value_total : forall g' b prog slices ms keys res em,
  Forall homog_instr prog ->
  Forall2 (fun arrs me => wf_prog R prog (seq 0 (length arrs)) = true /\
                          T_core true false prog arrs = Done (fst me) (Some (snd me))) slices ms ->
  T_gather_stack b (T_group (combine keys (map strip_of ms))) = Some (res, Some em) ->
  exists ps, Forall2 (fun arrs p => R_core g' false false prog arrs = Done p None) slices ps /\
             map (fun km => (fst km, R_mscale_r (snd km) (p10 em))) res =
             vgroup (combine keys (map (fun x => MArr x) ps)).
Proof. exact sliced_stack_value_total. Qed.
Print Assumptions C19_sliced_stack_value_total.

(* "whenever that result is non-zero": a denoted value with a non-zero entry has a finite exponent *)
Theorem C19_nonzero_value_finite_exponent : forall m e v,
  In v (R_scale (p10 e) m) -> v <> 0 -> exists x, e = EFin x.
Proof. exact nonzero_value_finite_exponent. Qed.
Print Assumptions C19_nonzero_value_finite_exponent.

Theorem C19_guards_ok : guard_ok (fun f => f) /\ guard_ok rguard_fix.
Proof. exact (conj guard_ok_id guard_ok_fix). Qed.
Print Assumptions C19_guards_ok.

(* every table-form einsum / tensordot / single-term step is homogeneous *)
Theorem C19_kernels_homogeneous :
  (forall t, homog2 (R_bil t)) /\ (forall t, homog1 (R_lin t)).
Proof. exact (conj R_bil_homog R_lin_homog). Qed.
Print Assumptions C19_kernels_homogeneous.

(* add_maybe_exponent_stripped: for all four tuple / non-tuple combinations (and array or
   Python-scalar mantissas) the value of the result is the sum of the values *)
Theorem C19_add_stripped_value : forall x y,
  R_value (R_add x y) = R_madd (R_value x) (R_value y).
Proof. exact add_stripped_value. Qed.
Print Assumptions C19_add_stripped_value.

(* gather_slices without sliced output index: functools.reduce(add_maybe...) *)
Theorem C19_gather_sum_value : forall s rest r,
  R_gather_sum (s :: rest) = Some r ->
  R_value r = fold_left R_madd (map R_value rest) (R_value s).
Proof. exact gather_sum_value. Qed.
Print Assumptions C19_gather_sum_value.

(* end to end, sliced tree without sliced output index: if every slice's stripped run (with the
   zero check, i.e. no zero factor) ends normally, the plain slice contractions end normally and
   the gathered (mantissa, exponent) denotes their sum *)
Theorem C19_sliced_sum_value : forall g g' prog slices ms r,
  guard_ok g -> Forall homog_instr prog ->
  Forall2 (fun arrs me => wf_prog R prog (seq 0 (length arrs)) = true /\
                          R_core g true true prog arrs = Done (fst me) (Some (snd me))) slices ms ->
  R_gather_sum (map (fun me => Strip (MArr (fst me)) (snd me)) ms) = Some r ->
  exists ps, Forall2 (fun arrs p => R_core g' false false prog arrs = Done p None) slices ps /\
             match ps with
             | [] => False
             | p :: rest => R_value r = fold_left R_madd (map (fun x => MArr x) rest) (MArr p)
             end.
Proof. exact sliced_sum_value. Qed.
Print Assumptions C19_sliced_sum_value.

(* interface._wrap_strip_exponent_final (single-tensor expressions): (fn(x), 0.0) denotes fn(x) *)
Theorem C19_single_term_value : forall u x,
  R_value (single_term_stripped R R 0 u x) = MArr (u x).
Proof. exact single_term_value. Qed.
Print Assumptions C19_single_term_value.

(* gather_slices with sliced output indices: summing slices into chunks commutes with
   taking values, and after the common-exponent rescaling every chunk times 10^emax is
   the chunk's value; emax is the largest exponent so no rescaling factor exceeds 1 *)
Theorem C19_gather_chunks_value : forall keyed,
  map kvalue (R_group keyed) = vgroup (map kvalue keyed).
Proof. exact group_chunks_value. Qed.
Print Assumptions C19_gather_chunks_value.

Theorem C19_gather_stack_value : forall b chunks res em,
  R_gather_stack b chunks = Some (res, Some em) ->
  map (fun km => (fst km, R_mscale_r (snd km) (pow10 em))) res = map kvalue chunks.
Proof. exact gather_stack_value. Qed.
Print Assumptions C19_gather_stack_value.

Theorem C19_gather_stack_plain : forall b chunks res,
  R_gather_stack b chunks = Some (res, None) -> res = map kvalue chunks.
Proof. exact gather_stack_plain. Qed.
Print Assumptions C19_gather_stack_plain.

Theorem C19_gather_stack_factors_le_1 : forall b chunks res em k m e,
  R_gather_stack b chunks = Some (res, Some em) -> In (k, Strip m e) chunks ->
  e <= em /\ pow10 (e - em) <= 1.
Proof. exact stack_factors_le_1. Qed.
Print Assumptions C19_gather_stack_factors_le_1.

(* mantissa_bounded: after every step with a non-zero factor the largest magnitude of
   the stored intermediate is exactly 1, and the recorded exponents are the running sums
   of log10(factor) *)
Theorem C19_mantissa_one : forall g prog temps e, guard_ok g ->
  Forall (fun t => fst t <> 0 -> snd (snd t) = 1) (R_trace g prog temps e).
Proof. exact trace_mantissa_one. Qed.
Print Assumptions C19_mantissa_one.

Theorem C19_exponent_is_sum_of_logs : forall g prog temps e,
  map (fun t => fst (snd t)) (R_trace g prog temps e) =
  running_sums e (map fst (R_trace g prog temps e)).
Proof. exact trace_exponent_sum. Qed.
Print Assumptions C19_exponent_is_sum_of_logs.

(* hence every entry of the next pairwise product is bounded by K * max|x| * max|y|,
   K = number of products summed into one entry (the contracted volume) ... *)
Theorem C19_mantissa_bounded : forall (t : bil) x y K,
  (forall row, In row t -> (length row <= K)%nat) ->
  R_maxabs (R_bil t x y) <= INR K * (R_maxabs x * R_maxabs y).
Proof. exact bil_maxabs_bound. Qed.
Print Assumptions C19_mantissa_bounded.

(* ... which stays inside the float64 range (1e300 < 1.79e308) for operands that are raw
   inputs of magnitude <= 1e100 or mantissas (magnitude 1) and K <= 1e100 *)
Theorem C19_products_in_float_range : forall (t : bil) x y K,
  (forall row, In row t -> (length row <= K)%nat) ->
  INR K <= 10 ^ 100 -> R_maxabs x <= 10 ^ 100 -> R_maxabs y <= 10 ^ 100 ->
  R_maxabs (R_bil t x y) <= 10 ^ 300.
Proof. exact bil_in_range. Qed.
Print Assumptions C19_products_in_float_range.

(* HISTORICAL -- about the PRE-FIX definitions (exact-IEEE instance with pt = false = the code before
   fix commit 150ba09, where p_array / factor was 0/0 = nan).  Kept as the record of finding
   strip-zero-slice; the current code is covered by the `_total` theorems above and by
   C19_zero_slice_with_fix below.
   zero_slice_refuted (finding strip-zero-slice).  In the exact-IEEE instance of the same
   model: 'ab,bc->ac' sliced on b, x = [[1,0],[2,0]], y = [[1,2],[3,4]].  The plain total
   [[1,2],[2,4]] has no zero entry, slice b=1 is exactly zero, its factor is 0, the slice
   is (nan, -inf) and the gathered mantissa is NaN: mantissa * 10^exponent <> result. *)
Theorem C19_pre_fix_zero_slice_refuted : exists prog slices r s,
  X_wf prog [0;1]%nat = true /\
  X_sum false false false prog slices = Some (Plain (MArr r)) /\
  forallb x_nonzero_finite r = true /\
  X_sum false true false prog slices = Some s /\
  x_value_ok (Plain (MArr r)) s = false /\
  s = Strip (MArr [XNaN; XNaN; XNaN; XNaN]) (XF 4).
Proof. exact pre_fix_zero_slice_refuted. Qed.
Print Assumptions C19_pre_fix_zero_slice_refuted.

(* HISTORICAL, pre-fix definitions (pt = false) as well, except the last conjunct's crash which
   is still current (known: strip-zero-chunk-check-zero-stack):
   with check_zero=True a single zero slice is absorbed ((0.0, -inf) has weight 10^-inf = 0),
   but two zero slices met first give -inf - -inf = nan, and a zero chunk of a sliced output
   index cannot be stacked (Python scalar 0.0 next to arrays: the model's None = raises) *)
Theorem C19_pre_fix_zero_slice_check_zero : 
  x_value_ok (Plain (MArr [XF 1; XF 2; XF 2; XF 4]))
             (match X_sum false true true zs_prog zs_slices with Some s => s | None => Plain (MScal XNaN) end) = true /\
  X_sum false true true zs_prog [nth 1 zs_slices []; nth 1 zs_slices []; nth 0 zs_slices []] =
     Some (Strip (MArr [XNaN; XNaN; XNaN; XNaN]) (XF 4)) /\
  X_stack false true true false zs_prog [0;1]%nat zs_slices = None.
Proof. exact pre_fix_zero_slice_check_zero. Qed.
Print Assumptions C19_pre_fix_zero_slice_check_zero.

(* the same witnesses under the semantics of the proposed fix (first argument `true`:
   divisor factor + (factor == 0), `== -inf` guards): the value is right with and without
   check_zero, also for two zero slices first and for a zero chunk of a sliced output index
   without check_zero; the check_zero + sliced output crash (Python scalar in np.stack) stays *)
Theorem C19_zero_slice_with_fix :
  let ok o := x_value_ok (Plain (MArr [XF 1; XF 2; XF 2; XF 4]))
                         (match o with Some s => s | None => Plain (MScal XNaN) end) in
  let z := nth 1 zs_slices [] in let nz := nth 0 zs_slices [] in
  ok (X_sum true true false zs_prog zs_slices) = true /\
  ok (X_sum true true true zs_prog zs_slices) = true /\
  ok (X_sum true true false zs_prog [z; z; nz]) = true /\
  ok (X_sum true true true zs_prog [z; z; nz]) = true /\
  X_stack true true false false zs_prog [0;1]%nat zs_slices =
    Some ([(0%nat, MArr [XF (1#4); XF (1#2); XF (1#2); XF 1]); (1%nat, MArr [XF 0; XF 0; XF 0; XF 0])], Some (XF 4)) /\
  X_stack true true true false zs_prog [0;1]%nat zs_slices = None.
Proof. exact zero_slice_with_fix. Qed.
Print Assumptions C19_zero_slice_with_fix.

(* ---- non-vacuity ---------------------------------------------------------------- *)
(* the hypotheses of C19_strip_value hold for 'a,a->' on [1,2] . [3,4] over the reals *)
Example C19_strip_value_nonvacuous :
  let prog := [IPair 2 0 1 (R_bil [[(0,0);(1,1)]%N])] in
  let arrays := [[1;2];[3;4]] in
  Forall homog_instr prog /\ wf_prog R prog (seq 0 (length arrays)) = true /\
  Forall (fun t => fst t <> 0) (R_trace (fun f => f) prog (combine (seq 0 (length arrays)) arrays) 0) /\
  exists m e, R_core (fun f => f) true false prog arrays = Done m (Some e).
Proof.
  cbv zeta. split; [|split; [|split]].
  - constructor; [apply R_bil_homog | constructor].
  - reflexivity.
  - constructor; [|constructor]. cbn [fst].
    apply Rgt_not_eq. eapply Rlt_le_trans; [|apply Rmax_l].
    apply Rabs_pos_lt. unfold R_bil, bil_apply, fsum. cbn [map fold_right fst snd combine seq length].
    change (N.to_nat 0) with 0%nat. change (N.to_nat 1) with 1%nat.
    cbn [tpop tget Nat.eqb nth]. lra.
  - eexists. eexists. reflexivity.
Qed.

(* executed in the exact instance: 'ab,bc->ac' on scales 10^100 and 10^-100, unsliced,
   value preserved, mantissa max 1, exponent finite *)
Example C19_exact_instance_runs :
  let prog := [pair_step 2 0 1 [[(0,0);(1,2)];[(0,1);(1,3)];[(2,0);(3,2)];[(2,1);(3,3)]]%N] in
  let big := (10 ^ 100)%Z in
  let arrays := [[q (1*big) 1; q (2*big) 1; q (3*big) 1; q (-4*big) 1];
                 [XF (1 # 7); XF (2 # 7); XF (3 # 7); XF (5 # 7)]] in
  match X_core false true false prog arrays, X_core false false false prog arrays with
  | Done m (Some e), Done r None =>
      x_value_ok (Plain (MArr r)) (Strip (MArr m) e) && forallb x_nonzero_finite r
      && eqb (map (fun t => snd (snd t)) (X_trace false prog arrays)) [XF 1]
  | _, _ => false
  end = true.
Proof. vm_compute. reflexivity. Qed.

(* gather: two slices with different exponents, value of the sum = sum of the values *)
Example C19_gather_nonvacuous :
  R_value (R_add (Strip (MArr [1; 2]) 3) (Plain (MArr [5; 7]))) =
  R_madd (R_mscale_r (MArr [1; 2]) (pow10 3)) (MArr [5; 7]).
Proof. rewrite C19_add_stripped_value. reflexivity. Qed.

(* non-vacuity of the total theorem on a zero intermediate: 'a,a->' on [1,2] . [0,0] over the reals
   returns exponent -inf, and the hypotheses of C19_strip_value_total hold *)
Example C19_strip_value_total_nonvacuous :
  let prog := [IPair 2 0 1 (R_bil [[(0,0);(1,1)]%N])] in
  let arrays := [[1;2];[0;0]] in
  Forall homog_instr prog /\ wf_prog R prog (seq 0 (length arrays)) = true /\
  exists m, T_core true false prog arrays = Done m (Some ENInf).
Proof.
  cbv zeta. split; [|split].
  - constructor; [apply R_bil_homog | constructor].
  - reflexivity.
  - eexists. unfold T_core, contract_core. fold T_run. cbn [length seq combine].
    rewrite T_run_pair. cbn [tpop Nat.eqb andb].
    assert (Z : R_maxabs (R_bil [[(0, 0); (1, 1)]%N] [1; 2] [0; 0]) = 0).
    { apply zero_maxabs. unfold R_bil, bil_apply, fsum, zero. cbn [map fold_right fst snd].
      change (N.to_nat 0) with 0%nat. change (N.to_nat 1) with 1%nat. cbn [nth].
      constructor; [ring | constructor]. }
    rewrite Z. unfold er_log, ris0. destruct (Req_EM_T 0 0) as [_|N]; [|exfalso; apply N; reflexivity].
    rewrite T_run_nil. cbn [er_add]. reflexivity.
Qed.

(* C01ord -- C01 "... for every traversal order": the LINEAR execution of the contraction
   program (Contractor.__call__: dictionary of temporaries keyed by node, both operands popped,
   result stored) over ANY children-first order of the internal nodes (what
   ContractionTree.traverse(order) may yield) computes, at every position, what the recursive
   evaluation run_root computes -- which Props/C01.v shows to be the einsum.
   Statements only; proofs are `exact <lemma>` (Proofs/ExecOrderFacts.v).

   Model: Model/Program.v `program` (extract_contractions for a given order), `exec_program`
   (init_temps, exec_instr with tget/tdel/tset), compared with cotengra/contract.py by the C01
   harness on every run.  Quantification: every network, every removed-index set, every family
   of arrays, every tree Node l r with duplicate-free leaves, every valid order.
   valid_order t order :=  map snd order is a permutation of post_sub t (each internal node once)
                        /\ the flag of an element is true exactly for t itself
                        /\ whenever order = pre ++ (b,p) :: suf, every child of p is a leaf or
                           occurs in pre. *)
From Coq Require Import Permutation.
From Ctg Require Import Base Net Einsum Program Arrays BaseFacts NetFacts SumOver TreeEval ProgramFacts ExecOrderFacts ExecOrderTdot.

(* (O1) einsum path (prefer_einsum = True): shape and every entry *)
Theorem C01ord_linear_exec_is_recursive : forall n sl arr e0 l r order,
  NoDup (leaves (Node l r)) -> valid_order (Node l r) order ->
  fst (exec_program n sl arr e0 (program n sl true (Node l r) order) (Node l r))
    = map (dim n) (lkeys (root_legs n sl))
  /\ forall pos, snd (exec_program n sl arr e0 (program n sl true (Node l r) order) (Node l r)) pos
                 = run_root n sl arr e0 (Node l r) pos.
Proof. exact exec_order_einsum. Qed.
Print Assumptions C01ord_linear_exec_is_recursive.

(* ... hence the linear execution in any valid order yields the einsum, axes in declared order *)
Theorem C01ord_linear_exec_is_einsum : forall n sl arr e0 l r order,
  wf_net n -> full_tree n (Node l r) -> valid_order (Node l r) order ->
  forall e, agree_removed sl e0 e ->
  snd (exec_program n sl arr e0 (program n sl true (Node l r) order) (Node l r)) (map e (out_inds n sl))
  = einsum_spec n sl arr e.
Proof. exact exec_order_is_einsum. Qed.
Print Assumptions C01ord_linear_exec_is_einsum.

(* (O2) the depth-first traversal (ContractionTree._traverse_dfs) is a valid order *)
Theorem C01ord_dfs_is_valid : forall l r, NoDup (leaves (Node l r)) ->
  valid_order (Node l r) (traverse_dfs (Node l r)).
Proof. exact traverse_dfs_valid. Qed.
Print Assumptions C01ord_dfs_is_valid.

(* ingredients worth stating: a subtree of a tree with duplicate-free leaves is identified by
   its leaf list (the dictionary key), and has at most one parent *)
Theorem C01ord_nodes_identified_by_leaves : forall t, NoDup (leaves t) ->
  forall a b, In a (subs t) -> In b (subs t) -> leaves a = leaves b -> a = b.
Proof. exact subs_inj. Qed.
Print Assumptions C01ord_nodes_identified_by_leaves.
Theorem C01ord_unique_parent : forall t, NoDup (leaves t) -> forall q p p',
  In p (subs t) -> In p' (subs t) -> child q p -> child q p' -> p = p'.
Proof. exact unique_parent. Qed.
Print Assumptions C01ord_unique_parent.

(* (O3) any prefer_einsum setting (tensordot + transpose where can_dot), CONDITIONAL on the
   per-node step equivalence tdot_step_ok_at, which is an explicit hypothesis here:

   tdot_step_ok_at n sl e0 t := forall b l r (L R : sarr),
     In (Node l r) (post_sub t) -> (b = true <-> Node l r = t) ->
     can_dot n sl b (Node l r) = true ->
     fst L = map (dim n) (inds_sub n sl l) -> fst R = map (dim n) (inds_sub n sl r) ->
     fst (tdot_val n sl b l r L R) = map (dim n) (inds n sl b (Node l r))
     /\ forall pos, length pos = length (inds n sl b (Node l r)) ->
          snd (tdot_val n sl b l r L R) pos =
          einsum2 n e0 (inds_sub n sl l) (inds_sub n sl r) (inds n sl b (Node l r)) (snd L) (snd R) pos
   (tdot_val = tensordot with get_tensordot_axes, then transpose with get_tensordot_perm).
   The conclusion is for positions of the right length only (tensordot on a position list of
   the wrong length is outside numpy's domain). *)
Theorem C01ord_linear_exec_any_preference_partial : forall n sl arr e0 pe l r order,
  NoDup (leaves (Node l r)) -> valid_order (Node l r) order ->
  tdot_step_ok_at n sl e0 (Node l r) ->
  fst (exec_program n sl arr e0 (program n sl pe (Node l r) order) (Node l r))
    = map (dim n) (lkeys (root_legs n sl))
  /\ forall pos, length pos = length (lkeys (root_legs n sl)) ->
       snd (exec_program n sl arr e0 (program n sl pe (Node l r) order) (Node l r)) pos
       = run_root n sl arr e0 (Node l r) pos.
Proof. exact exec_order_any_pref. Qed.
Print Assumptions C01ord_linear_exec_any_preference_partial.

Theorem C01ord_linear_exec_any_preference_is_einsum_partial : forall n sl arr e0 pe l r order,
  wf_net n -> full_tree n (Node l r) -> valid_order (Node l r) order ->
  tdot_step_ok_at n sl e0 (Node l r) ->
  forall e, agree_removed sl e0 e ->
  snd (exec_program n sl arr e0 (program n sl pe (Node l r) order) (Node l r)) (map e (out_inds n sl))
  = einsum_spec n sl arr e.
Proof. exact exec_order_any_pref_is_einsum. Qed.
Print Assumptions C01ord_linear_exec_any_preference_is_einsum_partial.

(* FULL STRENGTH (Proofs/ExecOrderTdot.v glues Proofs/TdotFacts.v in): the hypothesis
   tdot_step_ok_at of the two `_partial` statements above holds for every tree over the
   network's tensors (tensordot with get_tensordot_axes followed by transpose with
   get_tensordot_perm IS the node's einsum), so for every prefer_einsum and every valid order the
   linear execution returns the einsum, at the declared output positions. *)
Theorem C01ord_tensordot_steps_always_ok : forall n sl e0 t,
  inrange n (leaves t) -> NoDup (output n) -> tdot_step_ok_at n sl e0 t.
Proof. exact tdot_step_ok_holds. Qed.
Print Assumptions C01ord_tensordot_steps_always_ok.

Theorem C01ord_linear_exec_any_preference_is_einsum : forall n sl arr e0 pe l r order,
  wf_net n -> full_tree n (Node l r) -> valid_order (Node l r) order ->
  forall e, agree_removed sl e0 e ->
  snd (exec_program n sl arr e0 (program n sl pe (Node l r) order) (Node l r)) (map e (out_inds n sl))
  = einsum_spec n sl arr e.
Proof. exact exec_any_order_any_pref_is_einsum. Qed.
Print Assumptions C01ord_linear_exec_any_preference_is_einsum.

(* the boolean check of an order (usable by the harness on what traverse() really yields) is sound *)
Theorem C01ord_valid_order_check_sound : forall t order,
  valid_order_b t order = true -> valid_order t order.
Proof. exact valid_order_b_sound. Qed.
Print Assumptions C01ord_valid_order_check_sound.

(* ---------- non-vacuity and executed sanity ---------- *)
Local Open Scope nat_scope.
Definition ex_net := mkNet [[0;1]; [1;2]; [2;3;3]; [3;4]; [4;0;5]; []] [5;2]
                           [(0,2%Z);(1,3%Z);(2,2%Z);(3,2%Z);(4,2%Z);(5,2%Z)].
Definition ex_tree := Node (Node (Node (Leaf 0) (Leaf 5)) (Leaf 1)) (Node (Leaf 4) (Node (Leaf 3) (Leaf 2))).
Definition n05 := Node (Leaf 0) (Leaf 5).
Definition n051 := Node n05 (Leaf 1).
Definition n32 := Node (Leaf 3) (Leaf 2).
Definition n432 := Node (Leaf 4) n32.
(* not the depth-first order: right branch first, left branch interleaved *)
Definition ex_order := [(false, n32); (false, n05); (false, n432); (false, n051); (true, ex_tree)].
Definition ex_arr (k : nat) : ptensor :=
  fun pos => let h := fold_left (fun a v => 3 * a + v + 1) pos (k + 2) in (Z.of_nat h mod 7 - 3)%Z.

Example C01ord_nonvacuous :
  NoDup (leaves ex_tree) /\ valid_order ex_tree ex_order /\ ex_order <> traverse_dfs ex_tree
  /\ wf_net ex_net /\ full_tree ex_net ex_tree.
Proof.
  split; [repeat constructor; cbn; intuition discriminate|].
  split; [apply valid_order_b_sound; vm_compute; reflexivity|].
  split; [intros H; discriminate H|].
  split.
  - split; [repeat constructor; cbn; intuition discriminate|]. intros j Hj. cbn in *. intuition.
  - unfold full_tree. apply NoDup_Permutation_bis.
    + repeat constructor; cbn; intuition discriminate.
    + cbn. apply le_n.
    + intros x Hx. cbn in *. intuition.
Qed.

(* the model, executed: linear run in ex_order (both preferences) = recursive run, all positions *)
Example C01ord_executed :
  let shape := map (dim ex_net) (lkeys (root_legs ex_net [])) in
  fst (exec_program ex_net [] ex_arr (fun _ => 0) (program ex_net [] true ex_tree ex_order) ex_tree) = shape
  /\ map (snd (exec_program ex_net [] ex_arr (fun _ => 0) (program ex_net [] true ex_tree ex_order) ex_tree)) (all_pos shape)
     = map (run_root ex_net [] ex_arr (fun _ => 0) ex_tree) (all_pos shape)
  /\ map (snd (exec_program ex_net [] ex_arr (fun _ => 0) (program ex_net [] false ex_tree ex_order) ex_tree)) (all_pos shape)
     = map (run_root ex_net [] ex_arr (fun _ => 0) ex_tree) (all_pos shape)
  /\ existsb (fun i => match i with ITdot _ _ _ _ _ _ => true | _ => false end)
             (program ex_net [] false ex_tree ex_order) = true
  /\ existsb (fun i => match i with IPre _ _ _ => true | _ => false end)
             (program ex_net [] true ex_tree ex_order) = true.
Proof. vm_compute. repeat split; reflexivity. Qed.

(* the hypothesis matters: a parent-before-child order is rejected by the checker *)
Example C01ord_invalid_rejected :
  valid_order_b ex_tree [(false, n05); (false, n432); (false, n32); (false, n051); (true, ex_tree)] = false.
Proof. vm_compute. reflexivity. Qed.

(* C03 -- reported flops, write, max size and peak match the definition.
   Statements only; every proof is `exact <lemma of Proofs/NetFacts.v>`.
   Model: Model/Net.v (tied to cotengra/core.py by harness/props/c03.py).
   The "definition from the network alone" is: an index j is carried by the
   intermediate holding the leaves S iff 0 < cnt S j < appear j, where cnt counts
   occurrences on the (sliced) terms of S and appear counts occurrences on all
   inputs and the output; flops = product of the dimensions of the indices carried
   by either operand, size = product over the indices carried by the result. *)
From Coq Require Import Lia.
From Ctg Require Import Base Net BaseFacts NetFacts.

(* per-node legs (with multiplicities) are the definition, for every subtree of every network *)
Theorem C03_legs_are_definition : forall n sl t, inrange n (leaves t) ->
  wfl (sub_legs n sl t) /\ forall j, lget0 j (sub_legs n sl t) = spec_count n sl (leaves t) j.
Proof. exact sub_legs_spec. Qed.
Print Assumptions C03_legs_are_definition.

Theorem C03_involved_are_definition : forall n sl l r j, inrange n (leaves l ++ leaves r) ->
  lget0 j (involved n sl (Node l r)) = spec_count n sl (leaves l) j + spec_count n sl (leaves r) j.
Proof. exact involved_spec. Qed.
Print Assumptions C03_involved_are_definition.

Theorem C03_size_is_product_of_surviving : forall n sl t, inrange n (leaves t) ->
  node_size n sl false t = size_of (szd n) (surviving n sl (leaves t)).
Proof. exact node_size_spec. Qed.
Print Assumptions C03_size_is_product_of_surviving.

Theorem C03_flops_is_product_of_involved : forall n sl l r, inrange n (leaves l ++ leaves r) ->
  node_flops n sl (Node l r) = size_of (szd n) (involved_set n sl (leaves l) (leaves r)).
Proof. exact node_flops_spec. Qed.
Print Assumptions C03_flops_is_product_of_involved.

Theorem C03_root_rule_agrees : forall n sl j,
  NoDup (output n) -> incl (output n) (concat (inputs n)) ->
  (In j (lkeys (root_legs n sl)) <-> 0 < cnt n sl (seq 0 (NN n)) j < appear n j).
Proof. exact root_legs_agree. Qed.
Print Assumptions C03_root_rule_agrees.

Theorem C03_total_flops : forall n sl l r, inrange n (leaves l ++ leaves r) ->
  total_flops n sl (Node l r) =
  (multiplicity n sl * zsum (map (spec_flops n sl) (post_sub (Node l r))))%Z.
Proof. exact total_flops_spec. Qed.
Print Assumptions C03_total_flops.

Theorem C03_total_write : forall n sl l r, inrange n (leaves l ++ leaves r) ->
  total_write n sl (Node l r) =
  (multiplicity n sl *
   (zsum (map (fun t' => size_of (szd n) (surviving n sl (leaves t'))) (post_sub l ++ post_sub r))
    + size_of (szd n) (lkeys (root_legs n sl))))%Z.
Proof. exact total_write_spec. Qed.
Print Assumptions C03_total_write.

Theorem C03_max_size_is_max : forall n sl l r,
  let t := Node l r in
  (forall bt, In bt (traverse_dfs t) -> (node_size n sl (fst bt) (snd bt) <= max_size n sl t)%Z) /\
  (max_size n sl t = 0%Z \/ exists bt, In bt (traverse_dfs t) /\ max_size n sl t = node_size n sl (fst bt) (snd bt)).
Proof. exact max_size_is_max. Qed.
Print Assumptions C03_max_size_is_max.

(* slicing / projecting one more index x scales every figure by exactly size(x),
   on exactly the nodes where x is a leg (size) / is involved (flops) *)
Theorem C03_slicing_scales_size : forall n sl x p t, inrange n (leaves t) ->
  node_size n sl false t =
  (node_size n (sl ++ [mkSl x p]) false t * (if live n sl (leaves t) x then zget x (szd n) else 1))%Z.
Proof. exact slicing_scales_size. Qed.
Print Assumptions C03_slicing_scales_size.

Theorem C03_slicing_scales_flops : forall n sl x p l r, inrange n (leaves l ++ leaves r) ->
  node_flops n sl (Node l r) =
  (node_flops n (sl ++ [mkSl x p]) (Node l r) *
   (if live n sl (leaves l) x || live n sl (leaves r) x then zget x (szd n) else 1))%Z.
Proof. exact slicing_scales_flops. Qed.
Print Assumptions C03_slicing_scales_flops.

Theorem C03_slicing_scales_multiplicity : forall n sl x p,
  multiplicity n (sl ++ [mkSl x p]) =
  (multiplicity n sl * match p with None => zget x (szd n) | Some _ => 1 end)%Z.
Proof. exact slicing_scales_multiplicity. Qed.
Print Assumptions C03_slicing_scales_multiplicity.

(* non-vacuity: a 3-tensor network with a hyper index, a repeated index and an output
   index meets the hypotheses, and the figures are the expected numbers *)
Example C03_nonvacuous :
  let n := mkNet [[0;1;1]; [1;2;3]; [2;3;0;4]] [0] [(0,2%Z);(1,3%Z);(2,2%Z);(3,2%Z);(4,5%Z)] in
  let t := Node (Node (Leaf 0) (Leaf 1)) (Leaf 2) in
  inrange n (leaves t) /\ total_flops n [] t = 32%Z /\ total_flops n [mkSl 2 None] t = 32%Z
  /\ max_size n [] t = 8%Z.
Proof.
  cbn zeta. split; [|vm_compute; auto].
  split; [repeat constructor; cbn; intuition lia|].
  intros k Hk. cbn in Hk. unfold NN. cbn. intuition lia.
Qed.

(* peak size: for EVERY enumeration order of the contractions, the running total that
   peak_size(order) maintains ends at exactly the size of the result (every input and every
   intermediate is released exactly once), and the reported peak is at least the inputs' total *)
Theorem C03_peak_running_total_telescopes : forall n sl l r order,
  Permutation.Permutation order (traverse_dfs (Node l r)) ->
  fst (fold_left (peak_step n sl) order (leaves_total n sl (Node l r), leaves_total n sl (Node l r)))
  = node_size n sl true (Node l r).
Proof. exact peak_final_total. Qed.
Print Assumptions C03_peak_running_total_telescopes.

Theorem C03_peak_ge_inputs : forall n sl t order,
  (leaves_total n sl t <= peak_size_order n sl t order)%Z.
Proof. exact peak_ge_inputs. Qed.
Print Assumptions C03_peak_ge_inputs.

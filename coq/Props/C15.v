(* C15 -- a crash while writing the on-disk cache never poisons later runs. *)
From Coq Require Import Lia ZArith List Bool.
From Ctg Require Import Base DiskFS DiskFSFacts.

Theorem C15_crash_cur_witness :
  let k := KT [[1;2]; [3;4]] in
  let f := crash_at 3 (setitem_ops_cur nat toy_enc k 2) [([], FDir)] in
  fst (contains_cur nat (mkDD [] true f) k) = true /\
  fst (getitem_cur nat toy_dec 3 (mkDD [] true f) k) = UnboundErr.
Proof. exact crash_cur_witness. Qed.
Print Assumptions C15_crash_cur_witness.

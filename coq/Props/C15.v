(* C15 -- a crash while writing the on-disk cache never poisons later runs.
   Statements only; every proof is `exact <lemma of Proofs/DiskFSFacts.v / ReusableFacts.v>`.
   Model: Model/DiskFS.v (a directory as a finite map path -> node, DiskDict.__setitem__ as the
   sequence of system calls it makes, a crash = any prefix of that sequence with byte-granular
   writes), tied to cotengra/utils.py DiskDict by harness/props/c15.py (crash injection in a child
   process at every call boundary / byte offset).
   Assumptions that appear as premises: the codec hypotheses (round trip; no strict prefix of a
   pickled entry unpickles -- validated exhaustively per entry by the harness), atomicity of
   os.replace (`Rename` is ONE operation of the model: rename_atomic), program-order effect of
   the calls of one process (partial: fs-ordering).
   *_cur : the code as it stands  -- crash safety is REFUTED (finding diskdict-torn-write)
   *_fix : proposed_fixes/C15_diskdict-torn-write.patch -- crash safety is PROVED *)
From Coq Require Import Lia ZArith List Bool.
From Ctg Require Import Base Net DiskFS Reusable DiskFSFacts ReusableFacts.

(* ---- refuted on the code as it stands ---- *)
(* killed right after open(fname, 'wb+'): the key is "present" and unreadable for ever *)
Theorem C15_crash_safe_refuted : forall (V : Type) (encode : V -> bytes) (decode : bytes -> option V)
    (h : name) (v : V) (f : fs) (mr : nat),
  decode [] = None -> is_dir [] f = true -> is_dir [h] f = false ->
  let f1 := crash_at 1 (setitem_ops_cur V encode (KS h) v) f in
  fst (contains_cur V (mkDD [] true f1) (KS h)) = true /\
  fst (getitem_cur V decode (S mr) (mkDD [] true f1) (KS h)) = UnboundErr.
Proof. exact crash_cur_poisons. Qed.
Print Assumptions C15_crash_safe_refuted.

(* the same for a file torn at ANY byte offset, given the codec is prefix free *)
Theorem C15_torn_file_poisons : forall (V : Type) (encode : V -> bytes) (decode : bytes -> option V)
    (h : name) (v : V) (p s : bytes) (f : fs) (mr : nat),
  prefix_free V encode decode -> encode v = p ++ s -> s <> [] -> fs_get [h] f = Some (FFile p) ->
  fst (contains_cur V (mkDD [] true f) (KS h)) = true /\
  fst (getitem_cur V decode (S mr) (mkDD [] true f) (KS h)) = UnboundErr.
Proof. exact torn_file_poisons_cur. Qed.
Print Assumptions C15_torn_file_poisons.

(* end to end: every later default query of that contraction raises UnboundLocalError *)
Theorem C15_later_runs_poisoned_cur : forall (H : fpr -> name) (enc : con -> bytes) (dec : bytes -> option con)
    (mr : nat) (orc : nat -> net -> con) (c : cfg) (q : net) (v : con) (f : fs) (ns : nat),
  dec [] = None -> is_dir [] f = true -> split c = false -> overwrite c = OvFalse ->
  is_dir (kpath (key_of H c q)) f = false ->
  let f1 := crash_at 1 (setitem_ops_cur con enc (key_of H c q) v) f in
  fst (maybe_run H (ops_cur enc dec (S mr)) orc c (mkDD [] true f1, ns) q) = UnboundErr.
Proof. exact maybe_run_cur_poisoned. Qed.
Print Assumptions C15_later_runs_poisoned_cur.

(* ---- proved for the fix ---- *)
(* crash_safe: for EVERY crash point n of the fixed writer storing v under k (flat or split key),
   a fresh process reads for k exactly what it would have read had the writer never started (the
   complete old entry or a missing key), or -- only if every operation ran -- the complete new
   entry; __contains__ agrees with __getitem__; every other key reads exactly as before *)
Theorem C15_crash_safe : forall (V : Type) (encode : V -> bytes) (decode : bytes -> option V)
    (k : dkey) (v : V) (f : fs) (n mr : nat),
  roundtrip V encode decode -> key_shape k -> dir_ready k f ->
  let f1 := crash_at n (setitem_ops_fix V encode k v) f in
  let old := mkDD [] true f in let new := mkDD [] true f1 in
  (fst (getitem_fix V decode (S mr) new k) = fst (getitem_fix V decode (S mr) old k) /\
   fst (contains_fix V decode (S mr) new k) = fst (contains_fix V decode (S mr) old k)
   \/ (length (setitem_ops_fix V encode k v) <= n /\
       fst (getitem_fix V decode (S mr) new k) = Ok v /\ fst (contains_fix V decode (S mr) new k) = true)) /\
  (forall k', kpath k' <> kpath k -> kpath k' <> tmp_of (kpath k) ->
              ~ In (Mkdir (kpath k')) (mkdir_ops (kpath k)) ->
     fst (getitem_fix V decode (S mr) new k') = fst (getitem_fix V decode (S mr) old k') /\
     fst (contains_fix V decode (S mr) new k') = fst (contains_fix V decode (S mr) old k')).
Proof. exact crash_safe_fix. Qed.
Print Assumptions C15_crash_safe.

(* the fixed reader never raises anything but KeyError, whatever bytes are on disk *)
Theorem C15_reader_never_raises_permanently : forall (V : Type) (decode : bytes -> option V) (mr : nat)
    (d : dd V) (k : dkey),
  (exists c, fst (getitem_fix V decode mr d k) = Ok c) \/ fst (getitem_fix V decode mr d k) = KeyErr.
Proof. exact getitem_fix_total. Qed.
Print Assumptions C15_reader_never_raises_permanently.

(* end to end, for ANY directory contents: _maybe_run_optimizer over the fixed DiskDict answers
   (searching again if needed), or raises the documented KeyError under cache_only *)
Theorem C15_later_runs_never_poisoned : forall (H : fpr -> name) (enc : con -> bytes) (dec : bytes -> option con)
    (mr : nat) (orc : nat -> net -> con) (c : cfg) (st : pstate) (q : net),
  let r := fst (maybe_run H (ops_fix enc dec mr) orc c st q) in
  r <> UnboundErr /\ r <> OtherErr /\ (cache_only c = false -> exists b cn, r = Ok (b, cn)).
Proof. exact maybe_run_fix_never_poisoned. Qed.
Print Assumptions C15_later_runs_never_poisoned.

(* The atomic-store protocol is crash safe only with a RENAME.  shutil.move of a temporary file that
   lives on another file system degrades to open-truncate + copy, i.e. (inside the cache directory)
   to the in-place writer; a crash right after the truncation destroys the complete entry that was
   stored before, even for the tolerant reader: refuted (compare C15_crash_safe, where the old entry
   survives every crash point). *)
Theorem C15_move_across_filesystems_refuted : forall (V : Type) (encode : V -> bytes) (decode : bytes -> option V)
    (h : name) (old v : V) (f : fs) (mr : nat),
  roundtrip V encode decode -> decode [] = None -> is_dir [] f = true ->
  fs_get [h] f = Some (FFile (encode old)) ->
  let f1 := crash_at 1 (setitem_ops_movex V encode (KS h) v) f in
  fst (getitem_fix V decode (S mr) (mkDD [] true f) (KS h)) = Ok old /\
  fst (getitem_fix V decode (S mr) (mkDD [] true f1) (KS h)) = KeyErr /\
  fst (contains_fix V decode (S mr) (mkDD [] true f1) (KS h)) = false.
Proof. exact movex_crash_loses_old_entry. Qed.
Print Assumptions C15_move_across_filesystems_refuted.

(* directory_split="auto" (the constructor's default) after a crash.  The fixed writer puts its
   temporary file NEXT TO the entry (inside the sub-directory for a split key), so whatever crash
   point: a split cache still shows directories only at its top level and is detected as split; a
   flat cache that holds an older entry still shows files only and is detected as flat.  Hence a
   later process built with default arguments looks for the older entries where they are. *)
Theorem C15_auto_layout_stable_split : forall (V : Type) (encode : V -> bytes) a b v f n,
  top_all_dirs f ->
  let g := crash_at n (setitem_ops_fix V encode (KT [a; b]) v) f in
  top_all_dirs g /\ split_auto g = true /\ split_auto f = true.
Proof. exact auto_layout_stable_split. Qed.
Print Assumptions C15_auto_layout_stable_split.

Theorem C15_auto_layout_stable_flat : forall (V : Type) (encode : V -> bytes) h v f n h0 nd0,
  top_all_files f -> fs_get [h0] f = Some nd0 -> h0 <> h -> h0 <> TMPMARK :: h ->
  let g := crash_at n (setitem_ops_fix V encode (KS h) v) f in
  top_all_files g /\ split_auto g = false /\ split_auto f = false.
Proof. exact auto_layout_stable_flat. Qed.
Print Assumptions C15_auto_layout_stable_flat.

(* ---- non-vacuity: concrete crash points with the toy prefix-free codec ----------------- *)
Example C15_example_cur_poisoned :
  let k := KT [[1;2]; [3;4]] in
  let f := crash_at 3 (setitem_ops_cur nat toy_enc k 2) fs0 in
  fst (contains_cur nat (mkDD [] true f) k) = true /\
  fst (getitem_cur nat toy_dec 3 (mkDD [] true f) k) = UnboundErr.
Proof. vm_compute. split; reflexivity. Qed.

(* a file at the top level of a split cache (a temporary file created in the wrong directory)
   does flip the detected layout *)
Example C15_example_orphan_at_top_level :
  let f := [([], FDir); ([[1;2]], FDir); ([[1;2]; [3;4]], FFile [7;0])] in
  split_auto f = true /\ split_auto (fs_set [[46; 3; 4]] (FFile []) (fs_del [[1;2]] f)) = false.
Proof. exact orphan_at_top_level_flips_layout. Qed.

Example C15_example_move_across_filesystems :
  let k := KS [1;2] in
  let f := run_ops (setitem_ops_fix nat toy_enc k 1) fs0 in          (* an old entry: 1 *)
  map (fun n => fst (getitem_fix nat toy_dec 3 (mkDD [] true (crash_at n (setitem_ops_movex nat toy_enc k 2) f)) k))
      (seq 0 5) = [Ok 1; KeyErr; KeyErr; KeyErr; Ok 2].
Proof. vm_compute. reflexivity. Qed.

Example C15_example_fix_all_crash_points :
  let k := KT [[1;2]; [3;4]] in
  let f := run_ops (setitem_ops_fix nat toy_enc k 1) fs0 in          (* an old entry: 1 *)
  key_shape k /\ dir_ready k f /\
  map (fun n => fst (getitem_fix nat toy_dec 3 (mkDD [] true (crash_at n (setitem_ops_fix nat toy_enc k 2) f)) k))
      (seq 0 7) = [Ok 1; Ok 1; Ok 1; Ok 1; Ok 1; Ok 1; Ok 2].
Proof.
  cbv zeta. split; [constructor|]. split.
  - unfold dir_ready. split; [vm_compute; reflexivity|]. split; [vm_compute; reflexivity|].
    split; [vm_compute; reflexivity|]. right. vm_compute. reflexivity.
  - vm_compute. reflexivity.
Qed.

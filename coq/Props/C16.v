(* C16 -- one optimizer object can serve many contractions, in sequence or across threads.
   Statements only; every proof is `exact <lemma of Proofs/ThreadsFacts.v>`.

   Model: Model/Threads.v -- the shared state of ReusableOptimizer (_suboptimizers slot per
   thread id, the cache dict), of AutoOptimizer (_hyperoptimizers_by_thread) and of
   HyperOptimizer (best, number of trials so far); each query is a sequence of atomic steps
   cut where the interpreter can switch threads between two shared accesses; a scheduler
   oracle (list of thread positions) picks who moves.  Trial scores, early stopping, the
   fingerprint, the hardness test and the stored score are oracles: every theorem is for ALL
   of them, for ALL schedules, any number of threads and any query programs.
   A tree is its provenance; `results_own orc th` says: every tree recorded by thread th as
   the answer to query q was built from the inputs of q -- it is a trial of a search run on
   q, or a stateless path function run on q, or reconstructed for q from a cache entry whose
   path was found for a query with q's fingerprint (that such a path fits q is C14).
   The model is tied to cotengra by harness/props/c16.py (forced interleavings: the same
   schedule is run through the real objects and through `observe`, traces, returned trees,
   slots, caches and by-thread dicts are compared). *)
From Ctg Require Import Base Threads ThreadsFacts.

(* ReusableHyperOptimizer / ReusableRandomGreedyOptimizer shared by any number of threads,
   for each overwrite mode and cache_only *)
Theorem C16_reusable_returns_own_tree :
  forall cfg orc sched ths st' ths' tr,
  c_mode cfg = MReusable -> NoDup (map t_id ths) -> Forall fresh_thread ths ->
  run cfg orc sched (init_state cfg) ths = (st', ths', tr) ->
  Forall (results_own orc) ths'.
Proof. exact reusable_returns_own_tree. Qed.
Print Assumptions C16_reusable_returns_own_tree.

(* AutoOptimizer / AutoHQOptimizer with cache=True: the presets 'auto' and 'auto-hq' *)
Theorem C16_auto_cached_returns_own_tree :
  forall cfg orc sched ths st' ths' tr,
  c_mode cfg = MAutoCached -> NoDup (map t_id ths) -> Forall fresh_thread ths ->
  run cfg orc sched (init_state cfg) ths = (st', ths', tr) ->
  Forall (results_own orc) ths'.
Proof. exact auto_cached_returns_own_tree. Qed.
Print Assumptions C16_auto_cached_returns_own_tree.

(* 'greedy', 'optimal', ...: stateless *)
Theorem C16_presets_return_own_tree :
  forall cfg orc sched ths st' ths' tr,
  c_mode cfg = MPreset -> NoDup (map t_id ths) -> Forall fresh_thread ths ->
  run cfg orc sched (init_state cfg) ths = (st', ths', tr) ->
  Forall (results_own orc) ths'.
Proof. exact presets_return_own_tree. Qed.
Print Assumptions C16_presets_return_own_tree.

(* AutoOptimizer(cache=False) AS THE CODE STANDS: false already for one thread and two queries
   (finding 8; witness: ThreadsFacts.stale_*; replayed on the real code by the check) *)
Theorem C16_auto_uncached_returns_own_tree_refuted :
  exists cfg orc sched ths,
    c_mode cfg = MAutoUncached /\ NoDup (map t_id ths) /\ Forall fresh_thread ths /\
    length ths = 1 /\
    ~ Forall (results_own orc) (snd (fst (run cfg orc sched (init_state cfg) ths))).
Proof. exact auto_uncached_refuted. Qed.
Print Assumptions C16_auto_uncached_returns_own_tree_refuted.

(* AutoOptimizer(cache=False) with the proposed patch (a new HyperOptimizer per query) *)
Theorem C16_auto_uncached_fresh_returns_own_tree :
  forall cfg orc sched ths st' ths' tr,
  c_mode cfg = MAutoUncachedFresh -> NoDup (map t_id ths) -> Forall fresh_thread ths ->
  run cfg orc sched (init_state cfg) ths = (st', ths', tr) ->
  Forall (results_own orc) ths'.
Proof. exact auto_uncached_fresh_returns_own_tree. Qed.
Print Assumptions C16_auto_uncached_fresh_returns_own_tree.

(* the answers a thread holds are answers to its own program, in order: answered queries
   (oldest first) ++ the query in flight ++ the queries not yet asked = the initial program,
   thread by thread, for every schedule (so the theorems above are about every query asked) *)
Theorem C16_answers_follow_program :
  forall cfg orc sched st ths st' ths' tr,
  run cfg orc sched st ths = (st', ths', tr) ->
  Forall2 (fun a b => (program a, t_id a) = (program b, t_id b)) ths ths'.
Proof. exact run_program. Qed.
Print Assumptions C16_answers_follow_program.

(* no query ends in an exception (every query asked and scheduled to completion gets a tree,
   which by the theorems above is its own): for EVERY mode -- also the non-caching
   AutoOptimizer as it stands --, every schedule, provided the optimizer is not cache_only and
   no trial fails (all scores finite; a search whose trials all fail raises KeyError('tree')
   in the code and in the model) *)
Theorem C16_no_query_raises :
  forall cfg orc, c_cache_only cfg = false -> (forall q o k, o_score orc q o k <> None) ->
  forall sched ths, NoDup (map t_id ths) -> Forall fresh_thread ths ->
  forall st' ths' tr, run cfg orc sched (init_state cfg) ths = (st', ths', tr) ->
  Forall no_raise ths'.
Proof. exact no_query_raises. Qed.
Print Assumptions C16_no_query_raises.

(* wait-freedom: whatever the other threads do and however the scheduler interleaves them, a
   thread that gets at least `steps_left` turns (at most max_repeats + 9 per query) has answered
   ALL the queries of its program, in order -- no step of one thread can block another *)
Theorem C16_wait_free :
  forall cfg orc sched st ths st' ths' tr i th,
  run cfg orc sched st ths = (st', ths', tr) -> nth_error ths i = Some th ->
  steps_left cfg th <= count_occ Nat.eq_dec sched i ->
  exists th', nth_error ths' i = Some th' /\ finished th' = true /\ t_todo th' = [] /\
              rev (map fst (t_done th')) = program th.
Proof. exact wait_free. Qed.
Print Assumptions C16_wait_free.

(* the hypothesis on thread ids cannot be dropped: with one id for two live threads a shared
   reusable optimizer hands a thread the other thread's tree (CPython guarantees distinct
   idents for live threads; the check asserts it) *)
Theorem C16_distinct_ids_needed :
  exists sched ths, Forall fresh_thread ths /\
    ~ Forall (results_own dup_orc) (snd (fst (run dup_cfg dup_orc sched (init_state dup_cfg) ths))).
Proof. exact reusable_shared_tid_refuted. Qed.
Print Assumptions C16_distinct_ids_needed.

(* THREADS SHARING AN ID -- nested queries and recycled thread idents.  A nested query (a trial of the running
   search asks the same optimizer object about another contraction on the same thread, as
   PartitionTreeBuilder.build_divide does through super_optimize) is, for the shared state, a second thread with
   the SAME id that runs a whole query while the outer one is parked inside its trial.  The theorems above
   generalise from "distinct ids" to the discipline Threads.disciplined: whenever a thread steps, no OTHER thread
   with its id is between publishing its slot and fetching from it (pcs PRCacheSet/PRCacheOld/PRFetch).  All
   modes except the stale non-caching Auto, every oracle, every disciplined schedule. *)
Theorem C16_returns_own_tree_shared_ids :
  forall cfg orc, c_mode cfg <> MAutoUncached ->
  forall sched ths, Forall fresh_thread ths ->
  disciplined cfg orc sched (init_state cfg) ths = true ->
  forall st' ths' tr, run cfg orc sched (init_state cfg) ths = (st', ths', tr) ->
  Forall (results_own orc) ths'.
Proof. exact all_results_own_disciplined. Qed.
Print Assumptions C16_returns_own_tree_shared_ids.

(* distinct ids are the special case: every schedule is disciplined *)
Theorem C16_distinct_ids_are_disciplined :
  forall cfg orc sched st ths, NoDup (map t_id ths) -> disciplined cfg orc sched st ths = true.
Proof. exact nodup_disciplined. Qed.
Print Assumptions C16_distinct_ids_are_disciplined.

(* non-vacuity for nesting: position 1 (same id 7) runs its whole query while position 0 is inside its first trial;
   the schedule is disciplined and both get their own trees; parking position 0 at PRFetch instead (what
   "publish the slot before the search" amounts to) violates the discipline *)
Example C16_nested_query :
  disciplined nest_cfg nest_orc nest_sched (init_state nest_cfg) nest_threads = true /\
  enc_results (snd (fst (run nest_cfg nest_orc nest_sched (init_state nest_cfg) nest_threads)))
  = [[[0; 0; 0; 0; 0]]; [[1; 0; 1; 1; 0]]] /\
  disciplined nest_cfg nest_orc ([0;0;0;0;0;0;0] ++ repeat 1 8 ++ [0]) (init_state nest_cfg) nest_threads = false.
Proof. exact nested_example. Qed.

(* OPTION FLIPS on a long-lived object (`opt.cache_only = True`, `opt.overwrite = ...`, search vs __call__ per query),
   between or even during queries: a history is a list of segments, each run under its own configuration.  The
   coupling "search() returns last_opt.tree only when last_opt was produced for this very query" is the slot
   invariant of the proof (pc PRFetch is reached only through the thread's own publish); it depends on the
   configuration only through the mode, so it survives every flip. *)
Theorem C16_returns_own_tree_under_option_flips :
  forall orc m, m <> MAutoUncached ->
  forall segs, Forall (fun s => c_mode (fst s) = m) segs ->
  forall cfg0, c_mode cfg0 = m ->
  forall ths, NoDup (map t_id ths) -> Forall fresh_thread ths ->
  forall st' ths' tr, run_segs orc segs (init_state cfg0) ths = (st', ths', tr) ->
  Forall (results_own orc) ths'.
Proof. exact results_own_reconfigured. Qed.
Print Assumptions C16_returns_own_tree_under_option_flips.

(* overwrite=True; search A; search B; cache_only := True; search A  raises in the model (as in the code), it does
   not return B's tree *)
Example C16_cache_only_after_warmup :
  enc_results (snd (fst (run_segs flip_orc
     [(mkC MReusable OwTrue false 0 false, repeat 0 14); (mkC MReusable OwTrue true 0 false, repeat 0 4)]
     (init_state (mkC MReusable OwTrue false 0 false)) [start_thread 7 [0; 1; 0]])))
  = [[[0; 0; 0; 0; 0]; [1; 0; 1; 1; 0]; [0; 9]]].
Proof. exact flip_example. Qed.

(* THE CACHE KEY of hash method 'a' (Threads.key_a, compared with reusable.hash_contraction on query pairs each run)
   determines the query up to what the stored POSITIONAL path depends on: equal keys => the same number of tensors
   and, position by position, the same index multiset, the same output indices, the same sizes.  (With the model's
   hypothesis "entries sit under their own fingerprint" this is what makes `TRecon q src` an answer for q.) *)
Theorem C16_key_a_positional : forall i1 o1 s1 i2 o2 s2,
  key_a i1 o1 s1 = key_a i2 o2 s2 ->
  length i1 = length i2 /\
  (forall k, Permutation.Permutation (nth k i1 []) (nth k i2 [])) /\
  Permutation.Permutation o1 o2 /\ Permutation.Permutation s1 s2.
Proof. exact key_a_positional. Qed.
Print Assumptions C16_key_a_positional.

Example C16_key_a_sees_tensor_order :
  key_a_eqb [[0;1]; [1;2]; [2;3]] [0;3] [(0,2);(1,50);(2,3);(3,40)]
            [[1;2]; [0;1]; [2;3]] [0;3] [(0,2);(1,50);(2,3);(3,40)] = false /\
  key_a_eqb [[0;1]; [1;2]; [2;3]] [0;3] [(0,2);(1,50);(2,3);(3,40)]
            [[1;0]; [2;1]; [2;3]] [3;0] [(3,40);(1,50);(2,3);(0,2)] = true.
Proof. exact key_a_sees_tensor_order. Qed.

(* verified checker: used by the correspondence on the results of every modelled run *)
Theorem C16_checker_sound :
  forall orc ths, all_own_b orc ths = true -> Forall (results_own orc) ths.
Proof. exact all_own_b_sound. Qed.
Print Assumptions C16_checker_sound.

(* non-vacuity: two threads with distinct ids interleave three queries (one shared between
   them) through one reusable optimizer with overwrite='improved'; all hypotheses hold, all
   five queries are answered (none raised), two answers are reconstructions (one from the other
   thread's cache entry after an unimproved re-search), and every answer is the asker's. *)
Example C16_nonvacuous :
  let cfg := mkC MReusable OwImproved false 1 false in
  let orc := mkO (fun q => q) (fun _ => true)
                 (fun q o k => Some (Z.of_nat (q + 2 * o + k)))
                 (fun _ _ _ => false) (fun t => match t with TSearch q o k => Some (Z.of_nat o) | _ => None end) in
  let ths := [start_thread 11 [0; 1]; start_thread 12 [1; 2; 0]] in
  let sched := [0;1;1;0;0;1;0;1;1;0;0;1;0;1] ++ repeat 0 12 ++ repeat 1 24 in
  NoDup (map t_id ths) /\ Forall fresh_thread ths /\
  enc_results (snd (fst (run cfg orc sched (init_state cfg) ths)))
  = [[[0;0;0;0;0]; [1;2;1;1]]; [[1;0;1;1;0]; [2;0;2;3;0]; [0;2;0;0]]].
Proof.
  cbn zeta. split; [repeat constructor; cbn; intuition discriminate|].
  split; [repeat constructor|]. vm_compute. reflexivity.
Qed.

From Ctg Require Import Base Net Einsum Program Arrays BaseFacts NetFacts SumOver TreeEval.
Theorem C01_tree_value_is_einsum : forall n sl arr l r, wf_net n -> full_tree n (Node l r) -> forall e,
  eval_root n sl arr (Node l r) e = einsum_spec n sl arr e.
Proof. exact eval_root_is_einsum. Qed.
Print Assumptions C01_tree_value_is_einsum.

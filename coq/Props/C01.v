(* C01 -- contracting with any tree gives the einsum value, in the declared axis order.
   Statements only; proofs are `exact <lemma>` (Proofs/TreeEval.v, Proofs/ProgramFacts.v).

   Model: Model/Net.v (legs/involved), Model/Einsum.v (einsum_spec = iterated finite sum of
   the product of the input entries over all assignments of the non-output indices; a
   repeated index within a term is a diagonal because the same assignment is used),
   Model/Program.v (get_inds, recipes, extract_contractions, positional semantics of
   numpy.einsum with explicit output, slice_arrays).  The model is compared with
   cotengra/core.py + contract.py by harness/props/c01.py on every run.

   Quantification: every network (any number of tensors, hyper indices, repeated indices,
   scalars, outer products, disconnected parts, size-1 or size-0 dimensions), every binary
   tree whose leaves are a permutation of 0..N-1, every set of removed (sliced/projected)
   indices with the removed indices fixed by e0, every family of input arrays.
   wf_net: the declared output has no duplicate and consists of indices of the inputs. *)
From Ctg Require Import Base Net Einsum Program BaseFacts NetFacts SumOver TreeEval ProgramFacts.

(* (1) the denotational value of any complete tree is the einsum *)
Theorem C01_tree_value_is_einsum : forall n sl arr l r, wf_net n -> full_tree n (Node l r) -> forall e,
  eval_root n sl arr (Node l r) e = einsum_spec n sl arr e.
Proof. exact eval_root_is_einsum. Qed.
Print Assumptions C01_tree_value_is_einsum.

(* (2) every intermediate: the subtree's value is the sum over exactly the indices that
       no longer occur outside it of the product of its leaves *)
Theorem C01_subtree_value : forall n sl arr t, inrange n (leaves t) -> forall e,
  evalS n sl arr t e = sum_over (dim n) (dead n sl (leaves t)) e (prodF n arr (leaves t)).
Proof. exact evalS_is_sum. Qed.
Print Assumptions C01_subtree_value.

(* (3) per-node axis orders (get_inds) enumerate the node's legs without repetition *)
Theorem C01_inds_enumerate_legs : forall n sl t, inrange n (leaves t) ->
  NoDup (inds_sub n sl t) /\ forall j, In j (inds_sub n sl t) <-> In j (lkeys (sub_legs n sl t)).
Proof. exact inds_sub_spec. Qed.
Print Assumptions C01_inds_enumerate_legs.

(* (4) the extracted positional program (einsum instructions, leaves sliced and
       pre-processed) computes at every position the value of the subtree ... *)
Theorem C01_program_subtree : forall n sl arr e0 t, inrange n (leaves t) ->
  forall e, agree_removed sl e0 e ->
  run_sub n sl arr e0 t (map e (inds_sub n sl t)) = evalS n sl arr t e.
Proof. exact run_sub_correct. Qed.
Print Assumptions C01_program_subtree.

(* (5) ... and for the whole tree the result array, indexed by the declared output indices
       IN THE DECLARED ORDER (minus removed ones), holds the einsum value *)
Theorem C01_program_value_and_axis_order : forall n sl arr e0 l r,
  wf_net n -> full_tree n (Node l r) -> forall e, agree_removed sl e0 e ->
  run_root n sl arr e0 (Node l r) (map e (out_inds n sl)) = einsum_spec n sl arr e.
Proof. exact run_root_correct. Qed.
Print Assumptions C01_program_value_and_axis_order.

Theorem C01_output_axes_are_declared : forall n sl,
  out_inds n sl = filter (fun j => negb (memb j (removed sl))) (output n).
Proof. exact out_inds_eq. Qed.
Print Assumptions C01_output_axes_are_declared.


(* (6) the same for EVERY admissible assignment of per-node axis orders -- any permutation
       of each internal node's legs, which is what sort_contraction_indices produces *)
Theorem C01_program_any_axis_orders : forall n sl arr e0 io l r,
  wf_net n -> full_tree n (Node l r) -> admissible n sl io l -> admissible n sl io r ->
  forall e, agree_removed sl e0 e ->
  run_root_g n sl arr e0 io (Node l r) (map e (out_inds n sl)) = einsum_spec n sl arr e.
Proof. exact run_root_g_correct. Qed.
Print Assumptions C01_program_any_axis_orders.

Theorem C01_default_orders_admissible : forall n sl t, inrange n (leaves t) ->
  admissible n sl (inds_sub n sl) t.
Proof. exact default_admissible. Qed.
Print Assumptions C01_default_orders_admissible.

(* the boolean admissibility check that the harness runs (inside Coq) on the axis orders the
   real sort_contraction_indices produced is sound *)
Theorem C01_admissible_check_sound : forall n sl io t,
  admissible_b n sl io t = true -> admissible n sl io t.
Proof. exact admissible_b_sound. Qed.
Print Assumptions C01_admissible_check_sound.

(* non-vacuity: 'aab,bcd,cd,->da' style network with a repeated index, a hyper index
   (c on three tensors incl. output? no: d), a scalar and an outer product *)
Local Open Scope nat_scope.
Example C01_nonvacuous :
  let n := mkNet [[0;0;1]; [1;2;3]; [2;3]; []] [3;0] [(0,2%Z);(1,2%Z);(2,2%Z);(3,2%Z)] in
  let t := Node (Node (Leaf 0) (Leaf 3)) (Node (Leaf 1) (Leaf 2)) in
  wf_net n /\ full_tree n t.
Proof.
  cbn zeta. split.
  - split; [repeat constructor; cbn; intuition discriminate|].
    intros j Hj. cbn in *. intuition.
  - unfold full_tree. cbn. apply Permutation.Permutation_sym.
    apply (Permutation.perm_trans (l' := [0;3;1;2])); [|apply Permutation.Permutation_refl].
    apply Permutation.perm_skip.
    apply (Permutation.perm_trans (l' := [1;3;2])).
    + apply Permutation.perm_skip, Permutation.perm_swap.
    + apply (Permutation.perm_trans (l' := [3;1;2])); [apply Permutation.perm_swap|apply Permutation.Permutation_refl].
Qed.

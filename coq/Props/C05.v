(* C05 -- every pathfinder returns a complete, well-formed contraction of its network.
   Statements only; every proof is `exact <lemma of Proofs/PathValidFacts.v / ProcessorFacts.v>`.
   Model: Model/PathValid.v, Model/Processor.v (tied to cotengra/core.py,
   cotengra/pathfinders/path_basic.py by harness/props/c05.py).

   Vocabulary.  A linear path over n tensors is a list of steps; step s applied to m
   live tensors pops the positions of s (largest first) and appends the result.
   [path_wf m p k]: every step of p is non-empty, has distinct positions, all < the
   number of tensors live at that step, and k tensors are left at the end.
   [sem_linear n p]: the explicit small-step execution on the list of live tensors, each
   represented by the MULTISET of inputs it contains (a contraction concatenates its
   operands, so an input consumed twice would appear twice).
   The checkers [linear_path_valid], [ssa_path_valid], [tree_complete_b] are what the
   check runs, inside Coq, on every path / tree the real optimizers return. *)
From Coq Require Import Lia Permutation.
From Ctg Require Import Base Net PathValid Processor BaseFacts PathValidFacts ProcessorFacts BuilderFacts SsaLinearFacts RefineFacts GoodFacts RandomFacts EdgeBridgeFacts.
From Ctg Require Paths.

(* ---- path_valid_sound -------------------------------------------------------- *)
(* an accepted linear path: every step references existing distinct positions, the
   execution from n singleton leaves does not fail, ends in ONE tensor, and that tensor
   contains every input exactly once *)
Theorem C05_path_valid_sound : forall n p, linear_path_valid n p = true ->
  path_wf n p 1 /\ exists s, sem_linear n p = Some [s] /\ Permutation s (seq 0 n).
Proof. exact path_valid_sound_linear. Qed.
Print Assumptions C05_path_valid_sound.

(* any valid prefix: the live tensors always partition the inputs *)
Theorem C05_path_prefix_sound : forall n p m, lin_run any_len n p = Some m ->
  path_wf n p m /\
  exists live, sem_linear n p = Some live /\ length live = m /\ Permutation (concat live) (seq 0 n).
Proof. exact linear_prefix_sound. Qed.
Print Assumptions C05_path_prefix_sound.

(* SSA: every step uses ids that exist and were not used before; one tensor is left
   and it contains every input exactly once *)
Theorem C05_ssa_path_valid_sound : forall n p, ssa_path_valid n p = true ->
  exists i s nx, ssa_wf (seq 0 n) n p [i] /\ sem_ssa n p = Some ([(i, s)], nx) /\ Permutation s (seq 0 n).
Proof. exact path_valid_sound_ssa. Qed.
Print Assumptions C05_ssa_path_valid_sound.

(* ---- from_path_complete ------------------------------------------------------ *)
(* ContractionTree.from_path (model: from_path_linear / from_path_ssa, incl. multi-way
   steps through contract_nodes and the contraction of whatever a partial path leaves)
   returns, for ANY valid path prefix, a binary tree whose leaves are the inputs, each
   exactly once.  Assumption (visible): the path find_path returns for a >= 3-way
   contraction is a valid path of 1- or 2-operand steps. *)
Theorem C05_from_path_complete : forall (sub : list nset -> path) n p m,
  (forall ls : list nset, 3 <= length ls -> binary_path_valid (length ls) (sub ls) = true) ->
  1 <= n -> lin_run any_len n p = Some m ->
  exists t, from_path_linear sub n p = Some t /\ Permutation (leaves t) (seq 0 n).
Proof. intros sub n p m H. exact (from_path_linear_complete sub H n p m). Qed.
Print Assumptions C05_from_path_complete.

Theorem C05_from_ssa_path_complete : forall (sub : list nset -> path) n p av nx,
  (forall ls : list nset, 3 <= length ls -> binary_path_valid (length ls) (sub ls) = true) ->
  1 <= n -> ssa_run any_len (seq 0 n) n p = Some (av, nx) ->
  exists t, from_path_ssa sub n p = Some t /\ Permutation (leaves t) (seq 0 n).
Proof. intros sub n p av nx H. exact (from_path_ssa_complete sub H n p av nx). Qed.
Print Assumptions C05_from_ssa_path_complete.

(* the oracle the correspondence feeds the model with meets that assumption *)
Theorem C05_table_oracle_valid : forall tbl (ls : list nset), 3 <= length ls ->
  binary_path_valid (length ls) (sub_of_table tbl ls) = true.
Proof. exact sub_of_table_valid. Qed.
Print Assumptions C05_table_oracle_valid.

(* ---- tree_complete_b_sound --------------------------------------------------- *)
Theorem C05_tree_complete_b_sound : forall n ch, tree_complete_b n ch = true -> tree_complete n ch.
Proof. exact tree_complete_b_sound. Qed.
Print Assumptions C05_tree_complete_b_sound.

(* ---- ssa_to_linear ------------------------------------------------------------- *)
(* path_basic.ssa_to_linear (bisect_left on the ascending ids list, positions popped in reverse)
   maps every valid SSA path prefix to a valid linear path prefix leaving the same number of
   tensors; a complete SSA path to a complete linear path *)
Theorem C05_ssa_to_linear_valid : forall n p av nx, ssa_run any_len (seq 0 n) n p = Some (av, nx) ->
  exists q, ssa_to_linear n p = Some q /\ lin_run any_len n q = Some (length av).
Proof. exact ssa_to_linear_valid. Qed.
Print Assumptions C05_ssa_to_linear_valid.

(* ---- processor_paths_valid --------------------------------------------------------- *)
(* Every mutation ContractionProcessor makes to (nodes, ssa, ssa_path) is contract_nodes(i, j)
   or the single-term step of simplify_single_terms (abstract machine of Model/Processor.v; heap
   order, scores, legs are abstracted: [os] is ANY sequence of such operations that does not
   hit a KeyError, [choose] ANY rule picking two distinct present nodes in
   optimize_remaining_by_size).  Then one node is left, the recorded ssa_path is a valid complete
   SSA path and ssa_to_linear turns it into a valid complete linear path.
   Covers greedy, random-greedy, optimal, disconnected leftovers, N = 1, 2. *)
Theorem C05_processor_paths_valid : forall n os a choose fuel, 1 <= n ->
  a_run (a_init n) os = Some a -> choose_ok choose -> length (a_present a) <= S fuel ->
  exists a', a_remaining choose fuel a = Some a' /\ length (a_present a') = 1 /\
             ssa_path_valid n (a_path a') = true /\
             exists q, ssa_to_linear n (a_path a') = Some q /\ linear_path_valid n q = true.
Proof. exact processor_paths_valid. Qed.
Print Assumptions C05_processor_paths_valid.

(* ---- refinement: the concrete passes only emit abstract operations ------------------ *)
(* [Ref c c']: the ok flag never returns to true, and whenever c' is flagged ok, c' is reached
   from c by a sequence of abstract operations (contract_nodes / single-term step) on present
   nodes.  Holds for every pass of the concrete model (which the correspondence compares
   output-for-output with the code) for ALL inputs, legs, orders. *)
Theorem C05_passes_refine : forall orders c,
  Ref c (cp_simplify orders c) /\ Ref c (cp_greedy c) /\ Ref c (cp_remaining c) /\
  Ref c (simplify_single_terms c) /\ Ref c (simplify_scalars c) /\ Ref c (simplify_batch c).
Proof. exact passes_refine. Qed.
Print Assumptions C05_passes_refine.

(* ---- the pipelines, UNCONDITIONALLY ------------------------------------------------- *)
(* [cp_init] is the model of ContractionProcessor.__init__ (compared field by field with the real
   object each run); [orders] is the iteration order of the Python set `hadamards` in each
   simplify round, any duplicate-free lists ([orders_ok]; a set has no duplicates); [sco] is
   the score of the candidate with heap counter c: None = costmod 1 / temperature 0, Some f = ANY
   scores (random-greedy: any costmod, temperature, gumbel noise).  The model flags every
   KeyError the code could raise (pop_node, self.nodes[...] / node_sizes[...] in greedy,
   remove_ix).  For EVERY network with at least one tensor: no KeyError is ever flagged and
   exactly one node is left ... *)
Theorem C05_greedy_pipeline_total : forall inputs output sizes orders sco, inputs <> [] -> orders_ok orders ->
  let c' := cp_remaining (cp_greedy_sc sco (cp_simplify orders (cp_init inputs output sizes))) in
  cp_ok c' = true /\ length (cp_nodes c') = 1.
Proof. exact greedy_pipeline_total. Qed.
Print Assumptions C05_greedy_pipeline_total.

(* ... hence every run of the greedy / random-greedy pipeline returns a valid complete ssa path
   and (through ssa_to_linear) a valid complete linear path *)
Theorem C05_greedy_pipeline_valid : forall inputs output sizes orders sco, inputs <> [] -> orders_ok orders ->
  let n := length inputs in
  let c' := cp_remaining (cp_greedy_sc sco (cp_simplify orders (cp_init inputs output sizes))) in
  ssa_path_valid n (cp_path c') = true /\
  exists q, ssa_to_linear n (cp_path c') = Some q /\ linear_path_valid n q = true.
Proof. exact greedy_pipeline_valid. Qed.
Print Assumptions C05_greedy_pipeline_valid.

(* optimize_remaining_by_size alone, with or without simplify *)
Theorem C05_remaining_pipeline_valid : forall inputs output sizes orders (simp : bool), inputs <> [] -> orders_ok orders ->
  let n := length inputs in
  let c0 := cp_init inputs output sizes in
  let c' := cp_remaining (if simp then cp_simplify orders c0 else c0) in
  cp_ok c' = true /\ length (cp_nodes c') = 1 /\ ssa_path_valid n (cp_path c') = true.
Proof. exact remaining_pipeline_valid. Qed.
Print Assumptions C05_remaining_pipeline_valid.

(* optimize_optimal's pipeline: (simplify;) for each component the dynamic program -- an ORACLE
   here, proved in Proofs/OptimalFacts.v (C09: the DP returns exactly one entry, a tree over all
   tensors of the component) -- returns a tree [t] over the positions of the component [wh]
   ([comps_ok]: the components are disjoint sets of present nodes and leaves t is a permutation of
   the positions); its bit path is replayed through contract_nodes; leftovers by size.  No
   KeyError, one node, valid complete ssa and linear paths. *)
Theorem C05_optimal_pipeline_valid : forall inputs output sizes orders comps (simp : bool), inputs <> [] -> orders_ok orders ->
  let n := length inputs in
  let c0 := cp_init inputs output sizes in
  let c1 := if simp then cp_simplify orders c0 else c0 in
  comps_ok c1 comps ->
  let c' := cp_remaining (cp_optimal comps c1) in
  cp_ok c' = true /\ length (cp_nodes c') = 1 /\ ssa_path_valid n (cp_path c') = true /\
  exists q, ssa_to_linear n (cp_path c') = Some q /\ linear_path_valid n q = true.
Proof. exact optimal_pipeline_valid. Qed.
Print Assumptions C05_optimal_pipeline_valid.

(* ---- edge_path_valid ------------------------------------------------------------------ *)
(* [Paths.edge_path_to_ssa] is the C10 model of path_basic.edge_path_to_ssa (Model/Paths.v, tied to
   the code by the C10 correspondence, proved valid in Proofs/PathsEdge.v).  For EVERY network and
   EVERY list of indices (repeated or unknown ones stop the conversion, the steps emitted so far
   count) the emitted ssa path only uses ids that exist and are unused, with >= 1 tensor per step:
   it is accepted by ssa_path_prefix_valid ... *)
Theorem C05_edge_path_ssa_prefix_valid : forall inputs ep,
  ssa_path_prefix_valid (length inputs) (fst (Paths.edge_path_to_ssa ep inputs)) = true.
Proof. exact edge_path_ssa_prefix_valid. Qed.
Print Assumptions C05_edge_path_ssa_prefix_valid.

(* ... so from_path_ssa_complete applies: from_path(edge_path=...) builds, with the completion of
   what an edge path over a disconnected network leaves, a binary tree over exactly the inputs *)
Theorem C05_edge_path_from_path_complete : forall (sub : list nset -> path) inputs ep,
  (forall ls : list nset, 3 <= length ls -> binary_path_valid (length ls) (sub ls) = true) ->
  1 <= length inputs ->
  exists t, from_path_ssa sub (length inputs) (fst (Paths.edge_path_to_ssa ep inputs)) = Some t /\
            Permutation (leaves t) (seq 0 (length inputs)).
Proof. exact edge_path_from_path_complete. Qed.
Print Assumptions C05_edge_path_from_path_complete.

(* ... and edge_path_to_linear (= ssa_to_linear of it) only references existing positions *)
Theorem C05_edge_path_linear_prefix_valid : forall inputs ep,
  exists q, ssa_to_linear (length inputs) (fst (Paths.edge_path_to_ssa ep inputs)) = Some q /\
            linear_path_prefix_valid (length inputs) q = true.
Proof. exact edge_path_linear_prefix_valid. Qed.
Print Assumptions C05_edge_path_linear_prefix_valid.

(* ---- random_path_valid ---------------------------------------------------------------- *)
(* RandomOptimizer.__call__ with ANY stream of random numbers (randint(0, Nrem) = raw mod
   (Nrem+1); the rejection loop `while j == i` may exhaust the stream = None): whenever it returns,
   every step picks two distinct live positions and one tensor is left *)
Theorem C05_random_path_valid : forall n ds p, 1 <= n -> random_optimizer_path n ds = Some p ->
  linear_path_valid n p = true /\ path_wf n p 1.
Proof. exact random_optimizer_path_valid. Qed.
Print Assumptions C05_random_path_valid.

(* ---- partition_builder_complete ------------------------------------------------ *)
(* core.separate: the groups are non-empty and together are exactly the argument *)
Theorem C05_separate_partitions : forall (xs : list nat) bs, length xs <= length bs ->
  Permutation (concat (separate xs bs)) xs /\ forall g, In g (separate xs bs) -> g <> [].
Proof. intros xs bs H. split; [now apply separate_perm|apply separate_nonempty]. Qed.
Print Assumptions C05_separate_partitions.

(* PartitionTreeBuilder.build_divide with an ARBITRARY membership oracle of the right length,
   an arbitrary cutoff and any valid sub-path oracle terminates (fuel = number of tensors:
   every community of a split into >= 2 is strictly smaller) and returns a binary tree over
   exactly the inputs; the cutoff, one-community and parts >= nodes branches are cases of the
   proof.  (Model: the tree.childless work list unfolded as a recursion, see docs.) *)
Theorem C05_partition_builder_complete_divide :
  forall (sub : list nset -> path) (memb_fn : nset -> list nat) cutoff n,
  (forall ls : list nset, 3 <= length ls -> binary_path_valid (length ls) (sub ls) = true) ->
  (forall s, length (memb_fn s) = length s) -> 1 <= n ->
  exists t, build_divide sub memb_fn cutoff n = Some t /\ Permutation (leaves t) (seq 0 n).
Proof. intros sub memb_fn cutoff n H1 H2. exact (build_divide_complete sub H1 memb_fn H2 cutoff n). Qed.
Print Assumptions C05_partition_builder_complete_divide.

(* build_agglom as it is in /repo now (break when a round merges nothing), ARBITRARY membership
   oracle of the right length: terminates within n rounds and returns a complete tree *)
Theorem C05_partition_builder_complete_agglom :
  forall (sub : list nset -> path) (memb_fn : list nset -> list nat) groupsize n,
  (forall ls : list nset, 3 <= length ls -> binary_path_valid (length ls) (sub ls) = true) ->
  (forall l, length (memb_fn l) = length l) -> 1 <= n ->
  exists t, build_agglom sub memb_fn groupsize n = Some t /\ Permutation (leaves t) (seq 0 n).
Proof. intros sub memb_fn groupsize n H1 H2. exact (build_agglom_complete sub H1 memb_fn H2 groupsize n). Qed.
Print Assumptions C05_partition_builder_complete_agglom.

(* ---- the OLD build_agglom loop did not terminate (finding 17, fixed by /repo 001d170) --- *)
(* [build_agglom_old] is the loop as it was before the fix: a partition function of the right
   length that merges nothing (every group its own label) makes it run for ever *)
Theorem C05_old_build_agglom_terminates_refuted :
  exists (memb_fn : list nset -> list nat) (n groupsize : nat),
    (forall l, length (memb_fn l) = length l) /\ groupsize >= 2 /\
    forall fuel, build_agglom_old (sub_of_table []) memb_fn groupsize fuel n = None.
Proof. exact old_build_agglom_terminates_refuted. Qed.
Print Assumptions C05_old_build_agglom_terminates_refuted.

(* non-vacuity *)
Example C05_nonvacuous_pipeline :
  let c := cp_remaining (cp_greedy_sc (Some (fun k => Z.of_nat (7 - k))) (cp_simplify [[]]
             (cp_init [[0; 0; 1]; [1; 2]; [2; 3]; []; [4]] [3] [2; 2; 2; 2; 2]%Z))) in
  (cp_ok c = true) /\ (length (cp_nodes c) = 1) /\ (ssa_path_valid 5 (cp_path c) = true) /\
  (random_optimizer_path 4 [3; 3; 1; 0; 2; 1; 1; 0] = Some [[3; 1]; [0; 2]; [1; 0]]).
Proof. vm_compute. repeat split. Qed.
Example C05_nonvacuous_edge :
  fst (Paths.edge_path_to_ssa [1; 0] [[0; 1]; [1; 2]; [0]]) = [[0; 1]; [2; 3]] /\
  from_path_ssa (sub_of_table []) 3 (fst (Paths.edge_path_to_ssa [1] [[0; 1]; [1; 2]; [0]])) =
    Some (Node (Node (Leaf 0) (Leaf 1)) (Leaf 2)).
Proof. vm_compute. split; reflexivity. Qed.
Example C05_nonvacuous_processor :
  exists a, a_run (a_init 4) [ASingle 1; AContract 0 4; AContract 2 3] = Some a /\
            (a_present a = [5; 6]) /\ (a_path a = [[1]; [0; 4]; [2; 3]]).
Proof. eexists. vm_compute. repeat split. Qed.
Example C05_repaired_agglom :
  build_agglom (sub_of_table []) id_membership 4 5 =
    Some (Node (Node (Node (Node (Leaf 3) (Leaf 4)) (Leaf 2)) (Leaf 1)) (Leaf 0)).
Proof. vm_compute. reflexivity. Qed.
Example C05_divide_example :
  match build_divide (sub_of_table []) (fun s => map (fun x => Nat.modulo x 2) s) 1 6 with
  | Some t => tree_complete_b 6 (children_of t) = true
  | None => False
  end.
Proof. vm_compute. reflexivity. Qed.

Example C05_nonvacuous_path :
  linear_path_valid 5 [[0]; [0; 3]; [1; 2; 0]; [0; 1]] = true /\
  ssa_path_valid 4 [[0; 3]; [2; 4]; [1; 5]] = true /\
  from_path_linear (sub_of_table []) 5 [[0; 3; 4]] =
    Some (Node (Node (Node (Node (Leaf 0) (Leaf 3)) (Leaf 4)) (Leaf 2)) (Leaf 1)) /\
  tree_complete_b 3 [([0; 1], ([0], [1])); ([0; 1; 2], ([0; 1], [2]))] = true /\
  tree_complete_b 3 [([0; 1], ([0], [1])); ([0; 1; 2], ([0; 1], [1]))] = false /\
  linear_path_valid 3 [[0; 1]; [1; 1]] = false.
Proof. vm_compute. repeat split. Qed.

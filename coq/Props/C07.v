(* C07 -- stub *)
From Ctg Require Import Base Net BaseFacts NetFacts SlicerCosts SlicerFacts.
Theorem C07_stub : True.
Proof. exact stub_true. Qed.
Print Assumptions C07_stub.

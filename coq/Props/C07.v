(* C07 -- the slice finder's predicted costs are real and its targets are honoured.
   Statements only; every proof is `exact <lemma of Proofs/SlicerFacts.v>`.
   Model: Model/SlicerCosts.v (cotengra/slicer.py ContractionCosts.__init__/remove,
   SliceFinder.trial/best/search), tied to the code by harness/props/c07.py; the
   tree's own figures are Model/Net.v (C03).

   Hypotheses that recur:
     tree_ok n sl t   the declared output has no repeated index and every row of the
                      tree's table has its legs among its involved indices (true by
                      construction for non-root nodes; C07_tree_ok_from_root reduces it
                      to the root: the remaining output indices are involved there)
     sd_pos (szd n)   every dimension is positive
     NoDup (zd_keys (szd n))   size_dict is a dict
   The random, score-driven choice in SliceFinder.trial is an oracle (a list of
   indices); every theorem quantifies over all oracles.  A `Raise`/`Stuck` outcome
   is not a returned set and nothing is claimed about it (as the property says).
   target_overhead is a rational num/den compared exactly (the code compares floats). *)
From Coq Require Import Lia QArith.
From Ctg Require Import Base Net BaseFacts NetFacts SlicerCosts SlicerFacts.
Local Open Scope Z_scope.

(* __init__ builds a cost object whose derived fields (_flops, _sizes and its cached
   maximum, _flop_reductions, _write_reductions, _where) equal their definitions *)
Theorem C07_init_establishes_invariant : forall tab sd,
  Forall (row_ok sd) tab -> sd_pos sd -> NoDup (zd_keys sd) ->
  let c := cc_init tab sd in
  Inv c /\ c_tab c = tab /\ c_sd c = sd /\ c_nsl c = 1 /\ c_orig c = zsum (map r_flops tab).
Proof. exact cc_init_inv. Qed.
Print Assumptions C07_init_establishes_invariant.

(* from_contraction_tree: the contractions are exactly the N-1 internal nodes of the tree (one
   row per Node, in dfs order, none for a leaf / input tensor).  Hence `size` ranges over the
   intermediates only, like ContractionTree.max_size. *)
Theorem C07_contractions_are_internal_nodes : forall n sl t,
  c_tab (costs_of_tree n sl t) = map (row_of n sl) (traverse_dfs t) /\
  length (c_tab (costs_of_tree n sl t)) = (nleaves t - 1)%nat /\
  forall bt, In bt (traverse_dfs t) -> exists l r, snd bt = Node l r.
Proof. exact contractions_are_internal_nodes. Qed.
Print Assumptions C07_contractions_are_internal_nodes.

(* remove(ix), statement by statement, acts on the table as row_remove (drop ix, divide
   flops where involved and size where it is a leg), multiplies nslices by the dimension
   and re-establishes every derived field *)
Theorem C07_remove_spec : forall ix c c', Inv c -> remove ix c = Some c' ->
  let d := zget ix (c_sd c) in
  zd_get ix (c_sd c) = Some d /\
  c_tab c' = map (row_remove ix d) (c_tab c) /\ c_sd c' = zd_del ix (c_sd c) /\
  c_nsl c' = c_nsl c * d /\ c_orig c' = c_orig c /\ Inv c'.
Proof. exact remove_spec. Qed.
Print Assumptions C07_remove_spec.

(* the tree's own table after removing one more index is the row_remove image *)
Theorem C07_tree_remove_is_row_remove : forall n sl t x p, tree_ok n sl t -> 0 < zget x (szd n) ->
  tree_rows n (sl ++ [mkSl x p]) t = map (row_remove x (zget x (szd n))) (tree_rows n sl t).
Proof. exact tree_rows_snoc. Qed.
Print Assumptions C07_tree_remove_is_row_remove.

(* two incremental cost models agree: after any accepted sequence of removals the
   finder's table IS the table of the tree sliced on that sequence *)
Theorem C07_costs_remove_eq_tree_remove : forall n sl0 t,
  tree_ok n sl0 t -> sd_pos (szd n) -> NoDup (zd_keys (szd n)) ->
  forall xs c, remove_seq xs (costs_of_tree n sl0 t) = Some c ->
    c_tab c = tree_rows n (sl0 ++ slice_all xs) t /\ Inv c /\
    c_nsl c = zprod (map (fun x => zget x (szd n)) xs) /\ c_orig c = sum_flops n sl0 t /\
    sd_rel n xs c /\ NoDup xs /\ (forall x, In x xs -> In x (zd_keys (szd n))).
Proof. exact costs_remove_eq_tree_remove. Qed.
Print Assumptions C07_costs_remove_eq_tree_remove.

(* the running reductions (which steer the choice) equal their from-scratch definition *)
Theorem C07_reductions_are_definitional : forall n sl0 t,
  tree_ok n sl0 t -> sd_pos (szd n) -> NoDup (zd_keys (szd n)) ->
  forall xs c, remove_seq xs (costs_of_tree n sl0 t) = Some c ->
  let tab := tree_rows n (sl0 ++ slice_all xs) t in
  c_flops c = sum_flops n (sl0 ++ slice_all xs) t /\
  forall j, In j (zd_keys (c_sd c)) ->
    zd_get0 j (c_fred c) = fred_def (c_sd c) tab j /\
    zd_get0 j (c_wred c) = wred_def (c_sd c) tab j /\
    (forall i, In i (wh_get0 j (c_where c)) <-> involves tab j i) /\
    zget j (c_sd c) = zget j (szd n).
Proof. exact reductions_are_definitional. Qed.
Print Assumptions C07_reductions_are_definitional.

(* size / total flops / nslices read off a cost object are those of the sliced tree
   (relative to the incoming tree: multiply by its multiplicity) *)
Theorem C07_prediction_is_real : forall n sl0 t xs c, (forall j, 0 < zget j (szd n)) ->
  Inv c -> c_tab c = tree_rows n (sl0 ++ slice_all xs) t ->
  c_nsl c = zprod (map (fun x => zget x (szd n)) xs) ->
  c_nsl c * multiplicity n sl0 = multiplicity n (sl0 ++ slice_all xs) /\
  cc_total_flops c * multiplicity n sl0 = total_flops n (sl0 ++ slice_all xs) t /\
  cc_size c = list_max_opt (map (fun bt => node_size n (sl0 ++ slice_all xs) (fst bt) (snd bt)) (traverse_dfs t)) /\
  match cc_size c with Some s => s | None => 0 end = max_size n (sl0 ++ slice_all xs) t.
Proof. exact prediction_is_real. Qed.
Print Assumptions C07_prediction_is_real.

(* an index the tree is already sliced / projected on is never accepted again *)
Theorem C07_removed_never_again : forall n sl0 t,
  tree_ok n sl0 t -> sd_pos (szd n) -> NoDup (zd_keys (szd n)) ->
  forall xs c, remove_seq xs (costs_of_tree n sl0 t) = Some c ->
  forall x, In x xs -> ~ In x (removed sl0).
Proof. exact removed_never_again. Qed.
Print Assumptions C07_removed_never_again.

(* for EVERY oracle: a trial that returns never holds a forbidden index -- neither in
   the returned key nor in any slicing it put into the cache *)
Theorem C07_trial_avoids_forbidden : forall fd oracle ch ch' k c, cache_ok fd ch ->
  trial fd oracle ch = Ret (ch', (k, c)) ->
  (forall j, In j k -> ~ In j (f_forbidden fd)) /\
  (forall e, In e ch' -> forall j, In j (fst e) -> ~ In j (f_forbidden fd)).
Proof. exact trial_avoids_forbidden. Qed.
Print Assumptions C07_trial_avoids_forbidden.

(* for EVERY oracle: when a trial returns, a target test holds on the returned cost
   (size <= target_size, or nslices >= target_slices, or overhead specified and
   overhead <= target_overhead), or nothing was sliced and the incoming cost is already
   over the overhead limit; every non-empty returned slicing respects the limit *)
Theorem C07_trial_meets_target : forall fd oracle ch ch' k c, cache_ok fd ch ->
  trial fd oracle ch = Ret (ch', (k, c)) ->
  trial_post0 fd k c /\ (k <> [] -> over_ok fd c).
Proof. exact trial_meets_target. Qed.
Print Assumptions C07_trial_meets_target.

(* best returns a cached entry on which ALL specified targets hold, minimal for the
   scorer among the valid entries *)
Theorem C07_best_meets_targets : forall fd ch e, best fd ch = Ret e ->
  In e ch /\ targets_hold fd (snd e) /\
  forall e', In e' ch -> valid fd e' = true -> zzz_lt (best_scorer fd e') (best_scorer fd e) = false.
Proof. exact best_spec. Qed.
Print Assumptions C07_best_meets_targets.

(* C07 on the model, end to end: whatever SliceFinder(tree, ...).search() returns, for
   every list of oracles (= every objective, temperature, seed, number of repeats) *)
Theorem C07_search_prediction_real : forall n sl0 t ao ts tov tsl oracles k c,
  tree_ok n sl0 t -> sd_pos (szd n) -> NoDup (zd_keys (szd n)) ->
  search (finder_of_tree n sl0 t ao ts tov tsl) oracles = Ret (k, c) ->
  exists xs, (forall j, In j k <-> In j xs) /\ NoDup xs /\
    let sl := sl0 ++ slice_all xs in
    c_nsl c * multiplicity n sl0 = multiplicity n sl /\
    cc_total_flops c * multiplicity n sl0 = total_flops n sl t /\
    match cc_size c with Some s => s | None => 0 end = max_size n sl t /\
    c_orig c = sum_flops n sl0 t /\
    targets_hold (finder_of_tree n sl0 t ao ts tov tsl) c /\
    (forall j, In j xs -> ~ In j (removed sl0) /\ In j (zd_keys (szd n)) /\
       (ao = AoFalse -> ~ In j (output n)) /\ (ao = AoOnly -> In j (output n))).
Proof. exact search_prediction_real. Qed.
Print Assumptions C07_search_prediction_real.

(* search(..., target_size=, target_overhead=, target_slices=): the per-call arguments go to
   BOTH the trials and best (each resolves them with _maybe_default: a given argument wins over
   the construction-time attribute), and the cache of the object persists across calls.  For
   every call, after any earlier calls (any cache_ok cache), and every oracle: the returned set
   satisfies the targets OF THE CALL, its prediction is real, forbidden indices are absent. *)
Theorem C07_search_call_meets_call_targets : forall fd ots otov otsl oracles ch ch' k c, cache_ok fd ch ->
  search_call fd ots otov otsl oracles ch = Ret (ch', (k, c)) ->
  cache_ok fd ch' /\ entry_ok fd (k, c) /\ call_targets_hold fd ots otov otsl c /\
  (exists xs, remove_seq xs (f_cost0 fd) = Some c /\ (forall j, In j k <-> In j xs) /\
              forall j, In j xs -> ~ In j (f_forbidden fd)).
Proof. exact search_call_spec. Qed.
Print Assumptions C07_search_call_meets_call_targets.

Theorem C07_search_call_prediction_real : forall n sl0 t ao ts tov tsl ots otov otsl oracles ch ch' k c,
  tree_ok n sl0 t -> sd_pos (szd n) -> NoDup (zd_keys (szd n)) ->
  let fd := finder_of_tree n sl0 t ao ts tov tsl in
  cache_ok fd ch ->
  search_call fd ots otov otsl oracles ch = Ret (ch', (k, c)) ->
  cache_ok fd ch' /\
  exists xs, (forall j, In j k <-> In j xs) /\ NoDup xs /\
    let sl := sl0 ++ slice_all xs in
    c_nsl c * multiplicity n sl0 = multiplicity n sl /\
    cc_total_flops c * multiplicity n sl0 = total_flops n sl t /\
    match cc_size c with Some s => s | None => 0 end = max_size n sl t /\
    c_orig c = sum_flops n sl0 t /\
    call_targets_hold fd ots otov otsl c /\
    (forall j, In j xs -> ~ In j (removed sl0) /\ In j (zd_keys (szd n)) /\
       (ao = AoFalse -> ~ In j (output n)) /\ (ao = AoOnly -> In j (output n))).
Proof. exact search_call_prediction_real. Qed.
Print Assumptions C07_search_call_prediction_real.

Theorem C07_tree_ok_from_root : forall n sl t, NoDup (output n) ->
  incl (lkeys (root_legs n sl)) (lkeys (involved n sl t)) -> tree_ok n sl t.
Proof. exact tree_ok_from_root. Qed.
Print Assumptions C07_tree_ok_from_root.

(* the hypotheses above as a verified boolean check; the harness evaluates it (inside
   Coq) on every generated case, so the theorems apply to each of them *)
Theorem C07_hypotheses_checker_sound : forall n sl t, hyps_b n sl t = true ->
  tree_ok n sl t /\ sd_pos (szd n) /\ NoDup (zd_keys (szd n)).
Proof. exact hyps_b_sound. Qed.
Print Assumptions C07_hypotheses_checker_sound.

(* TERMINATION.  trial_g is the same loop driven by a choice function (iteration, key,
   cost) -> index with fuel; the list-oracle trial is its instance for the positional
   choice function.  With fuel = |size_dict| the loop never runs out of fuel: every
   iteration returns, raises, or accepts an index and thereby deletes one key (also on a
   cache hit); the next evaluation of max() on an empty dict raises ValueError.  If the
   choice function always names a key of the current cost.size_dict -- which is all that
   `max(cost.size_dict, key=...)` guarantees -- the model's E_ORACLE outcome is impossible
   too, so the outcome is a return or one of the three Python exceptions. *)
Theorem C07_trial_is_choice_function_loop : forall fd l ch,
  trial fd l ch = trial_g fd (fun i _ _ => nth i l 0%nat) (length l) ch.
Proof. exact trial_is_g. Qed.
Print Assumptions C07_trial_is_choice_function_loop.

Theorem C07_trial_terminates : forall fd choose fuel ch, Inv (f_cost0 fd) -> cache_ok fd ch ->
  (length (c_sd (f_cost0 fd)) <= fuel)%nat ->
  trial_g fd choose fuel ch <> Stuck /\
  (picks_candidates choose -> trial_g fd choose fuel ch <> Raise E_ORACLE).
Proof. exact trial_g_terminates. Qed.
Print Assumptions C07_trial_terminates.

Theorem C07_trial_terminates_tree : forall n sl0 t ao ts tov tsl choose ch,
  tree_ok n sl0 t -> sd_pos (szd n) -> NoDup (zd_keys (szd n)) ->
  let fd := finder_of_tree n sl0 t ao ts tov tsl in
  cache_ok fd ch ->
  trial_g fd choose (length (szd n)) ch <> Stuck /\
  (picks_candidates choose -> trial_g fd choose (length (szd n)) ch <> Raise E_ORACLE).
Proof. exact trial_terminates_tree. Qed.
Print Assumptions C07_trial_terminates_tree.

Theorem C07_trial_never_stuck : forall fd oracle ch, Inv (f_cost0 fd) -> cache_ok fd ch ->
  (length (c_sd (f_cost0 fd)) <= length oracle)%nat -> trial fd oracle ch <> Stuck.
Proof. exact trial_never_stuck. Qed.
Print Assumptions C07_trial_never_stuck.

(* the executable cross-check scratch_b (evaluated on every cache entry of every replayed
   search) is sound: success means the table and the predictions are the tree's *)
Theorem C07_scratch_checker_sound : forall n sl0 t xs c, (forall j, 0 < zget j (szd n)) ->
  scratch_b n sl0 t (xs, c) = true ->
  let sl := sl0 ++ slice_all xs in
  c_tab c = tree_rows n sl t /\
  c_nsl c * multiplicity n sl0 = multiplicity n sl /\
  cc_total_flops c * multiplicity n sl0 = total_flops n sl t /\
  match cc_size c with Some s => s | None => 0 end = max_size n sl t /\
  c_orig c = sum_flops n sl0 t /\
  forall j, In j (zd_keys (c_sd c)) ->
    zd_get0 j (c_fred c) = fred_def (c_sd c) (tree_rows n sl t) j /\
    zd_get0 j (c_wred c) = wred_def (c_sd c) (tree_rows n sl t) j.
Proof. exact scratch_b_sound. Qed.
Print Assumptions C07_scratch_checker_sound.

(* target_overhead: the code compares the FLOAT quotient total_flops / original_flops with the
   float target; the model compares exact rationals.  fdiv a b stands for Python's float(a / b)
   as a rational; the two assumed facts are that rounding is monotone w.r.t. a representable
   bound (fdiv_below) and that int / int is correctly rounded, i.e. has relative error at most
   2^-53 for operands in [1, 2^1000) (fdiv_err).  Whenever the executable side condition
   over_safe_b holds -- it is evaluated inside Coq for every cost object of every replayed
   search that has a target_overhead -- the float test `overhead > target` and the model's
   over_gt give the same answer (hence also `overhead <= target` in best / already_satisfied). *)
Theorem C07_overhead_float_agrees : forall fdiv : Z -> Z -> Q,
  (forall (a b : Z) (tf : Q), (1 <= b)%Z -> (quot a b <= tf)%Q -> (fdiv a b <= tf)%Q) ->
  (forall a b : Z, (1 <= a < FB)%Z -> (1 <= b < FB)%Z -> (quot a b * (1 - (1 # P53)) <= fdiv a b)%Q) ->
  forall (c : costs) (num den : Z), over_safe_b c (num, den) = true ->
  let tf := quot num den in
  ((tf < fdiv (cc_total_flops c) (c_orig c))%Q <-> over_gt c (num, den) = true).
Proof. exact over_float_agrees. Qed.
Print Assumptions C07_overhead_float_agrees.

(* utils.MaxCounter: add / discard keep the cached maximum equal to the maximum *)
Theorem C07_maxcounter_add : forall x m f, mc_inv m f ->
  mc_inv (mc_add x m) (fun y => if Z.eqb y x then S (f y) else f y).
Proof. exact mc_inv_add. Qed.
Print Assumptions C07_maxcounter_add.
Theorem C07_maxcounter_discard : forall x m f, mc_inv m f -> (0 < f x)%nat ->
  mc_inv (mc_discard x m) (fun y => if Z.eqb y x then (f y - 1)%nat else f y).
Proof. exact mc_inv_discard. Qed.
Print Assumptions C07_maxcounter_discard.

(* non-vacuity: a 4-tensor network with a hyper index (1) and an output index (0);
   the hypotheses hold, a search with target_size = 4 and allow_outer = False returns
   the non-empty slicing {1}, and the predictions are the expected numbers *)
Local Open Scope nat_scope.
Definition ex_n : net := mkNet [[0;1]; [1;2]; [2;3;1]; [3;0]] [0]
                               [(0,2%Z); (1,3%Z); (2,2%Z); (3,4%Z)].
Definition ex_t : tree := Node (Node (Leaf 0) (Leaf 1)) (Node (Leaf 2) (Leaf 3)).

Example C07_nonvacuous_hyps : tree_ok ex_n [] ex_t /\ sd_pos (szd ex_n) /\ NoDup (zd_keys (szd ex_n)).
Proof.
  split; [|split].
  - apply tree_ok_from_root; [repeat constructor; cbn; tauto|].
    intros j Hj. vm_compute in Hj. vm_compute. tauto.
  - intros kv Hkv. vm_compute in Hkv. intuition (subst; reflexivity).
  - vm_compute. repeat constructor; cbn; intuition lia.
Qed.

Example C07_nonvacuous_search :
  match search (finder_of_tree ex_n [] ex_t AoFalse (Some 4%Z) None None) [[1]; [1]] with
  | Ret (k, c) => k = [1] /\ cc_size c = Some 4%Z /\ c_nsl c = 3%Z /\ cc_total_flops c = 72%Z
  | _ => False
  end
  /\ max_size ex_n [mkSl 1 None] ex_t = 4%Z /\ total_flops ex_n [mkSl 1 None] ex_t = 72%Z
  /\ max_size ex_n [] ex_t = 12%Z.
Proof. vm_compute. repeat split; reflexivity. Qed.

(* an oracle naming an output index under allow_outer = False raises instead of returning *)
Example C07_nonvacuous_forbidden :
  search (finder_of_tree ex_n [] ex_t AoFalse (Some 1%Z) None None) [[0]] = Raise E_FORBIDDEN.
Proof. vm_compute. reflexivity. Qed.

(* termination is not vacuous: a choice function that always names a key of the current
   dict exists, and with fuel |size_dict| = 4 the trial for an unreachable target_size
   slices everything it may and ends in ValueError(max of empty) *)
Example C07_nonvacuous_termination :
  picks_candidates first_key_choice /\
  obs_outcome obs_pred (match trial_g (finder_of_tree ex_n [] ex_t AoTrue (Some 0%Z) None None) first_key_choice 4
                                      (cache0 (finder_of_tree ex_n [] ex_t AoTrue (Some 0%Z) None None)) with
                        | Ret (_, r) => Ret r | Raise k => Raise k | Stuck => Stuck end)
  = (E_MAX_EMPTY, None)
  /\ obs_outcome obs_pred (match trial_g (finder_of_tree ex_n [] ex_t AoTrue (Some 4%Z) None None) first_key_choice 4
                                      (cache0 (finder_of_tree ex_n [] ex_t AoTrue (Some 4%Z) None None)) with
                        | Ret (_, r) => Ret r | Raise k => Raise k | Stuck => Stuck end)
  = (0, Some ([0; 1], (Some 2%Z, (72%Z, 6%Z)))).
Proof. split; [exact first_key_picks_candidates|]. split; vm_compute; reflexivity. Qed.

(* the overhead side condition is satisfiable, also for a non-dyadic decimal target (1.1 as the
   exact value of its float): the trial slices 1, 0, 2 at overhead 1, the next index would double
   the cost (overhead 2 > target), so the search returns {0,1,2}; all five compared cost objects
   satisfy over_safe_b *)
Example C07_nonvacuous_overhead :
  search_over_safe_b (finder_of_tree ex_n [] ex_t AoTrue None (Some (3%Z, 2%Z)) None) [[1; 0; 2; 3]] = true
  /\ search_over_safe_b (finder_of_tree ex_n [] ex_t AoTrue None
                           (Some (2476979795053773%Z, 2251799813685248%Z)) None) [[1; 0; 2; 3]] = true
  /\ obs_outcome obs_pred (search (finder_of_tree ex_n [] ex_t AoTrue None
                           (Some (2476979795053773%Z, 2251799813685248%Z)) None) [[1; 0; 2; 3]])
     = (0, Some ([0; 1; 2], (Some 1%Z, (72%Z, 12%Z)))).
Proof. repeat split; vm_compute; reflexivity. Qed.

(* per-call overrides are not vacuous: constructed with target_size = 12 (already met by the
   unsliced tree), search(target_size = 2) slices down to size 2 and returns that set, not the
   empty slicing that only meets the construction-time target *)
Example C07_nonvacuous_override :
  match search_call (finder_of_tree ex_n [] ex_t AoTrue (Some 12%Z) None None) (Some 2%Z) None None
                    [[1; 0]] (cache0 (finder_of_tree ex_n [] ex_t AoTrue (Some 12%Z) None None)) with
  | Ret (_, (k, c)) => k = [0; 1] /\ cc_size c = Some 2%Z
  | _ => False
  end
  /\ match search_call (finder_of_tree ex_n [] ex_t AoTrue (Some 12%Z) None None) None None None
                    [[1; 0]] (cache0 (finder_of_tree ex_n [] ex_t AoTrue (Some 12%Z) None None)) with
  | Ret (_, (k, c)) => k = [] /\ cc_size c = Some 12%Z
  | _ => False
  end.
Proof. vm_compute. repeat split; reflexivity. Qed.

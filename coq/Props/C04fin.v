(* C04fin -- C04's checked-trace theorem over the FULL primitive alphabet with the structural facts derived.
   Statements only; proofs are `exact <lemma of Proofs/TreeStateTotals.v / TreeStateDfs.v / TreeStateFinal.v>`.
   * C04fin_total_flops / _total_write / _max_size: these three preserve InvC also when they have to recompute
     (the traversal enumerates the keys of children, all with info entries -- same argument as contract_stats).
   * C04fin_complete_sound: that premise, and restore_ind's "children before parents", follow from the boolean
     complete_b (tree_of ... root = Some t, exactly N-1 entries) in any state with children_ok.
   * C04fin_prim_preserves_inv / C04fin_checked_trace: prim_pre2_b (Model/TreeStatePre2.v) is sound for the
     preconditions of every primitive in states satisfying InvC; no primitive is left uncovered, no fact about
     the dfs traversal remains a precondition. *)
From Coq Require Import Lia Permutation.
From Ctg Require Import Base Net BaseFacts NetFacts TreeState TreeStateFacts TreeStateInv TreeStatePre TreeStateRec
                        TreeStateTotals TreeStateDfs TreeStatePre2 TreeStateFinal.
Open Scope nat_scope.

Theorem C04fin_total_flops : forall n, 2 <= NN n -> NoDup (output n) ->
  forall s, InvC n s -> (trk_flops s = true \/ tot_pre n s) -> InvC n (total_flops_op n s).
Proof. exact total_flops_inv. Qed.
Print Assumptions C04fin_total_flops.
Theorem C04fin_total_write : forall n, 2 <= NN n -> NoDup (output n) ->
  forall s, InvC n s -> (trk_write s = true \/ tot_pre n s) -> InvC n (total_write_op n s).
Proof. exact total_write_inv. Qed.
Print Assumptions C04fin_total_write.
Theorem C04fin_max_size : forall n, 2 <= NN n -> NoDup (output n) ->
  forall s, InvC n s -> (trk_size s = true \/ tot_pre n s) -> InvC n (max_size_op n s).
Proof. exact max_size_inv. Qed.
Print Assumptions C04fin_max_size.

Theorem C04fin_complete_sound : forall n, 2 <= NN n -> forall s, children_ok n (children s) -> complete_b n s = true ->
  exists nodes, traverse n s = Some nodes /\ Permutation (map fst nodes) (nkeys (children s)) /\ children_first [] nodes.
Proof. exact complete_sound. Qed.
Print Assumptions C04fin_complete_sound.

Theorem C04fin_prim_preserves_inv : forall n, 2 <= NN n -> NoDup (output n) ->
  forall p s, InvC n s -> prim_pre2 n p s -> InvC n (step n p s).
Proof. exact step_preserves_InvC2. Qed.
Print Assumptions C04fin_prim_preserves_inv.
(* the FULL-STRENGTH forms of C04_prim_preserves_inv_partial / C04_trace_from_fresh_tree_partial (Props/C04.v):
   prim_pre2 has a clause for EVERY primitive of the trace alphabet -- it is prim_pre except that total_flops /
   total_write / max_size are also admitted when they have to recompute (premise tot_pre: the traversal enumerates
   the keys of children, all with info entries; derivable from complete_b, C04fin_complete_sound) *)
Theorem C04_prim_preserves_inv : forall n, 2 <= NN n -> NoDup (output n) ->
  forall p s, InvC n s -> prim_pre2 n p s -> InvC n (step n p s).
Proof. exact step_preserves_InvC2. Qed.
Print Assumptions C04_prim_preserves_inv.
Theorem C04_trace_from_fresh_tree : forall n, 2 <= NN n -> NoDup (output n) ->
  forall tr, pre_trace n (prim_pre2 n) tr (init_state n) -> InvC n (run n tr (init_state n)).
Proof. exact trace_from_fresh_InvC2. Qed.
Print Assumptions C04_trace_from_fresh_tree.
(* prim_pre2 is prim_pre on every primitive other than the three totals, and weaker on those *)
Theorem C04_prim_pre_implies_full : forall n p s, prim_pre n p s -> prim_pre2 n p s.
Proof. exact prim_pre_pre2. Qed.
Print Assumptions C04_prim_pre_implies_full.

Theorem C04fin_precondition_checker_sound : forall n, 2 <= NN n -> NoDup (output n) ->
  forall p s, InvC n s -> prim_pre2_b n p s = true -> prim_pre2 n p s.
Proof. exact prim_pre2_b_sound. Qed.
Print Assumptions C04fin_precondition_checker_sound.
Theorem C04fin_checked_trace : forall n, 2 <= NN n -> NoDup (output n) ->
  forall tr s, InvC n s -> pre2c_trace_b n tr s = true -> InvC n (run n tr s).
Proof. exact checked_trace2_InvC. Qed.
Print Assumptions C04fin_checked_trace.

Definition exg := mkNet [[0;1]; [1;2]; [2;3]] [0;3] [(0,2%Z);(1,3%Z);(2,2%Z);(3,2%Z)].
Example C04fin_nonvacuous :
  let tr := [PPair [0] [1] None None None; PPair [0;1] [2] None None None; PTotalFlops; PMaxSize; PTotalWrite;
             PRemoveInd 1 None; PRestoreInd 1; PStats true] in
  pre2c_trace_b exg tr (init_state exg) = true
  /\ trk_flops (run exg tr (init_state exg)) = true /\ err (run exg tr (init_state exg)) = false
  /\ cost_inv_b exg (run exg tr (init_state exg)) = true
  /\ prim_pre2_b exg PMaxSize (run exg [PPair [0] [1] None None None] (init_state exg)) = false.
Proof. vm_compute. repeat split; reflexivity. Qed.

(* C02str -- C02 / C04 with the structural state facts derived from a reachable-state invariant.
   Statements only; proofs are `exact <lemma of Proofs/TreeStateStruct.v>`.
   SI s: every entry (p,(l,r)) of children has sorted l, r and p = nunion l r; every key of children has an
   info entry.  ("every internal info node is a key of children" is NOT an invariant at primitive granularity:
   subtree_reconfigure re-adds the root of the subtree with _add_node before it becomes a key again -- found by
   the monitor; it stays a boolean check in the remove_ind / restore_ind clauses.)
   * C02str_prim_preserves_struct: every primitive preserves SI (in states with InvC, under C04's preconditions)
     provided the operands of contract_nodes_pair are sorted leaf lists (SI_pre).
   * C02str_legs_in_involved: "index in legs => index in involved" is a consequence of InvC (was a monitored
     precondition of remove_ind).
   * C02str_weaker_preconditions: in a state with InvC and SI, primA_pre3_b (Model/TreeStatePre3.v) -- which no longer
     checks "nunion l r = p", "every key has an info entry", "index in legs => index in involved" -- implies
     primA_pre2_b.
   * C02str_prim_preserves / C02str_checked_trace: QS = InvC /\ (A) /\ preprocessing /\ SI along every trace with
     pre3_trace_b = true.
   * C02str_history_exec: the value theorem for BOTH instruction kinds (srun_x) with premises: wf_net_b, the checked
     trace, its tail, the traversal covers children, no exception and complete_b of the end state.
     sorted_keys_b is derived. *)
From Coq Require Import Lia Permutation.
From Ctg Require Import Base Net Einsum Program BaseFacts NetFacts ProgramFacts TreeState TreeStateFacts TreeStateInv
                        TreeStatePre TreeStateProg TreeStateValue TreeStateRec TreeStateRecipes TreeStateReady
                        TreeStatePreproc TreeStateReady2 TreeStateTotals TreeStateDfs TreeStatePre2 TdotFacts TreeStateTdot
                        TreeStateFinal TreeStatePre3 TreeStateStruct.
Open Scope nat_scope.

Theorem C02str_prim_preserves_struct : forall n, 2 <= NN n ->
  forall p s, InvC n s -> SI s -> prim_pre2 n p s -> SI_pre p s -> SI (step n p s).
Proof. exact step_preserves_SI. Qed.
Print Assumptions C02str_prim_preserves_struct.

Theorem C02str_legs_in_involved : forall n, 2 <= NN n -> forall s nd i lg inv ind,
  InvC n s -> incl (output n) (concat (inputs n)) -> ~ In ind (removed (sliced s)) ->
  nget nd (info s) = Some i -> length nd <> 1 -> i_legs i = Some lg -> i_involved i = Some inv ->
  lmem ind lg = true -> lmem ind inv = true.
Proof. exact legs_in_involved. Qed.
Print Assumptions C02str_legs_in_involved.

Theorem C02str_weaker_preconditions : forall n, 2 <= NN n -> NoDup (output n) ->
  forall p s, InvC n s -> SI s -> primA_pre3_b n p s = true -> primA_pre2_b n p s = true /\ SI_pre p s.
Proof. exact pre3_pre2. Qed.
Print Assumptions C02str_weaker_preconditions.

Theorem C02str_prim_preserves : forall n, 2 <= NN n -> NoDup (output n) ->
  forall p s, QS n s -> primA_pre3_b n p s = true -> QS n (step n p s).
Proof. exact step_preserves_QS. Qed.
Print Assumptions C02str_prim_preserves.

Theorem C02str_checked_trace : forall n, 2 <= NN n -> NoDup (output n) ->
  forall tr s, QS n s -> pre3_trace_b n tr s = true -> QS n (run n tr s) /\ pre2_trace_b n tr s = true.
Proof. exact checked_trace3. Qed.
Print Assumptions C02str_checked_trace.

Theorem C02str_sorted_keys : forall n, 2 <= NN n -> forall s, SI s -> sorted_keys_b s = true.
Proof. exact S1_sorted_keys. Qed.
Print Assumptions C02str_sorted_keys.

Theorem C02str_history_exec : forall n, 2 <= NN n -> NoDup (output n) ->
  forall tr pe nodes arr e0,
  wf_net_b n = true -> pre3_trace_b n tr (init_state n) = true -> tail_ok_b tr = true ->
  let s1 := run n tr (init_state n) in
  let s := extract_all n pe nodes s1 in
  nodes_ok_b s1 nodes = true -> err s = false -> complete_b n s = true ->
  exists l r, tree_of (tfuel s) (children s) (seq 0 (NN n)) = Some (Node l r) /\
    contractible_b n s (Node l r) = true /\ PB s /\
    fst (srun_x n s arr e0 pe (Node l r)) = map (dim n) (filter (fun j => negb (memb j (removed (sliced s)))) (output n)) /\
    forall e, agree_removed (sliced s) e0 e ->
      snd (srun_x n s arr e0 pe (Node l r)) (map e (filter (fun j => negb (memb j (removed (sliced s)))) (output n)))
      = einsum_spec n (sliced s) arr e.
Proof. exact final3_history_exec. Qed.
Print Assumptions C02str_history_exec.

Definition exh := mkNet [[0;0;1]; [1;2]; [2;3]] [3] [(0,2%Z);(1,3%Z);(2,2%Z);(3,2%Z)].
Definition exh_tr : list prim :=
  [PPair [0] [1] None None None; PPair [0;1] [2] None None None; PTotalFlops; PMaxSize; PTotalWrite;
   PGet GEq [0;1;2]; PRemoveInd 1 None; PGet GLegs [0]; PRestoreInd 1; PStats true; PSortInds PrFlops true true false].
Definition exh_nodes : list (node * (node * node)) := [([0;1], ([0], [1])); ([0;1;2], ([0;1], [2]))].
Example C02str_nonvacuous :
  wf_net_b exh = true /\ pre3_trace_b exh exh_tr (init_state exh) = true /\ tail_ok_b exh_tr = true
  /\ nodes_ok_b (run exh exh_tr (init_state exh)) exh_nodes = true
  /\ (let s := extract_all exh false exh_nodes (run exh exh_tr (init_state exh)) in
      negb (err s) && complete_b exh s && struct_b s) = true
  (* unsorted operands are rejected *)
  /\ primA_pre3_b exh (PPair [1;0] [2] None None None) (run exh [PPair [0] [1] None None None] (init_state exh)) = false
  /\ primA_pre3_b exh (PPair [0] [1] None None None) (init_state exh) = true.
Proof. vm_compute. repeat split; reflexivity. Qed.

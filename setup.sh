#!/bin/sh
# offline build of the verification framework: the Coq development (full .vo build)
set -e
cd "$(dirname "$0")/coq"
sh ./gen_project.sh
timeout 3000 make -j16 > /tmp/ctgverif_setup.log 2>&1 || { tail -50 /tmp/ctgverif_setup.log; exit 1; }
echo "coq development built"

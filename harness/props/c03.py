"""C03 -- reported flops, write, max size and peak match the definition and the execution."""
import sys

from vlib import gen, oracle
from vlib.core import Raw, Some, Z, coq, main, standard_proof_steps, tree_lit

PROP = "C03"


BIG_DIMS = (2**31 - 1, 2**30 + 7, 3 * 2**29, 2**24 + 1, 2**28)


def spec_peak(tree, inputs, output, size_dict, removed, rows, order=None):
    """peak of the summed sizes of the live tensors along tree.traverse(order), from the definition:
    leaf sizes and intermediate sizes recomputed from the network alone (rows = oracle.spec_costs rows)"""
    leaf = lambda i: oracle.prod(size_dict[ix] for ix in oracle.spec_leaf_indices(inputs, output, i, removed))
    tot = sum(leaf(i) for i in range(len(inputs)))
    pk = tot
    srows = {r[0]: r for r in rows}
    for p, l, r in tree.traverse(order):
        tot += srows[p][3]
        pk = max(pk, tot)
        for c in (l, r):
            if len(c) == 1:
                (i,) = c
                tot -= leaf(i)
            else:
                tot -= srows[c][3]
    return pk


def make_case(rng, quick=True, big=None, prequery=False):
    """big: None, or the name of a numpy integer type -- the dimensions are then handed to the
    implementation as numpy integers of that type and made large enough for per-step products
    beyond 2**63 (the reported costs must still be the exact integers of the definition)"""
    import cotengra as ctg
    inputs, output, size_dict = gen.rand_net(rng, nmin=2, nmax=7 if quick else 9)
    path = gen.rand_path(rng, len(inputs))
    sd_impl = size_dict
    if big:
        import numpy as np
        size_dict = {k: (1 if v == 1 else rng.choice(BIG_DIMS)) for k, v in size_dict.items()}
        sd_impl = {k: getattr(np, big)(v) for k, v in size_dict.items()}
    tree = ctg.ContractionTree.from_path(inputs, output, sd_impl, path=path)
    if prequery:
        # every reported quantity is asked for BEFORE any index is removed, so that whatever the
        # tree caches lazily (leaf sizes included) exists and has to be kept right by remove_ind
        tree.peak_size()
        tree.contract_stats()
        tree.max_size()
        for i in range(len(inputs)):
            tree.get_size(frozenset([i]))
    # remove (slice / project) a random ordered subset of indices
    present = sorted({ix for t in inputs for ix in t})
    sl = []
    if present and rng.random() < 0.6:
        for ix in rng.sample(present, rng.randint(1, min(3, len(present)))):
            if rng.random() < 0.3:
                v = rng.randrange(min(size_dict[ix], 7))   # kept small: it is written as a nat literal
                tree.remove_ind_(ix, project=v)
                sl.append((ix, v))
            else:
                tree.remove_ind_(ix)
                sl.append((ix, None))
    return inputs, output, size_dict, path, tree, sl


def impl_tables(tree):
    """observations of the real tree, in the model's layout"""
    nested = gen.tree_nested(tree)
    rows = []
    for p, l, r in tree.traverse():
        lv = gen.nested_leaves(gen.tree_nested(tree, p))
        rows.append((lv, [(gen.IDX[k], v) for k, v in tree.get_legs(p).items()],
                     ([(gen.IDX[k], v) for k, v in tree.get_involved(p).items()],
                      (Z(tree.get_size(p)), Z(tree.get_flops(p))))))
    leafrows = []
    for k in gen.nested_leaves(nested):
        leaf = frozenset([k])
        lg = [(gen.IDX[a], b) for a, b in tree.get_legs(leaf).items()]
        leafrows.append((k, lg))
    return nested, rows, leafrows


def spec_flops_beyond(rows, bound=2**63):
    """does some single step of this case cost at least 2**63 (where fixed-width arithmetic wraps)?"""
    return any(int(r[2][1][1]) >= bound for r in rows)


def run(ctx):
    if not standard_proof_steps(ctx):
        return
    import cotengra as ctg
    import numpy as np

    rng = ctx.rng
    ncases = ctx.n(300, 6000)
    cases = []
    records = []
    for ci in range(ncases):
        big = ("int64", "uint64", "int32", "int64")[(ci // 8) % 4] if ci % 8 == 5 else None
        prequery = ci % 2 == 0
        inputs, output, size_dict, path, tree, sl = make_case(rng, ctx.quick, big, prequery)
        if prequery and sl:
            ctx.count("queried_before_removal")
        if big:
            ctx.count("numpy_%s_dims" % big)
        feats = gen.net_features(inputs, output, size_dict)
        for f in feats:
            ctx.count(f)
        if sl:
            ctx.count("sliced")
        if any(v is not None for _, v in sl):
            ctx.count("projected")
        try:
            stats = tree.contract_stats()
            nested, rows, leafrows = impl_tables(tree)
            peak = tree.peak_size()
            mult = tree.multiplicity
            # tree.sliced_inds order (SliceInfo sort) is what the model receives
            sl_model = [(gen.IDX[k], (None if si.project is None else Some(si.project)))
                        for k, si in tree.sliced_inds.items()]
        except Exception as e:  # the implementation must not raise on a valid tree
            ctx.fail("implementation raised while reporting costs: %r" % (e,),
                     {"inputs": inputs, "output": output, "size_dict": size_dict, "path": path, "removed": sl})
            continue
        netl = gen.net_lit(inputs, output, size_dict)
        sll = "[" + "; ".join("mkSl %d %s" % (i, coq(p)) for i, p in sl_model) + "]"
        tl = tree_lit(nested)
        lhs = ("(node_table {n} {s} {t}, (map (fun r => (fst r, fst (snd r))) (leaf_table {n} {s} {t}), "
               "(total_flops {n} {s} {t}, (total_write {n} {s} {t}, (max_size {n} {s} {t}, "
               "(peak_size_dfs {n} {s} {t}, multiplicity {n} {s}))))))").format(n=netl, s=sll, t=tl)
        rhs = coq((rows, leafrows, Z(stats["flops"]), Z(stats["write"]), Z(stats["size"]), Z(peak), Z(mult)))
        cases.append(("case%d" % ci, lhs, rhs))
        # peak for an arbitrary (random callable) traversal order: model fold vs implementation
        oscore = {}
        ofn = lambda nd: oscore.setdefault(nd, rng.random())
        olit = "[" + "; ".join("(%s, %s)" % ("true" if len(p_) == tree.N else "false",
                                              tree_lit(gen.tree_nested(tree, p_)))
                                for p_, _, _ in tree.traverse(ofn)) + "]"
        cases.append(("peakorder%d" % ci, "peak_size_order %s %s %s %s" % (netl, sll, tl, olit),
                      coq(Z(tree.peak_size(ofn)))))
        records.append({"inputs": inputs, "output": output, "size_dict": size_dict, "path": path, "removed": sl,
                        "note": "peak under a random traversal order"})
        rec = {"inputs": inputs, "output": output, "size_dict": size_dict, "path": path, "removed": sl}
        if big:
            rec["size_dict_type"] = "numpy." + big
            if spec_flops_beyond(rows):
                ctx.count("cost_beyond_2**63")
        records.insert(len(records) - 1, rec)
        ctx.case((inputs, output, tuple(sorted(size_dict.items())), path, tuple(sl)),
                 nontrivial=len(inputs) >= 3 and bool(feats & {"hyper", "repeat", "out_shared", "leaf_only"} or sl),
                 sample=rec if ci < 3 else None)

        # ---- oracle: definitions recomputed from the network alone ----------
        removed = [ix for ix, _ in sl]
        projected = [ix for ix, v in sl if v is not None]
        spec = oracle.spec_costs(inputs, output, size_dict, nested, removed, projected)
        bad = None
        if (spec["flops"], spec["write"], spec["size"]) != (stats["flops"], stats["write"], stats["size"]):
            bad = "totals differ: impl %r spec %r" % (stats, {k: spec[k] for k in ("flops", "write", "size")})
        for (S, surv, inv, size, flops) in spec["rows"]:
            if set(tree.get_legs(S)) != surv or tree.get_size(S) != size or tree.get_flops(S) != flops \
                    or set(tree.get_involved(S)) != inv:
                bad = "node %s: impl legs %r size %r flops %r, spec %r %r %r" % (
                    sorted(S), tree.get_legs(S), tree.get_size(S), tree.get_flops(S), sorted(surv), size, flops)
        # peak for a second, non-default order, recomputed independently
        order_scores = {nd: rng.random() for nd in tree.info}
        for order in (None, lambda nd: order_scores[nd]):
            pk = spec_peak(tree, inputs, output, size_dict, removed, spec["rows"], order)
            if tree.peak_size(order) != pk:
                bad = "peak differs: impl %r spec %r" % (tree.peak_size(order), pk)
        # ---- shapes actually produced while contracting ---------------------
        if ci % 3 == 0 and not bad and not big:
            seen = []

            def rec_einsum(eq, *xs):
                y = np.einsum(eq, *xs)
                seen.append(int(np.prod(y.shape, dtype=object)) if y.shape else 1)
                return y

            def rec_tdot(a, b, axes):
                y = np.tensordot(a, b, axes)
                seen.append(int(np.prod(y.shape, dtype=object)) if y.shape else 1)
                return y

            arrays = gen.rand_arrays(rng, inputs, size_dict)
            if tree.sliced_inds:
                arrays = tree.slice_arrays(arrays, 0)
            try:
                tree.contract_core(arrays, implementation=(rec_einsum, rec_tdot),
                                   prefer_einsum=rng.random() < 0.5)
                npre = len(tree.preprocessing)
                steps = seen[npre:]
                want = [tree.get_size(p) for p, _, _ in tree.traverse()]
                if steps != want:
                    bad = "intermediate shapes %r differ from reported sizes %r" % (steps, want)
                ctx.count("shape_runs")
            except Exception as e:
                bad = "contract_core raised %r" % (e,)
        # ---- a tree and the copies made from it report independently --------------------
        if not bad and ci % 2 == 1:
            try:
                present = sorted({ix for t in inputs for ix in t})
                cand = [ix for ix in present if ix not in tree.sliced_inds]
                if tree.sliced_inds and (not cand or rng.random() < 0.4):
                    ix2 = rng.choice(list(tree.sliced_inds))
                    t2 = tree.restore_ind(ix2)
                    rem2 = [(a, b) for a, b in sl if a != ix2]
                    ctx.count("copy_unslice")
                elif cand:
                    ix2 = rng.choice(cand)
                    t2 = tree.remove_ind(ix2)
                    rem2 = sl + [(ix2, None)]
                    ctx.count("copy_slice")
                else:
                    t2 = None
                if t2 is not None:
                    for tt, rem in ((t2, rem2), (tree, sl)):
                        sp = oracle.spec_costs(inputs, output, size_dict, gen.tree_nested(tt), [a for a, _ in rem],
                                               [a for a, b in rem if b is not None])
                        st = tt.contract_stats()
                        pk2 = spec_peak(tt, inputs, output, size_dict, [a for a, _ in rem], sp["rows"])
                        if tt.peak_size() != pk2:
                            bad = "after a non-inplace change of a copy, %s reports peak %r but the definition gives %r" % (
                                "the copy" if tt is t2 else "the original", tt.peak_size(), pk2)
                            rec = dict(rec, then=("restore_ind" if len(rem2) < len(sl) else "remove_ind", ix2))
                        if (sp["flops"], sp["write"], sp["size"]) != (st["flops"], st["write"], st["size"]) \
                                or tt.max_size() != sp["size"]:
                            bad = "after a non-inplace change of a copy, %s reports %r (max_size %r) but the definition gives %r" % (
                                "the copy" if tt is t2 else "the original", st, tt.max_size(),
                                {k: sp[k] for k in ("flops", "write", "size")})
                            rec = dict(rec, then=("restore_ind" if len(rem2) < len(sl) else "remove_ind", ix2))
            except Exception as e:
                bad = "non-inplace remove/restore raised %r" % (e,)
        if bad:
            ctx.fail(bad, rec)

    if not ctx.coverage["features"].get("cost_beyond_2**63"):
        ctx.fail("generator floor: no case with numpy-integer dimensions reached a step cost of 2**63",
                 {"generator": "make_case(big=...)"}, found_input=False)
    failing = ctx.coq_cases("c03", ["Net"], cases)
    for idx, label, val in failing:
        rec = dict(records[idx]) if idx < len(records) else {}
        rec["model_value"] = val
        rec["correspondence"] = "Model/Net.v node_table/leaf_table/totals vs ContractionTree getters"
        # the oracle above already judged this very case against the property text:
        # if it passed there, no failing input is known
        ctx.fail("model and implementation disagree on the cost tables", rec, found_input=False)
    ctx.coverage["rule"] = ("random networks (2..7/9 tensors, hyper/repeated/scalar/disconnected/size-1 features), "
                            "uniform random linear paths, random ordered subsets of removed (sliced or projected) "
                            "indices; non-trivial = >=3 tensors and (a perverse feature or a removed index); "
                            "distinct by (network, path, removed)")
    ctx.assumptions = ["numpy kernels are not part of this property",
                       "correspondence is executed, not proved (hand-written model)"]


if __name__ == "__main__":
    main(PROP, run)

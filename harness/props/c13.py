"""C13 -- in-memory caching is invisible: cached and uncached calls give the same answers.

Steps of the check:
  0. translator: harness/translators/cachekey.py re-reads <repo>/cotengra/interface.py and
     rewrites coq/Gen/CacheKey.v (fail-closed: "untranslatable" = broken correspondence);
  1. Coq build of Props/C13.vo (which depends on the regenerated file), lint, Print Assumptions;
  2. correspondence: generated call sequences against the real caches -- per call hit / miss /
     TypeError, which earlier call produced the returned object, the dict keys (the actual
     CPython hashes) at the end, the normalised arguments handed to the cached computation,
     the per-class dispatch tables -- compared with the model evaluated inside Coq;
  3. oracle: pools of contractions that differ in exactly one key component; all orders of
     short call sequences; every value is compared with a dense brute-force einsum on
     integer arrays, with caching on and off, in-process and in fresh interpreters;
  4. probes of the known findings (every run).
"""
import ast
import itertools
import os
import subprocess
import sys
import warnings

HERE = os.path.dirname(os.path.abspath(__file__))
HARNESS = os.path.dirname(HERE)
if HARNESS not in sys.path:
    sys.path.insert(0, HARNESS)

PROP = "C13"
KEY_COLLISION = "cache-key-hash-collision"
KEY_UNHASHABLE = "path-cache-unhashable-typeerror"


# =====================================================================================
# the module-level tables of cotengra.interface are looked up by the names the translator discovered
# (run() fills TABLE_NAMES); when the translator refused the source, or a name is missing, the module
# globals are scanned.  A missing attribute never stops the oracle.
TABLE_NAMES = {"path": None, "expr": None}


def _is_table_name(name):
    n = name.lower()
    return "cache" in n or "handler" in n or "preparer" in n


def all_tables(I):
    """every module-level dict of cotengra.interface that is a cache / per-class handler table
    (NOT the preset registries)"""
    return {k: v for k, v in vars(I).items() if isinstance(v, dict) and _is_table_name(k)}


def clear_tables(I):
    for v in all_tables(I).values():
        v.clear()


def cache_table(I, kind):
    """the dict behind array_contract_path (kind='path') / array_contract_expression (kind='expr'), or None"""
    nm = TABLE_NAMES.get(kind)
    d = getattr(I, nm, None) if nm else None
    if isinstance(d, dict):
        return d
    cands = {k: v for k, v in vars(I).items() if isinstance(v, dict) and "cache" in k.lower()}
    pref = [v for k, v in cands.items() if ("path" if kind == "path" else "expr") in k.lower()]
    if len(pref) == 1:
        return pref[0]
    if len(cands) == 1:
        return next(iter(cands.values()))
    return None


def _len(d):
    return len(d) if d is not None else -1


# =====================================================================================
# worker: executes one call sequence against the real cotengra (in-process or in a fresh
# interpreter).  Specs and results are plain Python literals.
class _MutablePathOptimizer:
    """an optimizer object whose answer is an attribute that the caller may change between calls"""

    def __init__(self, path):
        self.path = path

    def __call__(self, inputs, output, size_dict, **kw):
        return tuple(self.path)


def _shared(x, spec, ctg, shared):
    """optimize objects that live for the whole call sequence and are modified IN PLACE between calls"""
    if x not in shared:
        if x == "@shared_tree":
            shared[x] = ctg.ContractionTree.from_path(spec["inputs"], spec["output"], _size_dict_of(spec),
                                                      path=spec["tree_path"])
        elif x == "@shared_list":
            shared[x] = [tuple(st) for st in spec["tree_path"]]
        elif x == "@shared_optimizer":
            shared[x] = _MutablePathOptimizer(tuple(tuple(st) for st in spec["tree_path"]))
    return shared[x]


def _mutate(obj, op):
    """one in-place modification of a shared optimize object"""
    name, _, arg = op.partition(":")
    if name == "subtree_reconfigure":
        obj.subtree_reconfigure_()
    elif name == "remove_ind":
        obj.remove_ind_(arg)
    elif name == "remove_ind_project":
        ix, _, v = arg.partition(":")
        obj.remove_ind_(ix, project=int(v))
    elif name == "restore_ind":
        obj.restore_ind_(arg)
    elif name == "sort_contraction_indices":
        obj.sort_contraction_indices()
    elif name == "set_path":
        new = [tuple(int(i) for i in st.split("-")) for st in arg.split(",")]
        if isinstance(obj, list):
            obj[:] = new
        else:
            obj.path = tuple(new)
    else:
        raise ValueError(op)


def _current_path(obj):
    if isinstance(obj, list):
        return tuple(tuple(st) for st in obj)
    if isinstance(obj, _MutablePathOptimizer):
        return tuple(tuple(st) for st in obj.path)
    return tuple(tuple(int(i) for i in st) for st in obj.get_path())


def _resolve(x, spec, ctg, np, shared=None):
    if isinstance(x, str) and x.startswith("@shared_"):
        return _shared(x, spec, ctg, shared)
    if isinstance(x, str) and x.startswith("@"):
        if x == "@plus1":
            return (_ident, _plus1)
        if x == "@plus1_list":
            return [_ident, _plus1]
        if x == "@impl_tuple":
            return (_einsum_f64, _tensordot_f64)
        if x == "@impl_list":
            return [_einsum_f64, _tensordot_f64]
        if x == "@pathfn":
            return _pathfn
        if x == "@pathobj":
            return _PathObj()
        if x == "@tree":
            sd = _size_dict_of(spec)
            return ctg.ContractionTree.from_path(spec["inputs"], spec["output"], sd,
                                                 path=_default_path(len(spec["inputs"])))
        raise ValueError(x)
    return x


def _ident(x):
    return x


def _plus1(x):
    return x + 1


def _einsum_f64(eq, *xs):
    """a user-supplied einsum whose use is observable: the result is float64"""
    import numpy as np
    return np.einsum(eq, *xs).astype(np.float64)


def _tensordot_f64(a, b, axes):
    import numpy as np
    return np.tensordot(a, b, axes).astype(np.float64)


def _default_path(n):
    return tuple((0, 1) for _ in range(n - 1))


def _pathfn(inputs, output, size_dict, **kw):
    return _default_path(len(inputs))


class _PathObj:
    """an optimizer object without .search"""

    def __call__(self, inputs, output, size_dict, **kw):
        return _default_path(len(inputs))


def _size_dict_of(spec):
    if spec.get("size_dict") is not None:
        return dict(spec["size_dict"])
    sd = {}
    for t, s in zip(spec["inputs"], spec["shapes"]):
        for ix, d in zip(t, s):
            sd[ix] = d
    return sd


def _is_lazy(v):
    return type(v).__module__.startswith("autoray.lazy")


def _materialise(v):
    """a lazy array with concrete leaves -> its value; with symbolic Variables -> None"""
    if _is_lazy(v):
        try:
            m = v.compute()
        except Exception:
            return None
        return None if _is_lazy(m) else m
    return v


def _kind1(v, np):
    if _is_lazy(v):
        return "lazy"
    if isinstance(v, (np.ndarray, np.generic)):
        return "numpy"
    if isinstance(v, (int, float, complex)):
        return "pyscalar"
    return "%s.%s" % (type(v).__module__, type(v).__name__)


def _desc(v, np):
    """(kind, dtype, shape) of a result as the caller sees it (before any materialisation)"""
    pre = ""
    if isinstance(v, tuple):
        pre, v = "strip:", v[0]
    try:
        shape = tuple(int(d) for d in getattr(v, "shape", ()))
    except Exception:
        shape = None
    m = _materialise(v)
    if m is None:
        dt = "symbolic"
    else:
        dt = str(np.asarray(m).dtype)
    return (pre + _kind1(v, np), pre + dt, shape)


def _dtype(v, np):
    return _desc(v, np)[1]


def _tolist(v, np):
    if isinstance(v, tuple):
        m, e = _materialise(v[0]), _materialise(v[1])
        if m is None or e is None:
            return "symbolic"
        mm = _plain(np.asarray(m), np)
        if isinstance(mm, str):
            return mm
        try:
            return ("strip", mm, float(e))
        except Exception:
            return "strip with a non-numeric exponent %s" % type(e).__name__
    m = _materialise(v)
    if m is None:
        return "symbolic"
    return _plain(np.asarray(m), np)


def _plain(a, np):
    """numbers only; anything else (e.g. an object array of unevaluated symbolic nodes) is described"""
    if a.dtype == object:
        kinds = sorted({type(x).__name__ for x in a.ravel().tolist()})
        if any(k not in ("int", "float") for k in kinds):
            return "object-array of %s, shape %r" % ("/".join(kinds), tuple(a.shape))
    return a.tolist()


def _bk(arrays, backend):
    """present the integer arrays to cotengra through another array library"""
    if backend in (None, "numpy"):
        return list(arrays)
    import autoray as ar
    if backend == "lazy":
        return [ar.lazy.array(x) for x in arrays]
    if backend == "lazyvar":
        return [ar.lazy.Variable(tuple(x.shape), backend="numpy") for x in arrays]
    raise ValueError(backend)


def _aslists(x):
    return [list(t) for t in x]


def exec_sequence(specs, clear=True):
    import numpy as np
    import cotengra as ctg
    from cotengra import interface as I
    warnings.simplefilter("ignore")
    if clear:
        clear_tables(I)
    counts = {"_build_expression": 0, "find_path": 0}
    orig = {}

    def wrap(name):
        f = getattr(I, name, None)
        if f is None:
            return
        orig[name] = f

        def g(*a, **k):
            counts[name] += 1
            return f(*a, **k)
        setattr(I, name, g)
    wrap("_build_expression")
    wrap("find_path")
    objs = []
    shared = {}
    out = []
    try:
        for spec in specs:
            res = {"exc": None}
            c0 = dict(counts)
            try:
                api = spec["api"]
                arrays = [np.array(a, dtype=np.int64) for a in spec.get("arrays", [])]
                arrays2 = [np.array(a, dtype=np.int64) for a in spec.get("arrays2", [])]
                kwargs = {k: _resolve(v, spec, ctg, np) for k, v in spec.get("kwargs", {}).items()}
                opt = _resolve(spec.get("optimize", "auto"), spec, ctg, np, shared)
                if isinstance(spec.get("optimize"), str) and spec["optimize"].startswith("@shared_"):
                    for op in spec.get("mutate", ()):
                        _mutate(opt, op)
                    res["shared_path"] = _current_path(opt)
                cache = spec.get("cache", True)
                bk1 = spec.get("backend", "numpy")
                bk2 = spec.get("backend2", bk1)
                inputs, output = spec.get("inputs"), spec.get("output")
                if spec.get("lists"):
                    inputs = _aslists(inputs)
                    output = list(output) if output is not None else None
                ck = {}
                if spec.get("canonicalize") is not None:
                    ck["canonicalize"] = spec["canonicalize"]
                sizes = {}
                if spec.get("size_dict") is not None:
                    sizes["size_dict"] = dict(spec["size_dict"])
                elif spec.get("shapes") is not None:
                    sizes["shapes"] = spec["shapes"]
                if api == "array_contract":
                    v = ctg.array_contract(_bk(arrays, bk1), inputs, output, optimize=opt, cache_expression=cache,
                                           **ck, **kwargs)
                    res["value"] = _tolist(v, np)
                    res["dtype"] = _dtype(v, np)
                    res["desc"] = [_desc(v, np)]
                elif api == "ncon":
                    v = ctg.ncon(arrays, inputs, optimize=opt, cache_expression=cache, **ck, **kwargs)
                    res["value"] = _tolist(v, np)
                elif api == "einsum":
                    v = ctg.einsum(spec["eq"], *_bk(arrays, bk1), optimize=opt, cache_expression=cache, **kwargs)
                    res["value"] = _tolist(v, np)
                    res["dtype"] = _dtype(v, np)
                    res["desc"] = [_desc(v, np)]
                elif api in ("expr", "einsum_expr"):
                    if api == "expr":
                        e = ctg.array_contract_expression(inputs, output, optimize=opt, cache=cache, **sizes, **ck, **kwargs)
                        call_arrays, call_arrays2 = arrays, arrays2
                    else:
                        consts = spec.get("constants")
                        shp = [arrays[i] if (consts and i in consts) else spec["shapes"][i]
                               for i in range(len(spec["shapes"]))]
                        e = ctg.einsum_expression(spec["eq"], *shp, optimize=opt, cache=cache,
                                                  constants=consts, **kwargs)
                        keep = [i for i in range(len(arrays)) if not (consts and i in consts)]
                        call_arrays = [arrays[i] for i in keep]
                        call_arrays2 = [arrays2[i] for i in keep] if arrays2 else []
                    if not callable(e):
                        raise TypeError("an expression was requested, a %s was returned: %.80r" % (type(e).__name__, e))
                    idx = next((i for i, o in enumerate(objs) if o is e), None)
                    if idx is None:
                        objs.append(e)
                        idx = len(objs) - 1
                    res["obj"] = idx
                    # snapshot of the object's state before / after calling it (frame hypothesis)
                    snap0 = _snapshot(e)
                    v = e(*_bk(call_arrays, bk1))
                    res["value"] = _tolist(v, np)
                    res["dtype"] = _dtype(v, np)
                    res["desc"] = [_desc(v, np)]
                    if call_arrays2:
                        v2 = e(*_bk(call_arrays2, bk2))
                        v3 = e(*_bk(call_arrays, bk1))
                        res["value2"] = _tolist(v2, np)
                        res["value3"] = _tolist(v3, np)
                        res["desc"] += [_desc(v2, np), _desc(v3, np)]
                    snap1 = _snapshot(e)
                    res["frame"] = (snap0 is None) or _snap_same(snap0, snap1)
                    res["kind"] = type(e).__name__
                elif api == "path":
                    p = ctg.array_contract_path(inputs, output, optimize=opt, cache=cache, **sizes, **ck)
                    if callable(p) or not isinstance(p, (list, tuple)):
                        raise TypeError("a path was requested, a %s was returned" % type(p).__name__)
                    res["path"] = tuple(tuple(int(i) for i in st) for st in p)
                elif api == "tree_struct":
                    # the tree only (ContractionTree cannot contract multi-character labels kept as given:
                    # its einsum equations join the labels -- with and without any cache)
                    t = ctg.array_contract_tree(inputs, output, optimize=opt, **sizes, **ck)
                    res["path"] = tuple(tuple(int(i) for i in st) for st in t.get_path())
                    res["tree_inputs"] = tuple(tuple(x) for x in t.inputs)
                    res["tree_output"] = tuple(t.output)
                elif api == "tree":
                    t = ctg.array_contract_tree(inputs, output, optimize=opt, **sizes, **ck,
                                                **{k: v for k, v in kwargs.items() if k == "sort_contraction_indices"})
                    res["value"] = _tolist(t.contract(arrays), np)
                else:
                    raise ValueError(api)
            except Exception as ex:  # noqa
                res["exc"] = "%s: %s" % (type(ex).__name__, str(ex)[:200])
            res["nbuild"] = counts["_build_expression"] - c0["_build_expression"]
            res["nfind"] = counts["find_path"] - c0["find_path"]
            res["nkeys"] = (_len(cache_table(I, "expr")), _len(cache_table(I, "path")))
            out.append(res)
    finally:
        for name, f in orig.items():
            setattr(I, name, f)
    return out


def _freeze(v):
    """a comparable picture of a slot value (containers by content, so an in-place update shows)"""
    if isinstance(v, dict):
        return ("dict", tuple(sorted((repr(k), _freeze(x)) for k, x in v.items())))
    if isinstance(v, (list, set)):
        return (type(v).__name__, tuple(_freeze(x) for x in (sorted(v, key=repr) if isinstance(v, set) else v)))
    if isinstance(v, (tuple, frozenset, str, int, float, bool, type(None))):
        return ("val", v)
    return ("obj", id(v))


def _snapshot(e):
    """the state of an expression object that a call could write to: EVERY slot / instance attribute"""
    tn = type(e).__name__
    if tn == "Contractor":
        names = []
        for k in type(e).__mro__:
            for sl in getattr(k, "__slots__", ()):
                if sl != "__weakref__" and sl not in names:
                    names.append(sl)
        names += [a for a in getattr(e, "__dict__", {}) if a not in names]
        return ("Contractor", tuple((n, _freeze(getattr(e, n, "<unset>"))) for n in names))
    if tn == "function" and e.__closure__ is not None:
        return ("function", tuple(_freeze(c.cell_contents) for c in e.__closure__))
    return None          # autojit / Via / Variadic wrappers: judged by the values only


def _snap_same(a, b):
    return a == b


def worker_main():
    specs = ast.literal_eval(sys.stdin.read())
    res = exec_sequence(specs, clear=False)      # a fresh interpreter: nothing to clear, by construction
    sys.stdout.write("RESULT " + repr(res) + "\n")


# =====================================================================================
# expected values (independent of cotengra)
def eq_to_terms(eq):
    lhs, _, rhs = eq.partition("->")
    inputs = tuple(tuple(t) for t in lhs.split(","))
    if "->" in eq:
        output = tuple(rhs)
    else:
        flat = [c for t in inputs for c in t]
        output = tuple(sorted(c for c in set(flat) if flat.count(c) == 1))
    return inputs, output


def implicit_output(inputs):
    flat = [ix for t in inputs for ix in t]
    seen = []
    for ix in flat:
        if not any(ix == s for s in seen):
            seen.append(ix)
    return tuple(ix for ix in seen if sum(1 for j in flat if j == ix) == 1)


def expected_value(spec, arrays, oracle, np):
    if spec["api"] in ("einsum", "einsum_expr") and "..." in spec["eq"]:
        # ellipsis broadcasting: numpy.einsum on int64 is the (exact) reference
        return np.asarray(np.einsum(spec["eq"], *[np.asarray(a) for a in arrays])).astype(object)
    if spec["api"] in ("einsum", "einsum_expr"):
        inputs, output = eq_to_terms(spec["eq"])
    elif spec["api"] == "ncon":
        inputs = spec["inputs"]
        output = tuple(sorted({ix for t in inputs for ix in t if ix < 0}, reverse=True))
    else:
        inputs = spec["inputs"]
        output = spec["output"] if spec["output"] is not None else implicit_output(inputs)
    sd = {}
    for t, a in zip(inputs, arrays):
        a = np.asarray(a)
        for ix, d in zip(t, a.shape):
            sd[ix] = d
    via = spec.get("kwargs", {}).get("via")
    fixed = dict(spec.get("fixed") or {})
    res = oracle.dense_einsum(inputs, output, sd, [np.asarray(a) for a in arrays], fixed=fixed)
    ref = oracle.dense_to_nested(res, output, sd, fixed=tuple(fixed))
    if via in ("@plus1", "@plus1_list"):
        ref = ref + 1
    return ref


def path_cost(inputs, output, sizes, path):
    """flops of a linear path under `sizes`: per pairwise step the product of the sizes of all indices
    involved (independent of cotengra)"""
    terms = [tuple(t) for t in inputs]
    total = 0
    for step in path:
        step = sorted(step, reverse=True)
        picked = [terms.pop(i) for i in step]
        involved = []
        for t in picked:
            for ix in t:
                if ix not in involved:
                    involved.append(ix)
        c = 1
        for ix in involved:
            c *= sizes[ix]
        total += c
        keep = [ix for ix in involved if ix in output or any(ix in t for t in terms)]
        terms.append(tuple(keep))
    return total


def best_path_cost(inputs, output, sizes):
    """brute force over all linear pairwise paths (small n only)"""
    n = len(inputs)
    best = [None]

    def rec(m, path):
        if m == 1:
            c = path_cost(inputs, output, sizes, path)
            if best[0] is None or c < best[0]:
                best[0] = c
            return
        for i in range(m):
            for j in range(i + 1, m):
                rec(m - 1, path + [(i, j)])
    rec(n, [])
    return best[0]


def _same_value(a, b, np):
    """the same call with caching on and off: identical integer results, strip_exponent pairs to 1e-9"""
    if isinstance(a, tuple) and a and a[0] == "strip":
        if not (isinstance(b, tuple) and b and b[0] == "strip"):
            return False
        x = np.asarray(a[1], dtype=float) * 10.0 ** a[2]
        y = np.asarray(b[1], dtype=float) * 10.0 ** b[2]
        return x.shape == y.shape and bool(np.allclose(x, y, rtol=1e-9, atol=0))
    return a == b


def value_matches(val, ref, oracle, np):
    if val == "symbolic":          # traced with lazy Variables: there is no value; the shape is judged
        return True
    if isinstance(val, str):        # not numbers at all
        return False
    if isinstance(val, tuple) and val and val[0] == "strip":
        m = np.asarray(val[1], dtype=float) * 10.0 ** val[2]
        r = np.asarray(ref.astype(float)) if hasattr(ref, "astype") else np.asarray(ref, dtype=float)
        return m.shape == r.shape and bool(np.allclose(m, r, rtol=1e-9, atol=0))
    return oracle.arrays_equal_exact(np.asarray(val), ref)


# =====================================================================================
# pools: members differ in exactly one component of the cache key
def mk(api, inputs=None, output=None, shapes=None, **kw):
    d = {"api": api, "inputs": inputs, "output": output, "shapes": shapes}
    d.update(kw)
    return d


B2 = dict(inputs=(("a", "b"), ("b", "c")), output=("a", "c"), shapes=((2, 3), (3, 4)))
B3 = dict(inputs=(("a", "b"), ("b", "c"), ("c", "d")), output=("a", "d"), shapes=((2, 3), (3, 4), (4, 3)))


def var(base, **ch):
    d = dict(base)
    d.update(ch)
    return d


def pools():
    """-> {pool name: (list of member dicts (without api / arrays), apis, tags)}"""
    P = {}
    P["output-order"] = ([var(B2), var(B2, output=("c", "a")), var(B2, output=("a",)), var(B2, output=("a", "b", "c")),
                          var(B2, output=None)],
                         ["expr", "array_contract", "path", "tree"])
    P["one-size"] = ([var(B2), var(B2, shapes=((2, 3), (3, 2))), var(B2, shapes=((3, 3), (3, 4))),
                      var(B2, shapes=((2, 1), (1, 4)))],
                     ["expr", "array_contract", "path"])
    P["optimize"] = ([var(B3, optimize="auto"), var(B3, optimize="greedy"), var(B3, optimize="optimal"),
                      var(B3, optimize=((0, 1), (0, 1))), var(B3, optimize=((1, 2), (0, 1))),
                      var(B3, optimize=[(0, 1), (0, 1)]), var(B3, optimize=[(0, 2), (0, 1)]),
                      var(B3, optimize=("b", "c")), var(B3, optimize=("c", "b")), var(B3, optimize=["c", "b"]),
                      var(B3, optimize="@pathfn"), var(B3, optimize="@pathobj"), var(B3, optimize="@tree")],
                     ["expr", "array_contract", "path", "tree"])
    kws = [{}, {"strip_exponent": True}, {"strip_exponent": False}, {"implementation": "cotengra"},
           {"implementation": "autoray"}, {"prefer_einsum": True}, {"autojit": True}, {"via": "@plus1"},
           {"sort_contraction_indices": True}, {"prefer_einsum": True, "strip_exponent": True},
           {"implementation": None}]
    P["kwargs"] = ([var(B3, kwargs=k) for k in kws], ["expr", "array_contract"])
    # option values that cannot be hashed (a list / dict where a tuple / bool is usual), next to the same
    # contraction without the option and with the hashable form: the cached machine must fall back to the
    # uncached behaviour (or key correctly), in every order
    # (implementation=[..] / prefer_einsum=[..] are not members: ContractionTree.get_contractor keys
    #  tree.contraction_cores on them, so they raise TypeError with and without the interface cache)
    ukws = [{}, {"via": "@plus1"}, {"via": "@plus1_list"}, {"implementation": "@impl_tuple"},
            {"sort_contraction_indices": {"x": 1}}, {"sort_contraction_indices": [1]},
            {"via": "@plus1_list", "implementation": "@impl_tuple"},
            {"via": "@plus1_list", "prefer_einsum": True}, {"prefer_einsum": True}]
    P["unhashable-kwargs"] = ([var(B3, kwargs=k) for k in ukws], ["expr", "array_contract"])
    P["unhashable-kwargs-einsum"] = ([dict(eq="ab,bc->ca", shapes=B2["shapes"], kwargs=k) for k in ukws],
                                     ["einsum", "einsum_expr"])
    # the same contraction and the same hashable `optimize` requested as a PATH (array_contract_path, no
    # kwargs -> frozenset()) and as an OPTION-FREE EXPRESSION (array_contract_expression / einsum_expression
    # without any kwarg -> the very same key): the two caches must be separate maps
    pe = []
    for base, eq in ((B3, "ab,bc,cd->ad"), (dict(inputs=B2["inputs"], output=("c", "a"), shapes=B2["shapes"]), "ab,bc->ca")):
        n = len(base["inputs"])
        opts = ["auto", "greedy", "optimal", _default_path(n), list(_default_path(n)), ("b",) if n == 2 else ("b", "c")]
        if n == 3:
            opts += [((1, 2), (0, 1)), [(0, 2), (0, 1)]]
        for o in opts:
            pe.append(var(base, eq=eq, optimize=o))
    explicit = []
    for m in range(len(pe)):
        for a, b in (("path", "expr"), ("path", "einsum_expr")):
            explicit += [[(m, a), (m, b)], [(m, b), (m, a)], [(m, a), (m, b), (m, a)], [(m, b), (m, a), (m, b)]]
        explicit += [[(m, "path"), (m, "array_contract"), (m, "expr"), (m, "path")],
                     [(m, "einsum"), (m, "path"), (m, "einsum_expr")]]
        m2 = (m + 1) % len(pe)
        explicit += [[(m, "path"), (m2, "expr"), (m, "expr"), (m2, "path")]]
    P["path-vs-expr"] = (pe, ["path", "expr", "einsum_expr", "array_contract", "einsum"], explicit)
    # multi-character string labels kept as given (canonicalize=False): members come in pairs whose terms
    # (and outputs) CONCATENATE to the same strings -- ('a','b','ab') vs ('ab','a','b') -> "abab";
    # ('a','bc') vs ('ab','c') -> "abc" -- with the identical explicit size_dict (same item order): a key
    # built from joined strings instead of the nested tuples cannot tell them apart
    sd1 = (("a", 2), ("b", 3), ("ab", 4), ("c", 2), ("d", 3))
    sd2 = (("a", 2), ("bc", 3), ("ab", 2), ("c", 3), ("b", 3), ("ca", 2))
    mc = [dict(inputs=(("a", "b", "ab"), ("ab", "c"), ("c", "d")), output=("a", "b", "d"),
               shapes=((2, 3, 4), (4, 2), (2, 3)), size_dict=sd1),
          dict(inputs=(("ab", "a", "b"), ("ab", "c"), ("c", "d")), output=("a", "b", "d"),
               shapes=((4, 2, 3), (4, 2), (2, 3)), size_dict=sd1),
          dict(inputs=(("a", "bc"), ("bc", "a")), output=(), shapes=((2, 3), (3, 2)), size_dict=sd2),
          dict(inputs=(("ab", "c"), ("b", "ca")), output=(), shapes=((2, 3), (3, 2)), size_dict=sd2),
          dict(inputs=(("a", "b", "ab"), ("c",)), output=("a", "b", "c"), shapes=((2, 3, 4), (2,)), size_dict=sd1),
          dict(inputs=(("a", "b", "ab"), ("c",)), output=("ab", "c"), shapes=((2, 3, 4), (2,)), size_dict=sd1)]
    mc = [var(m, canonicalize=False, optimize=o) for m in mc for o in ("auto", "greedy")]
    mexp = []
    for i in range(0, len(mc), 4):          # members i..i+3: pair (i, i+2) 'auto', (i+1, i+3) 'greedy'
        for a, b in ((i, i + 2), (i + 1, i + 3)):
            for api in ("expr", "path", "tree_struct", "array_contract"):
                mexp += [[(a, api), (b, api)], [(b, api), (a, api)]]
            mexp += [[(a, "expr"), (b, "expr"), (a, "expr")], [(a, "path"), (b, "expr"), (a, "tree_struct"), (b, "path")],
                     [(b, "tree_struct"), (a, "expr"), (b, "expr")]]
    P["multichar-labels"] = (mc, ["expr", "path", "tree_struct", "array_contract"], mexp)
    # ONE cache key, several array libraries: numpy arrays, autoray lazy arrays (computed afterwards) and
    # autoray lazy Variables (symbolic tracing: type and shape only).  The key does not contain the
    # backend, so the cached expression is shared: it must behave as a fresh one for every library.
    bm = []
    groups = []
    for base, eq in ((B3, "ab,bc,cd->ad"), (dict(inputs=B2["inputs"], output=("c", "a"), shapes=B2["shapes"]), "ab,bc->ca")):
        for kw in ({}, {"prefer_einsum": True}, {"implementation": "autoray"}, {"strip_exponent": True}):
            g = {}
            for bk, bk2 in (("numpy", "lazy"), ("lazy", "numpy"), ("lazyvar", "numpy")):
                g[bk] = len(bm)
                bm.append(var(base, eq=eq, kwargs=kw, backend=bk, backend2=bk2))
            groups.append(g)
    bexp = []
    for g in groups:
        n, l, v = g["numpy"], g["lazy"], g["lazyvar"]
        for api in ("einsum", "array_contract", "expr", "einsum_expr"):
            for sq in ([v, n], [l, n], [n, l], [n, v], [n, l, n], [l, n, l], [v, n, v, l]):
                bexp.append([(m, api) for m in sq])
        bexp += [[(v, "einsum"), (n, "einsum_expr")], [(l, "expr"), (n, "array_contract")],
                 [(v, "array_contract"), (n, "einsum"), (l, "einsum")]]
    P["backend-mix"] = (bm, ["einsum", "array_contract", "expr", "einsum_expr"], bexp)
    # the association index -> size: explicit size_dicts that list the same sizes in the same POSITION for
    # different indices (permuted key order with permuted values), and equal dicts in different key order
    # (which must be indistinguishable), through every cached entry point that takes a size_dict
    def _sd(*kv):
        return tuple(kv)
    sds = {"s1": _sd(("a", 2), ("b", 9), ("c", 3), ("d", 8)),          # values (2, 9, 3, 8)
           "s2": _sd(("b", 2), ("a", 9), ("d", 3), ("c", 8)),          # values (2, 9, 3, 8), other binding
           "s1r": _sd(("d", 8), ("c", 3), ("b", 9), ("a", 2)),         # == s1 as a dict
           "s2r": _sd(("a", 9), ("b", 2), ("c", 8), ("d", 3)),         # == s2 as a dict; values (9, 2, 8, 3)
           "s4": _sd(("b", 9), ("a", 2), ("d", 8), ("c", 3))}          # == s1 as a dict; values (9, 2, 8, 3)
    sb, sbx = [], []
    for canon in (True, False):
        for o in ("optimal", "greedy", "auto", ((0, 1), (0, 1))):
            ix = {}
            for nm, sd in sds.items():
                d = dict(sd)
                ix[nm] = len(sb)
                sb.append(dict(inputs=B3["inputs"], output=B3["output"], size_dict=sd, optimize=o, canonicalize=canon,
                               shapes=tuple(tuple(d[i] for i in t) for t in B3["inputs"]), judge_cost=True))
            for x, y in (("s1", "s2"), ("s2r", "s4"), ("s1", "s1r"), ("s2", "s2r"), ("s1r", "s2r")):
                for api in ("path", "expr", "tree_struct"):
                    sbx += [[(ix[x], api), (ix[y], api)], [(ix[y], api), (ix[x], api)]]
            sbx += [[(ix["s1"], "path"), (ix["s2"], "path"), (ix["s1"], "path")],
                    [(ix["s1"], "expr"), (ix["s2"], "expr"), (ix["s1r"], "expr")],
                    [(ix["s2"], "tree_struct"), (ix["s1"], "path"), (ix["s2"], "expr"), (ix["s2"], "path")]]
    P["size-binding"] = (sb, ["path", "expr", "tree_struct"], sbx)
    # `optimize` is ONE mutable object reused across the calls of a sequence and modified in place in between:
    # a ContractionTree (subtree_reconfigure_, remove_ind_ with and without project, restore_ind_,
    # sort_contraction_indices), an explicit path given as a list (snapshotted into a tuple by the key) and an
    # optimizer object (never cached).  Every call must answer for the object's CURRENT state.
    B5 = dict(inputs=(("a", "b"), ("b", "c"), ("c", "d"), ("d", "e"), ("e", "f")), output=("a", "f"),
              shapes=((2, 7), (7, 3), (3, 6), (6, 2), (2, 5)), eq="ab,bc,cd,de,ef->af",
              tree_path=((0, 4), (0, 3), (0, 2), (0, 1)))
    steps = {"tree": [[], ["subtree_reconfigure"], ["sort_contraction_indices"], ["remove_ind:c"], ["restore_ind:c"],
                      ["remove_ind_project:c:1"]],
             "list": [[], ["set_path:0-1,0-1,0-1,0-1"], ["set_path:3-4,2-3,1-2,0-1"]],
             "optimizer": [[], ["set_path:0-1,0-1,0-1,0-1"], ["set_path:3-4,2-3,1-2,0-1"]]}
    mo, mox = [], []
    for kind, ops in steps.items():
        idx = {}
        for k, op in enumerate(ops):
            for fixed in ((None, {"c": 1}) if kind == "tree" else (None,)):
                idx[(k, bool(fixed))] = len(mo)
                mo.append(var(B5, optimize="@shared_" + kind, mutate=op, fixed=fixed))
        if kind == "tree":
            plans = [[0, 1], [0, 2, 1], [0, 3, 4], [0, 1, 3, 4, 1], [0, 5], [0, 1, 5], [0, 3, 4, 5]]
        else:
            plans = [[0, 1], [0, 1, 2], [0, 2, 1, 2]]
        for plan in plans:
            for api in ("path", "einsum", "array_contract", "expr"):
                fx = False
                sq = []
                for k in plan:
                    if ops[k] and ops[k][0].startswith("remove_ind_project"):
                        fx = True
                    sq.append((idx[(k, fx)], api))
                mox.append(sq)
            fx = False
            sq = []
            for n, k in enumerate(plan):
                if ops[k] and ops[k][0].startswith("remove_ind_project"):
                    fx = True
                sq.append((idx[(k, fx)], ("path", "einsum", "expr", "array_contract")[n % 4]))
            mox.append(sq)
    P["mutable-optimize"] = (mo, ["path", "einsum", "array_contract", "expr"], mox)
    P["kwargs-einsum"] = ([dict(eq="ab,bc,cd->ad", shapes=B3["shapes"], kwargs=k) for k in kws],
                          ["einsum", "einsum_expr"])
    P["canonicalize"] = ([var(B2, canonicalize=True), var(B2, canonicalize=False),
                          var(B2, inputs=(("x", "y"), ("y", "z")), output=("x", "z"), canonicalize=True),
                          var(B2, inputs=(("x", "y"), ("y", "z")), output=("x", "z"), canonicalize=False),
                          var(B2, inputs=(("b", "a"), ("a", "c")), output=("b", "c"), canonicalize=True),
                          var(B2, inputs=(("b", "a"), ("a", "c")), output=("b", "c"), canonicalize=False),
                          var(B2, inputs=(("a", "b"), ("c", "b")), output=("a", "c"), shapes=((2, 3), (4, 3))),
                          var(B2, inputs=(("a", "b"), ("c", "b")), output=("a", "c"), shapes=((2, 3), (4, 3)),
                              canonicalize=False)],
                         ["expr", "array_contract", "path"])
    sq = ((2, 2), (2, 2))
    P["label-type"] = ([var(B2, inputs=((1, 2), (2, 3)), output=(1, 3), shapes=sq, canonicalize=c)
                        for c in (True, False)] +
                       [var(B2, inputs=((1, 2), (2, 3)), output=(3, 1), shapes=sq, canonicalize=c)
                        for c in (True, False)] +
                       [var(B2, inputs=((1.0, 2.0), (2.0, 3.0)), output=(3.0, 1.0), shapes=sq, canonicalize=c)
                        for c in (True, False)] +
                       [var(B2, inputs=((True, 2), (2, 3)), output=(True, 3), shapes=sq, canonicalize=c)
                        for c in (True, False)] +
                       [var(B2, inputs=((1, 2.0), (2, 3)), output=(1.0, 3), shapes=sq, canonicalize=False),
                        var(B2, inputs=(("1", "2"), ("2", "3")), output=("3", "1"), shapes=sq, canonicalize=False),
                        var(B2, inputs=((("a", 1), ("a", 2)), (("a", 2), ("a", 3))), output=(("a", 1), ("a", 3)),
                            shapes=sq, canonicalize=False),
                        var(B2, inputs=((0, 1), (1, 0)), output=(), shapes=sq, canonicalize=False),
                        var(B2, inputs=((0, 1), (0, 1)), output=(), shapes=sq, canonicalize=False),
                        var(B2, inputs=((False, True), (True, False)), output=(), shapes=sq, canonicalize=False)],
                       ["expr", "array_contract", "path"])
    sdB2 = (("a", 2), ("b", 3), ("c", 4))
    P["size-form"] = ([var(B2), var(B2, size_dict=sdB2), var(B2, size_dict=(("c", 4), ("a", 2), ("b", 3))),
                       var(B2, size_dict=sdB2 + (("z", 5),)), var(B2, size_dict=(("a", 2), ("b", 3), ("c", 2)),
                                                                  shapes=((2, 3), (3, 2))),
                       var(B2, size_dict=sdB2, canonicalize=False),
                       var(B2, size_dict=(("c", 4), ("a", 2), ("b", 3)), canonicalize=False)],
                      ["expr", "path"])
    P["arity"] = ([dict(inputs=(("a",), ("a",)), output=(), shapes=((3,), (3,))),
                   dict(inputs=(("a",), ("a",), ()), output=(), shapes=((3,), (3,), ())),
                   dict(inputs=(("a",), ("b",)), output=(), shapes=((3,), (3,))),
                   dict(inputs=(("a",), ("b",)), output=("a", "b"), shapes=((3,), (3,))),
                   dict(inputs=(("a", "b"),), output=("b", "a"), shapes=((2, 3),)),
                   dict(inputs=(("a", "b"),), output=("a", "b"), shapes=((2, 3),)),
                   dict(inputs=(("a", "b"),), output=("a",), shapes=((2, 3),)),
                   dict(inputs=(("a", "b"),), output=("b",), shapes=((2, 3),)),
                   dict(inputs=(("a", "a"),), output=("a",), shapes=((3, 3),)),
                   dict(inputs=(("a", "b"),), output=(), shapes=((2, 3),)),
                   dict(inputs=(("a", "b"),), output=("b",), shapes=((2, 3),), kwargs={"strip_exponent": True})],
                  ["expr", "array_contract"])
    P["einsum-eq"] = ([dict(eq=e, shapes=s) for e, s in [
        ("ab,bc->ac", ((2, 3), (3, 4))), ("ab,bc", ((2, 3), (3, 4))), ("ab,bc->ca", ((2, 3), (3, 4))),
        ("ba,ac->bc", ((2, 3), (3, 4))), ("ab,bc->abc", ((2, 3), (3, 4))), ("ab,cb->ac", ((2, 3), (4, 3))),
        ("ab,bc->", ((2, 3), (3, 4))), ("ab,ab->ab", ((2, 3), (2, 3))), ("ab,ba->ab", ((2, 2), (2, 2))),
        ("ab,ab->ba", ((2, 2), (2, 2)))]],
        ["einsum", "einsum_expr"])
    # lru_cached parsers: parse_equation_ellipses(eq, shapes), _parse_eq_to_batch_matmul(eq, shape_a, shape_b),
    # _parse_einsum_single(eq, shape): same equation, different ranks / shapes
    P["ellipsis-rank"] = ([dict(eq="...a,a...->...", shapes=s) for s in
                           [((2, 3), (3, 2)), ((3,), (3, 2)), ((2, 3), (3,)), ((2, 2, 3), (3, 2)), ((3,), (3,)),
                            ((4, 3), (3, 4))]] +
                          [dict(eq="...a,...a", shapes=s) for s in [((2, 3), (2, 3)), ((3,), (2, 3)), ((2, 3), (3,))]],
                          ["einsum", "einsum_expr"])
    bk = {"implementation": "cotengra", "prefer_einsum": True}
    P["bmm-shapes"] = ([dict(eq=e, shapes=s, kwargs=bk) for e, s in [
        ("ab,bc->ac", ((2, 3), (3, 4))), ("ab,bc->ac", ((2, 3), (3, 2))), ("ab,bc->ac", ((1, 3), (3, 4))),
        ("ab,bc->ac", ((2, 1), (1, 4))), ("ab,bc->ca", ((2, 3), (3, 4))), ("ab,ab->ab", ((2, 3), (2, 3))),
        ("ab,ab->a", ((2, 3), (2, 3))), ("ab,ab->a", ((3, 2), (3, 2))), ("aab,bc->ac", ((2, 2, 3), (3, 4))),
        ("aab,bc->ac", ((3, 3, 2), (2, 4)))]],
        ["einsum", "einsum_expr"])
    P["constants"] = ([dict(eq="ab,bc,cd->ad", shapes=B3["shapes"], constants=[1]),
                       dict(eq="ab,bc,cd->ad", shapes=B3["shapes"], constants=[1], alt_constant=True),
                       dict(eq="ab,bc,cd->ad", shapes=B3["shapes"], constants=[0, 2]),
                       dict(eq="ab,bc,cd->ad", shapes=B3["shapes"]),
                       dict(eq="ab,bc,cd->da", shapes=B3["shapes"], constants=[1])],
                      ["einsum_expr"])
    # negative integer labels, canonicalize=True: must all be right whatever the hash does
    neg = [dict(inputs=((-1, 1), (1, -2)), output=(-1, -2), shapes=sq),
           dict(inputs=((-2, 1), (1, -1)), output=(-1, -2), shapes=sq),
           dict(inputs=((-1,), (-2,)), output=(), shapes=((2,), (2,))),
           dict(inputs=((-1,), (-1,)), output=(), shapes=((2,), (2,))),
           dict(inputs=((-1, -2),), output=(-1,), shapes=((2, 2),)),
           dict(inputs=((-1, -2),), output=(-2,), shapes=((2, 2),))]
    P["negint-canonical"] = ([var(m, canonicalize=True) for m in neg], ["expr", "array_contract", "path"])
    P["ncon-canonical"] = ([dict(inputs=((-1, 1), (1, -2)), shapes=sq), dict(inputs=((-2, 1), (1, -1)), shapes=sq),
                            dict(inputs=((-1, 1), (-2, 1)), shapes=sq)], ["ncon"])
    # ncon with the labels kept as given: its output is a list, hence never cached (falls back)
    P["ncon-raw"] = ([dict(inputs=((-1, 1), (1, -2)), shapes=sq, canonicalize=False),
                      dict(inputs=((-2, 1), (1, -1)), shapes=sq, canonicalize=False)], ["ncon"])
    return P


def known_pools():
    """pools that exercise the two known findings; failures here are classified, not hidden"""
    sq = ((2, 2), (2, 2))
    K = {}
    neg = [dict(inputs=((-1, 1), (1, -2)), output=(-1, -2), shapes=sq),
           dict(inputs=((-2, 1), (1, -1)), output=(-1, -2), shapes=sq),
           dict(inputs=((-1, 2), (2, -2)), output=(-2, -1), shapes=sq),
           dict(inputs=((-1,), (-2,)), output=(), shapes=((2,), (2,)), size_dict=((-1, 2), (-2, 2))),
           dict(inputs=((-1,), (-1,)), output=(), shapes=((2,), (2,)), size_dict=((-1, 2), (-2, 2)))]
    K["negint-raw"] = ([var(m, canonicalize=False) for m in neg], ["expr", "array_contract"], KEY_COLLISION)
    K["unhashable-path"] = ([var(B3, optimize=[[0, 1], [0, 1]]), var(B3, optimize=[[1, 2], [0, 1]]),
                             var(B2, lists=True, canonicalize=False),
                             var(B2, lists=True, canonicalize=False, output=("c", "a"))],
                            ["path", "expr", "array_contract"], KEY_UNHASHABLE)
    return K


def _int_labels(spec):
    if spec.get("canonicalize") is not False or spec.get("inputs") is None:
        return None
    return {ix for t in spec["inputs"] for ix in t if isinstance(ix, int) and not isinstance(ix, bool)}


def is_collision_class(spec, earlier):
    """input class of the known finding cache-key-hash-collision: the failing call and an earlier
    call of the sequence both keep their labels as given (canonicalize=False) and together use
    two different ints with the same CPython hash (-1 and -2)"""
    mine = _int_labels(spec)
    if mine is None:
        return False
    for e in list(earlier) + [spec]:
        other = _int_labels(e)
        if other is None:
            continue
        labs = mine | other
        if any(a != b and hash(a) == hash(b) for a in labs for b in labs):
            return True
    return False


def is_unhashable_class(spec, res):
    if spec.get("api") != "path" or not (res.get("exc") or "").startswith("TypeError: unhashable"):
        return False
    o = spec.get("optimize")
    return bool(spec.get("lists")) or (isinstance(o, list) and any(isinstance(s, list) for s in o))


def instantiate(member, api, rng, np, cache=True):
    """member + api -> full spec with arrays"""
    spec = dict(member)
    spec["api"] = api
    spec["cache"] = cache
    if api in ("einsum", "einsum_expr"):
        shapes = spec["shapes"]
    else:
        shapes = spec["shapes"]
    def arr(seed_shift=0):
        out = []
        for s in shapes:
            n = 1
            for d in s:
                n *= d
            out.append(np.array([rng.randint(1, 3) for _ in range(n)], dtype=np.int64).reshape(s).tolist())
        return out
    spec["arrays"] = arr()
    spec["arrays2"] = arr()
    if spec.get("constants"):
        # the constant arrays are part of the expression: keep them fixed between arrays and arrays2
        for i in spec["constants"]:
            spec["arrays2"][i] = spec["arrays"][i]
    return spec


def member_class(member, api):
    """semantic identity of a call: two calls of one sequence with different classes must never
    share an expression object"""
    m = {k: v for k, v in member.items() if k not in ("arrays", "arrays2", "cache")}
    return repr(sorted(m.items(), key=lambda kv: kv[0])) + api


# =====================================================================================
def judge_sequence(ctx, pool, specs, results, oracle, np, where, known_key=None):
    """compare every result of one executed sequence with the independent expectation;
    returns number of failures reported"""
    nfail = 0
    seen_obj = {}
    for i, (spec, res) in enumerate(zip(specs, results)):
        bad = None
        api = spec["api"]
        if res.get("exc"):
            bad = "call raised %s" % res["exc"]
        elif api in ("path", "tree_struct"):
            n = len(spec["inputs"])
            p = res["path"]
            if api == "tree_struct" and (res["tree_inputs"] != tuple(tuple(t) for t in spec["inputs"])
                                         or res["tree_output"] != tuple(spec["output"])):
                bad = "the returned tree is for %r -> %r, requested %r -> %r" % (
                    res["tree_inputs"], res["tree_output"], spec["inputs"], spec["output"])
            if not oracle.path_is_valid_linear(n, p):
                bad = "returned path %r is not a valid path for %d inputs" % (p, n)
            elif "shared_path" in res and p != res["shared_path"]:
                bad = ("the path %r was returned; the %s passed as optimize currently describes %r (it was "
                       "modified in place since an earlier call)" % (p, spec["optimize"], res["shared_path"]))
            elif spec.get("judge_cost"):
                own = _size_dict_of(spec)
                res["cost"] = path_cost(spec["inputs"], spec["output"], own, p)
                if spec.get("optimize") == "optimal":
                    want_c = best_path_cost(spec["inputs"], spec["output"], own)
                    if res["cost"] != want_c:
                        bad = ("optimize='optimal' returned the path %r: cost %d under the request's own sizes %r, "
                               "the optimum is %d" % (p, res["cost"], own, want_c))
            o = spec.get("optimize", "auto")
            if isinstance(o, (tuple, list)) and o and isinstance(o[0], (tuple, list)):
                want = tuple(tuple(s) for s in o)
                if p != want:
                    bad = "explicit path %r requested, %r returned" % (want, p)
        else:
            arrays = spec["arrays"]
            ref = expected_value(spec, arrays, oracle, np)
            if not value_matches(res["value"], ref, oracle, np):
                bad = "value differs from the dense einsum: got %r want %r" % (res["value"], ref.tolist())
            elif "value2" in res:
                ref2 = expected_value(spec, spec["arrays2"], oracle, np)
                if not value_matches(res["value2"], ref2, oracle, np):
                    bad = "expression reused on new arrays gives %r, want %r" % (res["value2"], ref2.tolist())
                elif not value_matches(res["value3"], ref, oracle, np):
                    bad = "expression called a third time on the first arrays gives %r, want %r" % (
                        res["value3"], ref.tolist())
            if bad is None and res.get("desc"):
                bks = [spec.get("backend", "numpy"), spec.get("backend2", spec.get("backend", "numpy")),
                       spec.get("backend", "numpy")]
                refs = [ref, expected_value(spec, spec["arrays2"], oracle, np) if len(res["desc"]) > 1 else None, ref]
                for (kind, dt, shape), bk, rf in zip(res["desc"], bks, refs):
                    want_kind = "numpy" if bk == "numpy" else "lazy"
                    k = kind.replace("strip:", "")
                    if not (k == want_kind or (want_kind == "numpy" and k == "pyscalar")):
                        bad = "%s arrays in, a %s result out (dtype %s): expected a %s result" % (bk, kind, dt, want_kind)
                        break
                    if shape is not None and rf is not None and tuple(shape) != tuple(rf.shape):
                        bad = "result shape %r, expected %r" % (shape, tuple(rf.shape))
                        break
            if bad is None and "dtype" in res and not res["dtype"].startswith("strip") and res["dtype"] != "symbolic":
                custom = spec.get("kwargs", {}).get("implementation") in ("@impl_tuple", "@impl_list")
                multi = (len(spec["inputs"]) if spec.get("inputs") is not None else spec["eq"].count(",") + 1) > 1
                want_dt = "float64" if (custom and multi) else "int64"
                if res["dtype"] != want_dt:
                    bad = "result dtype %s, expected %s (%s user-supplied implementation)" % (
                        res["dtype"], want_dt, "with the" if custom else "without a")
            if res.get("frame") is False and not getattr(ctx, "_frame_reported", False):
                # the `frame` premise of C13_expression_is_pure is broken: a broken correspondence, not yet a
                # failing input -- the sequences (backend-mix, kwargs ...) decide whether it is visible
                ctx._frame_reported = True
                ctx.fail("calling a cached expression wrote to the object (a slot / closure cell changed): the "
                         "`frame` premise of C13_expression_is_pure does not hold for this source",
                         {"correspondence": "state snapshot of the expression object around its calls",
                          "pool": pool, "call": {k: v for k, v in spec.items() if k not in ("arrays", "arrays2")},
                          "object": res.get("kind")}, found_input=False)
            if bad is None and "obj" in res:
                cls = member_class({k: v for k, v in spec.items() if k not in ("api",)}, api)
                prev = seen_obj.get(res["obj"])
                if prev is not None and prev[0] != cls and not same_contraction(prev[1], spec):
                    bad = "two different contractions received the same expression object (calls %d and %d)" % (
                        prev[2], i)
                seen_obj.setdefault(res["obj"], (cls, spec, i))
        if bad:
            key = None
            cached = all(s.get("cache", True) for s in specs)
            wrong_answer = not res.get("exc")       # a wrong value / a shared object, not an exception
            if known_key == KEY_COLLISION and cached and wrong_answer and is_collision_class(spec, specs[:i]):
                key = KEY_COLLISION
            if known_key == KEY_UNHASHABLE and cached and is_unhashable_class(spec, res):
                key = KEY_UNHASHABLE
            rep = {"pool": pool, "where": where, "failing_call": i, "what": bad,
                   "sequence": [{k: v for k, v in s.items()} for s in specs],
                   "results": results}
            if ctx.fail("C13 %s: %s" % (pool, bad), rep, key=key):
                nfail += 1
            elif key:
                ctx.count("known:" + key)
            break
    return nfail


def same_contraction(a, b):
    """may two specs legitimately share one cached expression?  yes iff they denote the same
    contraction: equal (Python ==, so 1 == 1.0 == True) after first-appearance relabelling when
    canonicalize is on, equal as given when it is off; sizes compared as a mapping; a list path
    equals the tuple path"""
    def canon(s):
        raw = s.get("canonicalize") is False
        if s.get("inputs") is None:
            ins, out = eq_to_terms(s["eq"])
            raw = False
        else:
            ins = s["inputs"]
            out = s["output"] if s.get("output") is not None else implicit_output(ins)
        if s.get("size_dict") is not None:
            sizes = dict(s["size_dict"])
        else:
            sizes = {}
            for t, sh in zip(ins, s["shapes"]):
                for ix, d in zip(t, sh):
                    sizes[ix] = d
        o = s.get("optimize", "auto")
        if isinstance(o, list):
            o = tuple(o)
        edge = isinstance(o, tuple) and o and isinstance(o[0], (str, int))
        if not raw:
            m = []

            def g(ix):
                # the symbol cotengra's canonicalisation assigns: 'a', 'b', ... by first appearance
                for k, v in enumerate(m):
                    if v == ix:
                        return chr(97 + k)
                m.append(ix)
                return chr(97 + len(m) - 1)
            ins = tuple(tuple(g(ix) for ix in t) for t in ins)
            out = tuple(g(ix) for ix in out)
            sizes = {g(k): v for k, v in sizes.items()}
            if edge:
                o = tuple(g(ix) for ix in o)
        return (tuple(map(tuple, ins)), tuple(out), sizes, o, dict(s.get("kwargs", {})), s.get("constants"))
    for s in (a, b):
        if s.get("inputs") is None and "..." in s.get("eq", ""):
            # ellipsis equations expand to ordinary ones depending on the ranks ('...a,a...->...' and
            # '...a,...a' are the same contraction on shapes (2,3),(3,)): undecided here, the values
            # are judged; sharing is only conceivable for equal shapes and options
            return (a.get("shapes") == b.get("shapes") and a.get("kwargs", {}) == b.get("kwargs", {})
                    and a.get("optimize", "auto") == b.get("optimize", "auto"))
    try:
        return canon(a) == canon(b)
    except Exception:
        return False


def run_subprocess_batch(ctx, batch):
    """batch: list of (pool, specs, known_key); each sequence in its own fresh interpreter"""
    env = dict(os.environ)
    procs = []
    results = []
    pending = list(batch)
    running = []
    while pending or running:
        while pending and len(running) < 16:
            item = pending.pop(0)
            p = subprocess.Popen(["timeout", "120", sys.executable, os.path.abspath(__file__), "--worker"],
                                 stdin=subprocess.PIPE, stdout=subprocess.PIPE, stderr=subprocess.PIPE, text=True, env=env)
            p.stdin.write(repr(item[1]))
            p.stdin.close()
            running.append((item, p))
        item, p = running.pop(0)
        out = p.stdout.read()
        err = p.stderr.read()
        p.wait()
        res = None
        for line in out.splitlines():
            if line.startswith("RESULT "):
                res = eval(line[7:], {"__builtins__": {}}, {"nan": float("nan"), "inf": float("inf")})
        results.append((item, res, err[-500:]))
    return results


# =====================================================================================
# Python value -> pyval literal (Model/CacheState.v)
class Lit:
    def __init__(self):
        self.strs = {}
        self.objs = []          # keep alive; index = id in the model

    def pv(self, x):
        if isinstance(x, bool):
            return "(PBool %s)" % ("true" if x else "false")
        if isinstance(x, int):
            return "(PInt (%d)%%Z)" % x
        if isinstance(x, float):
            if x != int(x):
                raise ValueError("non-integral float label")
            return "(PFloat (%d)%%Z)" % int(x)
        if isinstance(x, str):
            self.strs[x] = hash(x)
            return "(PStr [%s])" % "; ".join(str(ord(c)) for c in x)
        if x is None:
            return "PNone"
        if isinstance(x, tuple):
            return "(PTuple [%s])" % "; ".join(self.pv(v) for v in x)
        if isinstance(x, list):
            return "(PList [%s])" % "; ".join(self.pv(v) for v in x)
        if isinstance(x, frozenset):
            return "(PFrozen [%s])" % "; ".join(self.pv(v) for v in x)
        if isinstance(x, dict):
            return "(PDict [%s])" % "; ".join(self.pv((k, v)) for k, v in x.items())
        for i, o in enumerate(self.objs):
            if o is x:
                return "(PObj %d)" % i
        self.objs.append(x)
        return "(PObj %d)" % (len(self.objs) - 1)

    def env(self):
        ts = "; ".join("([%s], (%d)%%Z)" % ("; ".join(str(ord(c)) for c in s), h) for s, h in self.strs.items())
        to = "; ".join("(%d, (%d)%%Z)" % (i, hash(o)) for i, o in enumerate(self.objs))
        return "(tbl_env [%s] [%s] (%d)%%Z)" % (ts, to, hash(None))


def opt_lit(x):
    return "None" if x is None else "(Some %s)" % x


def raw_lit(L, call, hcls):
    ins = "[%s]" % "; ".join("[%s]" % "; ".join(L.pv(ix) for ix in t) for t in call["inputs"])
    out = opt_lit(None if call["output"] is None else "[%s]" % "; ".join(L.pv(ix) for ix in call["output"]))
    sd = opt_lit(None if call["size_dict"] is None else
                 "[%s]" % "; ".join("(%s, %s)" % (L.pv(k), L.pv(v)) for k, v in call["size_dict"].items()))
    sh = opt_lit(None if call["shapes"] is None else
                 "[%s]" % "; ".join("[%s]" % "; ".join(L.pv(d) for d in s) for s in call["shapes"]))
    kw = "[%s]" % "; ".join(L.pv((k, v)) for k, v in call["kwargs"].items())
    b = lambda v: "true" if v else "false"
    return "(mkRaw %s %s %s %s %s %s %s %s %s %s)" % (
        ins, out, sd, sh, L.pv(call["optimize"]), b(call["canonicalize"]), b(call["lists"]), kw,
        b(call["cache"]), b(hcls))


# ---- generator of raw calls for the correspondence ---------------------------------------
STYLES = ["str", "int", "negint", "mixed", "numtower", "tuple"]


def label_pool(style):
    if style == "str":
        return list("abcdefg")
    if style == "int":
        return list(range(7))
    if style == "negint":
        return [-1, -2, -3, 1, 2, 3, 0]
    if style == "mixed":
        return ["a", 1, "b", 2, (0, "x"), "1", -1]
    if style == "tuple":
        return [("a", 0), ("a", 1), ("b", 0), ("b", 1), (0,), (1,), ()]
    return [0, 1, 2, 3, 4, 5, 6]     # numtower: occurrences are re-typed below


def retype(rng, v):
    """another Python value that is == v (1 / 1.0 / True)"""
    c = [v, float(v)]
    if v in (0, 1):
        c.append(bool(v))
    return rng.choice(c)


def gen_net(rng, style):
    pool = label_pool(style)
    n = rng.choice([1, 2, 2, 3, 3])
    used = rng.sample(pool, rng.randint(2, 5))
    sizes = {l: rng.choice([2, 2, 3]) for l in used}
    inputs = []
    for _ in range(n):
        r = rng.randint(0 if n > 1 else 1, 3)
        term = tuple(rng.choice(used) for _ in range(r)) if rng.random() < 0.15 else tuple(rng.sample(used, min(r, len(used))))
        inputs.append(term)
    present = []
    for t in inputs:
        for ix in t:
            if ix not in present:
                present.append(ix)
    if not present:
        inputs[0] = (used[0],)
        present = [used[0]]
    k = rng.randint(0, min(3, len(present)))
    output = tuple(rng.sample(present, k))
    return {"inputs": tuple(inputs), "output": output, "sizes": {l: sizes[l] for l in present}, "style": style,
            "spare": [l for l in pool if l not in present]}


def gen_call(rng, net, which):
    inputs, output, sizes = net["inputs"], net["output"], dict(net["sizes"])
    style = net["style"]
    # relabel (a bijection onto labels of the same pool)
    if rng.random() < 0.3:
        pool = label_pool(style)
        present = list(sizes)
        img = rng.sample(pool, len(present))
        mp = dict(zip(present, img))
        inputs = tuple(tuple(mp[ix] for ix in t) for t in inputs)
        output = tuple(mp[ix] for ix in output)
        sizes = {mp[k]: v for k, v in sizes.items()}
    if rng.random() < 0.25 and len(output) > 1:
        o = list(output)
        rng.shuffle(o)
        output = tuple(o)
    if rng.random() < 0.15:
        k = rng.choice(list(sizes))
        sizes[k] = sizes[k] + 1
    out = output if rng.random() < 0.85 else None
    shapes = tuple(tuple(sizes[ix] for ix in t) for t in inputs)
    if style == "numtower":
        inputs = tuple(tuple(retype(rng, ix) for ix in t) for t in inputs)
        if out is not None:
            out = tuple(retype(rng, ix) for ix in out)
    form = rng.random()
    size_dict = None
    if form < 0.5:
        items = list(sizes.items())
        if rng.random() < 0.4:
            rng.shuffle(items)
        if rng.random() < 0.2 and net["spare"]:
            items.insert(rng.randint(0, len(items)), (net["spare"][0], 2))
        if style == "numtower":
            items = [(retype(rng, k), v) for k, v in items]
        size_dict = dict(items)
        shapes_arg = None if rng.random() < 0.7 else shapes
    else:
        shapes_arg = shapes
    n = len(inputs)
    r = rng.random()
    from vlib import gen as vgen
    if r < 0.45 or n == 1:
        optimize = rng.choice(["auto", "greedy", "auto"])
    elif r < 0.65:
        optimize = vgen.rand_path(rng, n)
    elif r < 0.75:
        optimize = list(vgen.rand_path(rng, n))
    elif r < 0.80:
        optimize = [list(s) for s in vgen.rand_path(rng, n)]
    elif r < 0.92:
        # an edge path: labels (ints / strs only are recognised as such by the library)
        labs = [ix for ix in sizes if isinstance(ix, (int, str))]
        if labs:
            e = rng.sample(labs, min(len(labs), rng.randint(1, 3)))
            optimize = tuple(e) if rng.random() < 0.6 else list(e)
        else:
            optimize = "auto"
    else:
        optimize = _pathfn
    kwargs = {}
    if which == "expr":
        for name, vals in (("strip_exponent", [True, False, 1]), ("implementation", [None, "cotengra", "autoray"]),
                           ("prefer_einsum", [True, False]), ("autojit", [False]),
                           ("via", [None, (_ident, _plus1)]), ("sort_contraction_indices", [True, False])):
            if rng.random() < 0.2:
                kwargs[name] = rng.choice(vals)
        if kwargs and rng.random() < 0.3:
            ks = list(kwargs.items())
            rng.shuffle(ks)
            kwargs = dict(ks)
    lists = rng.random() < 0.08
    return {"inputs": inputs, "output": out, "size_dict": size_dict, "shapes": shapes_arg, "optimize": optimize,
            "canonicalize": rng.random() < 0.6, "lists": lists, "kwargs": kwargs, "cache": rng.random() < 0.88}


def gen_sequence(rng, which):
    style = rng.choice(STYLES)
    nets = [gen_net(rng, style) for _ in range(rng.randint(1, 2))]
    calls = []
    for _ in range(rng.randint(2, 7)):
        if calls and rng.random() < 0.35:
            c = dict(rng.choice(calls))            # an exact repetition (a certain hit if cacheable)
            if rng.random() < 0.3:
                c["cache"] = not c["cache"]
            calls.append(c)
        else:
            calls.append(gen_call(rng, rng.choice(nets), which))
    return style, calls


class Token:
    def __init__(self, i):
        self.i = i


def real_trace(I, calls, which, can_hash_types):
    """run the sequence against the real cache with the cached computation replaced by a
    recording stub; -> (obs list, keys, compute args per call, hcls per call)"""
    table = cache_table(I, which)
    if table is None:
        raise LookupError("no cache dict found for %s requests in cotengra.interface" % which)
    clear_tables(I)
    name = "_build_expression" if which == "expr" else "find_path"
    table.clear()
    orig = getattr(I, name)
    cur = [0]
    log = {}

    def stub(*a, **k):
        log[cur[0]] = (a, k)
        return Token(cur[0])
    setattr(I, name, stub)
    obs = []
    hcls = []
    norm = []
    try:
        for i, c in enumerate(calls):
            cur[0] = i
            inputs = [list(t) for t in c["inputs"]] if c["lists"] else c["inputs"]
            output = list(c["output"]) if (c["lists"] and c["output"] is not None) else c["output"]
            # what normalize_input turns `optimize` into decides can_hash_optimize: recompute independently
            o = c["optimize"]
            hcls.append(isinstance(o, can_hash_types))
            try:
                if which == "expr":
                    r = I.array_contract_expression(inputs, output, size_dict=c["size_dict"], shapes=c["shapes"],
                                                    optimize=o, canonicalize=c["canonicalize"], cache=c["cache"],
                                                    **c["kwargs"])
                else:
                    r = I.array_contract_path(inputs, output, size_dict=c["size_dict"], shapes=c["shapes"],
                                              optimize=o, canonicalize=c["canonicalize"], cache=c["cache"])
                obs.append((0 if i in log else 1, r.i))
            except TypeError as ex:
                if "unhashable" not in str(ex):
                    raise
                obs.append((2, 0))
            norm.append(log.get(i))
        keys = list(table.keys())
    finally:
        setattr(I, name, orig)
        table.clear()
    return obs, keys, norm, hcls


def real_trace_mixed(I, kinds_calls, can_hash_types):
    """path and expression requests interleaved against the real caches (both computations stubbed);
    -> per kind: (calls, obs with producer indices local to the kind, keys, compute args, hcls), or a
    string describing an object that crossed from one cache to the other"""
    tp, te = cache_table(I, "path"), cache_table(I, "expr")
    if tp is None or te is None:
        raise LookupError("cache dicts of cotengra.interface not found")
    clear_tables(I)
    orig = {n: getattr(I, n) for n in ("_build_expression", "find_path")}
    cur = [0]
    log = {}

    def mkstub(name):
        def stub(*a, **k):
            log[cur[0]] = (name, a, k)
            return Token(cur[0])
        return stub
    for n in orig:
        setattr(I, n, mkstub(n))
    per = {"path": {"calls": [], "obs": [], "norm": [], "hcls": [], "glob": []},
           "expr": {"calls": [], "obs": [], "norm": [], "hcls": [], "glob": []}}
    crossed = None
    try:
        for i, (kind, c) in enumerate(kinds_calls):
            cur[0] = i
            d = per[kind]
            inputs = [list(t) for t in c["inputs"]] if c["lists"] else c["inputs"]
            output = list(c["output"]) if (c["lists"] and c["output"] is not None) else c["output"]
            d["calls"].append(c)
            d["hcls"].append(isinstance(c["optimize"], can_hash_types))
            d["glob"].append(i)
            if kind == "expr":
                r = I.array_contract_expression(inputs, output, size_dict=c["size_dict"], shapes=c["shapes"],
                                                optimize=c["optimize"], canonicalize=c["canonicalize"],
                                                cache=c["cache"], **c["kwargs"])
            else:
                r = I.array_contract_path(inputs, output, size_dict=c["size_dict"], shapes=c["shapes"],
                                          optimize=c["optimize"], canonicalize=c["canonicalize"], cache=c["cache"])
            if r.i not in d["glob"]:
                crossed = "call %d (%s request) received the object computed by call %d (a %s request)" % (
                    i, kind, r.i, kinds_calls[r.i][0])
                break
            d["obs"].append((0 if i in log else 1, d["glob"].index(r.i)))
            d["norm"].append(log.get(i))
        keys = {"path": list(tp.keys()), "expr": list(te.keys())}
        same_dict = tp is te
    finally:
        for n, f in orig.items():
            setattr(I, n, f)
        clear_tables(I)
    return per, keys, crossed, same_dict


def correspondence_phase(ctx, I, ctg, info, rng):
    import builtins
    can_hash_types = tuple(getattr(builtins, n, None) or getattr(I, n) for n in info["can_hash_classes"])
    cases = []
    records = []
    nseq = ctx.n(220, 2500)
    for si in range(nseq):
        which = "expr" if rng.random() < 0.6 else "path"
        style, calls = gen_sequence(rng, which)
        try:
            obs, keys, norm, hcls = real_trace(I, calls, which, can_hash_types)
        except Exception as ex:
            ctx.count("corr_skipped_impl_raise:%s" % type(ex).__name__)
            continue
        L = Lit()
        raws = "[%s]" % "; ".join(raw_lit(L, c, h) for c, h in zip(calls, hcls))
        keyl = "[%s]" % "; ".join(L.pv(k) for k in keys)
        obsl = "[%s]" % "; ".join("(%d, %d)" % o for o in obs)
        # the arguments handed to the computation, for the calls that computed
        normcases = []
        for i, nr in enumerate(norm):
            if nr is None:
                continue
            a, k = nr
            if which == "expr":
                vals = [a[0], a[1], a[2], k.get("optimize")]
                extra = {kk: vv for kk, vv in k.items() if kk != "optimize"}
                if extra != calls[i]["kwargs"]:
                    ctx.fail("array_contract_expression handed kwargs %r to _build_expression, the caller gave %r"
                             % (extra, calls[i]["kwargs"]), {"calls": repr(calls), "call": i}, found_input=False)
            else:
                vals = [a[0], a[1], a[2], a[3]]
            normcases.append((i, "[%s]" % "; ".join(L.pv(v) for v in vals)))
        env = L.env()
        kx = "expr_key_expr" if which == "expr" else "path_key_expr"
        fb = "expr_typeerror_fallback" if which == "expr" else "path_typeerror_fallback"
        cases.append(("seq%d" % si,
                      "observe_raw %s %s %s [%s] %s" % (env, kx, fb, "; ".join(str(i) for i, _ in normcases), raws),
                      "(Some (%s, %s), [%s])" % (obsl, keyl, "; ".join("Some %s" % lit for _, lit in normcases))))
        records.append({"which": which, "style": style, "calls": repr(calls), "observed": repr(obs),
                        "keys": repr(keys), "compute_args": repr(norm)})
        feats = set()
        for (o, _), c in zip(obs, calls):
            feats.add(["miss", "hit", "typeerror"][o])
            if not c["cache"]:
                feats.add("cache_off")
            if c["lists"]:
                feats.add("lists")
            if not c["canonicalize"]:
                feats.add("raw_labels")
            if c["kwargs"]:
                feats.add("kwargs")
            if isinstance(c["optimize"], (tuple, list)):
                feats.add("explicit_or_edge_path")
        for f in feats:
            ctx.count("corr:" + f)
        ctx.count("corr:style:" + style)
        ctx.case(("corr", repr(calls)), nontrivial=("hit" in feats and "miss" in feats),
                 sample={"which": which, "calls": repr(calls)[:600], "observed": repr(obs)} if si < 2 else None)
    # ---- path and expression requests interleaved: the two caches are separate maps, so the model's
    # prediction is the two sub-sequences run independently (C13_two_caches_transparent) -------------
    for si in range(ctx.n(60, 600)):
        style = rng.choice(STYLES)
        nets = [gen_net(rng, style) for _ in range(rng.randint(1, 2))]
        kc = []
        for _ in range(rng.randint(3, 7)):
            if kc and rng.random() < 0.55:
                k0, c0 = rng.choice(kc)
                kc.append(("expr" if k0 == "path" else "path", dict(c0)))     # the same call through the other function
            else:
                c = gen_call(rng, rng.choice(nets), "path")                     # option-free: kwargs = {}
                c["lists"] = False
                kc.append((rng.choice(["path", "expr"]), c))
        try:
            per, keys, crossed, same_dict = real_trace_mixed(I, kc, can_hash_types)
        except Exception as ex:
            ctx.count("corr_skipped_impl_raise:%s" % type(ex).__name__)
            continue
        ctx.count("corr:mixed_path_expr")
        if any(a[0] != b[0] and a[1] == b[1] for a in kc for b in kc):
            ctx.count("corr:mixed_same_call_through_both_functions")
        rec0 = {"which": "mixed", "style": style, "calls": repr(kc)}
        if crossed or same_dict:
            rec0["correspondence"] = "the path cache and the expression cache are separate dicts"
            ctx.fail("model and implementation disagree: %s" % (crossed or "the path cache and the expression cache are one dict"),
                     rec0, found_input=False)
            continue
        for kind in ("path", "expr"):
            d = per[kind]
            if not d["calls"]:
                continue
            L = Lit()
            raws = "[%s]" % "; ".join(raw_lit(L, c, h) for c, h in zip(d["calls"], d["hcls"]))
            keyl = "[%s]" % "; ".join(L.pv(k) for k in keys[kind])
            obsl = "[%s]" % "; ".join("(%d, %d)" % o for o in d["obs"])
            env = L.env()
            kx = "expr_key_expr" if kind == "expr" else "path_key_expr"
            fb = "expr_typeerror_fallback" if kind == "expr" else "path_typeerror_fallback"
            cases.append(("mixed%d.%s" % (si, kind), "observe_raw %s %s %s [] %s" % (env, kx, fb, raws),
                          "(Some (%s, %s), [])" % (obsl, keyl)))
            records.append(dict(rec0, kind=kind, observed=repr(d["obs"]), keys=repr(keys[kind])))
    ctx.log("correspondence: %d sequences run against the real caches, %d Coq cases" % (nseq, len(cases)))
    failing = ctx.coq_cases("c13", ["Base", "CacheState", "CacheKey"], cases, chunk=max(8, len(cases) // 16 + 1))
    ctx.log("correspondence: %d cases evaluated in Coq, %d disagree" % (len(cases), len(failing)))
    for idx, label, val in failing:
        rec = dict(records[idx]) if idx < len(records) else {}
        rec["model_value"] = val
        rec["label"] = label
        rec["correspondence"] = ("Model/CacheState.v trace_raw / normalized_fields vs "
                                 "array_contract_expression / array_contract_path with a recording stub")
        ctx.fail("model and implementation disagree on the cache behaviour (%s)" % label, rec, found_input=False)

    # ---- 2b. dispatch tables ---------------------------------------------------------
    dispatch_correspondence(ctx, I, ctg, info, rng)



# =====================================================================================
def run(ctx):
    from vlib.core import standard_proof_steps, VERIF, REPO
    from vlib import oracle
    sys.path.insert(0, os.path.join(HARNESS, "translators"))
    import cachekey
    import numpy as np
    warnings.simplefilter("ignore")
    rng = ctx.rng

    # ---- 0. translator -----------------------------------------------------------------
    src_path = os.path.join(REPO, "cotengra", "interface.py")
    gen_path = os.path.join(VERIF, "coq", "Gen", "CacheKey.v")
    info = None
    coq_ok = False
    try:
        text, info = cachekey.translate(open(src_path, encoding="utf-8").read(),
                                        open(os.path.join(REPO, "cotengra", "contract.py"), encoding="utf-8").read())
        os.makedirs(os.path.dirname(gen_path), exist_ok=True)
        old = open(gen_path).read() if os.path.exists(gen_path) else None
        if old != text:
            with open(gen_path, "w") as f:
                f.write(text)
            ctx.notes.append("Gen/CacheKey.v differs from the file on disk: regenerated from %s" % src_path)
            ctx.count("gen_file_changed")
        ctx.log("translator ok: key hashed=%s, path fallback=%s, expr fallback=%s" % (
            "hash" in repr(info["key_expr"]), info["path"]["fallback"], info["expr"]["fallback"]))
    except cachekey.Untranslatable as e:
        ctx.log(str(e))
        ctx.fail("translator: interface.py is no longer in the recognised shape (%s): the generated model and "
                 "the theorems about it do not describe this source" % e,
                 {"correspondence": "harness/translators/cachekey.py", "message": str(e)}, found_input=False)
    # ---- 1. Coq -------------------------------------------------------------------------
    if info is not None:
        coq_ok = standard_proof_steps(ctx)
    if info is not None:
        TABLE_NAMES["path"], TABLE_NAMES["expr"] = info["path"]["table"], info["expr"]["table"]
    # what the source looks like, as far as the translator could tell (None = unknown)
    key_hashed = None if info is None else ("'hash'" in repr(info["key_expr"]))
    ctx.meta["key_hashed"] = key_hashed

    import cotengra as ctg
    from cotengra import interface as I

    # ---- 2. correspondence ---------------------------------------------------------------
    if coq_ok:
        try:
            correspondence_phase(ctx, I, ctg, info, rng)
        except Exception:
            import traceback
            tb = traceback.format_exc()
            ctx.log('correspondence phase raised:\n' + tb)
            ctx.fail('the correspondence could not be run against this source (the oracle still runs)',
                     {'correspondence': 'harness/props/c13.py correspondence phase', 'traceback': tb}, found_input=False)
    ctx.log("dispatch correspondence done")
    # ---- 3. oracle -----------------------------------------------------------------------
    P = pools()
    K = known_pools()
    # the minimised past failures run first
    cdir = os.path.join(VERIF, "corpus", PROP)
    if os.path.isdir(cdir):
        for fn in sorted(os.listdir(cdir)):
            if not fn.endswith(".py.txt"):
                continue
            item = ast.literal_eval(open(os.path.join(cdir, fn)).read())
            specs = []
            for sp in item["sequence"]:
                sp = dict(sp)
                sp.update({k: v for k, v in instantiate(sp, sp["api"], rng, np, cache=True).items()
                           if k in ("arrays", "arrays2", "cache")})
                specs.append(sp)
            results = exec_sequence(specs, clear=True)
            judge_sequence(ctx, "corpus:" + fn, specs, results, oracle, np, "corpus", known_key=item.get("known_key"))
            ctx.count("corpus")
            ctx.case(("corpus", fn), nontrivial=True, sample={"corpus": fn, "results": repr(results)[:300]})
    nseq_pool = ctx.n(90, 700)
    batch_sub = []
    total = 0
    for pname, pdef in list(P.items()) + [(k, (v[0], v[1])) for k, v in K.items()]:
        members, apis = pdef[0], pdef[1]
        explicit = pdef[2] if len(pdef) > 2 else []
        known_key = K[pname][2] if pname in K else None
        seqs = []
        # every ordered pair of distinct members, once, for one api each (exhaustive over pairs)
        for a, b in itertools.permutations(range(len(members)), 2):
            seqs.append([a, b])
        if len(seqs) > nseq_pool * 2:
            seqs = rng.sample(seqs, nseq_pool * 2)
        elif len(seqs) < nseq_pool:
            # small pools: every ordered pair once per api as well
            seqs = seqs * min(len(apis), 3)
        # longer sequences with repetitions
        for _ in range(nseq_pool):
            seqs.append([rng.randrange(len(members)) for _ in range(rng.randint(3, 4))])
        if not ctx.quick:
            for tr in itertools.permutations(range(min(len(members), 5)), 3):
                seqs.append(list(tr))
        if explicit:
            # the hand-built sequences always run; the random ones are thinned to keep the pool's share
            seqs = rng.sample(seqs, min(len(seqs), nseq_pool)) + [("explicit", e) for e in explicit]
        if pname == "mutable-optimize":
            seqs = [("explicit", e) for e in explicit]      # the in-place modifications only make sense in order
        for sq in seqs:
            if isinstance(sq, tuple):
                apis_here = [a for _, a in sq[1]]
                sq = [m for m, _ in sq[1]]
                for (ma, aa), (mb, ab) in zip(zip(sq, apis_here), zip(sq[1:], apis_here[1:])):
                    if ma == mb and aa == "path" and ab in ("expr", "einsum_expr"):
                        ctx.count("feature:path_then_option_free_expression")
                    if ma == mb and ab == "path" and aa in ("expr", "einsum_expr"):
                        ctx.count("feature:option_free_expression_then_path")
                    if pname == "backend-mix" and members[ma].get("backend") != members[mb].get("backend"):
                        ctx.count("feature:backend_switch_on_one_cache_key:%s->%s" % (
                            members[ma]["backend"], members[mb]["backend"]))
                    if pname == "mutable-optimize" and members[mb].get("mutate"):
                        ctx.count("feature:optimize_object_mutated_between_calls:%s:%s" % (
                            members[mb]["optimize"][8:], members[mb]["mutate"][0].split(":")[0]))
                    if pname == "size-binding" and ma != mb:
                        va = tuple(v for _, v in members[ma]["size_dict"])
                        vb = tuple(v for _, v in members[mb]["size_dict"])
                        same_map = dict(members[ma]["size_dict"]) == dict(members[mb]["size_dict"])
                        if va == vb and not same_map:
                            ctx.count("feature:same_size_sequence_different_binding")
                        if same_map:
                            ctx.count("feature:equal_size_dicts_different_key_order")
                    if pname == "multichar-labels" and ma != mb and aa == ab:
                        ctx.count("feature:multichar_joined_string_collision_pair")
            else:
                mode = rng.random()
                apis_here = [rng.choice(apis)] * len(sq) if mode < 0.6 else [rng.choice(apis) for _ in sq]
            by_cache = {}
            if pname.startswith("unhashable-kwargs"):
                def _unh(m):
                    return any(isinstance(v, (list, dict)) or (isinstance(v, str) and v.endswith("_list"))
                               for v in members[m].get("kwargs", {}).values())
                for a, b in zip(sq, sq[1:]):
                    if _unh(b) and not members[a].get("kwargs"):
                        ctx.count("feature:unhashable_option_after_plain_call")
                    if _unh(a) and not members[b].get("kwargs"):
                        ctx.count("feature:plain_call_after_unhashable_option")
                    if _unh(a) != _unh(b) and members[a].get("kwargs") and members[b].get("kwargs"):
                        ctx.count("feature:unhashable_next_to_hashable_form")
            specs_on = [instantiate(members[m], api, rng, np, cache=True) for m, api in zip(sq, apis_here)]
            # constants pool: the alternative constant
            for s in specs_on:
                if s.get("alt_constant"):
                    for i in s["constants"]:
                        s["arrays"][i] = (np.array(s["arrays"][i]) + 1).tolist()
                        s["arrays2"][i] = s["arrays"][i]
            for cache in (True, False):
                # the very same calls (same arrays), with caching on and then off
                specs = specs_on if cache else [dict(s, cache=False) for s in specs_on]
                try:
                    results = exec_sequence(specs, clear=True)
                except Exception as ex:
                    ctx.fail("harness could not execute a sequence: %r" % (ex,), {"pool": pname, "specs": repr(specs)},
                             found_input=False)
                    continue
                total += 1
                judge_sequence(ctx, pname, specs, results, oracle, np, "in-process cache=%s" % cache,
                               known_key=known_key)
                by_cache[cache] = (specs, results)
                ctx.count("oracle:%s" % pname)
                if cache:
                    hits = sum(1 for s, r in zip(specs, results)
                               if not r.get("exc") and s["api"] not in ("tree", "tree_struct") and r["nbuild"] == 0 and r["nfind"] == 0)
                    if hits:
                        ctx.count("oracle:sequences_with_a_hit")
                ctx.case(("oracle", pname, tuple(sq), tuple(apis_here), cache), nontrivial=len(set(sq)) > 1,
                         sample=None)
            # caching on vs off, call by call: same outcome kind and same dtype
            if known_key is None and True in by_cache and False in by_cache:
                for i, (rc, ru) in enumerate(zip(by_cache[True][1], by_cache[False][1])):
                    differs = (bool(rc.get("exc")) != bool(ru.get("exc")) or rc.get("dtype") != ru.get("dtype")
                               or rc.get("desc") != ru.get("desc"))
                    if not differs and not rc.get("exc") and "cost" in rc and "cost" in ru \
                            and rc["cost"] != ru["cost"]:
                        differs = True
                        rc["desc"], ru["desc"] = "path cost %d" % rc["cost"], "path cost %d" % ru["cost"]
                    if not differs and not rc.get("exc"):
                        for kk in ("value", "value2", "value3"):
                            if kk in rc and not _same_value(rc[kk], ru.get(kk), np):
                                differs = True
                    if differs:
                        ctx.fail("C13 %s: call %d differs with caching on (%s, %s) and off (%s, %s)" % (
                            pname, i, rc.get("exc") or "ok", rc.get("desc") or rc.get("dtype"),
                            ru.get("exc") or "ok", ru.get("desc") or ru.get("dtype")),
                            {"pool": pname, "failing_call": i, "sequence": by_cache[True][0],
                             "results_cache_on": by_cache[True][1], "results_cache_off": by_cache[False][1]})
                        break
            if len(batch_sub) < ctx.n(40, 320) and rng.random() < (0.03 if ctx.quick else 0.02):
                specs = [instantiate(members[m], api, rng, np, cache=True) for m, api in zip(sq, apis_here)]
                batch_sub.append((pname, specs, known_key))
    ctx.log("oracle: %d in-process sequences; %d sequences in fresh interpreters" % (total, len(batch_sub)))
    for (pname, specs, known_key), res, err in run_subprocess_batch(ctx, batch_sub):
        if res is None:
            ctx.fail("fresh-interpreter worker produced no result: %s" % err, {"pool": pname, "specs": repr(specs)},
                     found_input=False)
            continue
        judge_sequence(ctx, pname, specs, res, oracle, np, "fresh interpreter", known_key=known_key)
        ctx.count("oracle:fresh_interpreter")
        ctx.case(("sub", pname, repr(specs)[:200]), nontrivial=True)

    # ---- 4. known findings: active probes --------------------------------------------------
    try:
        probe_known(ctx, ctg, I, np, key_hashed, info)
    except Exception as ex:
        ctx.fail("the known-finding probes raised %r" % (ex,), {"probe": "probe_known"}, found_input=False)

    ctx.coverage["rule"] = (
        "correspondence: random sequences (2-7 calls) over 1-2 small networks per sequence, label styles "
        "str/int/negative int/mixed/1-1.0-True/tuple, each call a random variant (relabelling, output order, one size, "
        "size_dict vs shapes and its order, optimize preset/explicit/list/edge path/function, kwargs subset and order, "
        "lists instead of tuples, cache on/off, canonicalize on/off) or an exact repetition; the cached computation is "
        "replaced by a recording stub; non-trivial = at least one hit and one miss.  oracle: every ordered pair and "
        "random 3-4 sequences of each pool (members differ in one key component), APIs mixed, cache on and off, real "
        "computation, values against a dense einsum on integer arrays; a sample in fresh interpreters")
    ctx.assumptions = [
        "hash_inj (premise of C13_cache_transparent): Python's hash separates the key tuples of the sequence; "
        "refuted for ints by C13_hash_inj_refuted (finding cache-key-hash-collision); for str keys it is "
        "partial: hash-collisions of str (64-bit siphash13) are outside the model",
        "build_respects (premise): _build_expression / find_path read nothing but their arguments and do not "
        "distinguish values that are equal under the key's views (1 / 1.0 / True, list vs tuple path, kwargs order); "
        "global registries (register_preset) and optimizer randomness are outside",
        "frame (premise of C13_expression_is_pure): calling an expression does not write to it; observed on "
        "Contractor objects and closures each run, autojit/Via wrappers are judged by values only",
        "dispatch: hasattr(optimize, 'search') is assumed to be the same for all instances of one class",
        "correspondence is executed, not proved (hand-written model + generated key lists)",
    ]
    ctx.trusted.append("harness/translators/cachekey.py (fail-closed ast translator; output is the readable coq/Gen/CacheKey.v)")
    ctx.trusted.append("CPython's str / object / None hashes are read from the running interpreter, not modelled")


def dispatch_correspondence(ctx, I, ctg, info, rng):
    """find_path / find_tree / hash_prepare_optimize against Model decide + dispatch_outputs"""
    import builtins
    inputs = (("a", "b"), ("b", "c"), ("c", "d"))
    output = ("a", "d")
    sd = {"a": 2, "b": 2, "c": 2, "d": 2}

    class MyStr(str):
        pass

    class MyTuple(tuple):
        pass

    class Searcher:
        def search(self, inputs, output, size_dict, **kw):
            return ctg.ContractionTree.from_path(inputs, output, size_dict, path=_default_path(len(inputs)))

        def __call__(self, inputs, output, size_dict, **kw):
            return _default_path(len(inputs))

    def mkobjs():
        tree = ctg.ContractionTree.from_path(inputs, output, sd, path=_default_path(3))
        return [("greedy", "str"), (MyStr("greedy"), "MyStr"), (((0, 1), (0, 1)), "tuple"), ([(0, 1), (0, 1)], "list"),
                (MyTuple(((0, 1), (0, 1))), "MyTuple"), (tree, "tree"), (_pathfn, "function"), (_PathObj(), "PathObj"),
                (Searcher(), "Searcher"), ("optimal", "str"), (((1, 2), (0, 1)), "tuple"), (_PathObj(), "PathObj")]
    cases = []
    recs = []

    def resolve(n):
        return getattr(builtins, n, None) or getattr(I, n)
    for fname, table, chain_name in (("find_path", "_find_path_handlers", "find_path"),
                                     ("find_tree", "_find_tree_handlers", "find_tree"),
                                     ("hash_prepare_optimize", "_HASH_OPTIMIZE_PREPARERS", "prepare")):
        chain, default = info[chain_name]
        if not isinstance(getattr(I, table, None), dict) or not hasattr(I, fname):
            ctx.fail("dispatch table %s / function %s not found in cotengra.interface" % (table, fname),
                     {"correspondence": "per-class dispatch"}, found_input=False)
            continue
        for rep in range(ctx.n(6, 40)):
            objs = mkobjs()
            rng.shuffle(objs)
            objs = objs[: rng.randint(3, len(objs))]
            getattr(I, table).clear()
            observed = []
            clsids = {}
            lits = []
            for o, nm in objs:
                try:
                    if fname == "hash_prepare_optimize":
                        I.hash_prepare_optimize(o)
                    else:
                        getattr(I, fname)(inputs, output, sd, o)
                except Exception as ex:
                    ctx.count("dispatch_call_raised:%s" % type(ex).__name__)
                h = getattr(I, table).get(o.__class__)
                observed.append(getattr(h, "__name__", repr(h)))
                cid = clsids.setdefault(o.__class__, len(clsids))
                tests = []
                for (kind, arg), _h in chain:
                    if kind == "isinstance":
                        v = isinstance(o, tuple(resolve(n) for n in arg))
                        t = "TIsInstance [%s]" % "; ".join('"%s"' % n for n in arg)
                    else:
                        v = hasattr(o, arg)
                        t = 'THasAttr "%s"' % arg
                    tests.append("(%s, %s)" % (t, "true" if v else "false"))
                lits.append("(mkObj %d (fun t => match find (fun tv => ctest_eqb (fst tv) t) [%s] with "
                            "Some tv => snd tv | None => false end))" % (cid, "; ".join(tests)))
            getattr(I, table).clear()
            cname = {"find_path": "find_path", "find_tree": "find_tree", "prepare": "prepare"}[chain_name]
            lhs = "dispatch_outputs %s_chain %s_default [%s]" % (cname, cname, "; ".join(lits))
            rhs = "[%s]" % "; ".join('Some "%s"' % o for o in observed)
            cases.append(("%s.%d" % (fname, rep), lhs, rhs))
            recs.append({"function": fname, "objects": [nm for _, nm in objs], "observed": observed})
            ctx.count("dispatch:%s" % fname)
    prelude = ("Require Import Coq.Strings.String.\nOpen Scope string_scope.\n"
               "#[export] Instance Eqb_string : Eqb string := String.eqb.\nNotation eqb := Base.eqb.\n")
    failing = ctx.coq_cases("c13d", ["Base", "CacheState", "CacheKey"], cases, chunk=30, prelude=prelude)
    for idx, label, val in failing:
        rec = dict(recs[idx]) if idx < len(recs) else {}
        rec["model_value"] = val
        rec["correspondence"] = "Model decide/dispatch_outputs over the generated chains vs the per-class handler tables"
        ctx.fail("model and implementation disagree on per-class dispatch (%s)" % label, rec, found_input=False)


def probe_known(ctx, ctg, I, np, key_hashed, info):
    """the two known findings, probed on every run; a probe that no longer fails says nothing
    (the KNOWN-FINDING line disappears), a probe that fails although the source no longer has the
    defect's shape is an ordinary violation"""
    # (a) hash collision -1 / -2
    x = np.array([1, 2], dtype=np.int64)
    y = np.array([3, 4], dtype=np.int64)
    sd = {-1: 2, -2: 2}
    clear_tables(I)
    e1 = ctg.array_contract_expression(((-1,), (-2,)), (), size_dict=sd, canonicalize=False)
    e2 = ctg.array_contract_expression(((-1,), (-1,)), (), size_dict=sd, canonicalize=False)
    v1, v2 = int(e1(x, y)), int(e2(x, y))
    a = np.array([[1, 2], [3, 4]], dtype=np.int64)
    b = np.array([[1, 1], [0, 2]], dtype=np.int64)
    clear_tables(I)
    ctg.array_contract([a, b], ((-1, 1), (1, -2)), (-1, -2), canonicalize=False)
    n2 = ctg.array_contract([a, b], ((-2, 1), (1, -1)), (-1, -2), canonicalize=False)
    clear_tables(I)
    ctx.count("probe:collision")
    collided = (e1 is e2) or (v1, v2) != (21, 11) or not np.array_equal(n2, (a @ b).T)
    if collided:
        rep = {"repro": "array_contract_expression(((-1,),(-2,)),(),size_dict={-1:2,-2:2},canonicalize=False) then "
                        "(((-1,),(-1,)), ...): same object=%s values=%r (want (21, 11)); array_contract([a,b],"
                        "((-2,1),(1,-1)),(-1,-2),canonicalize=False) after ((-1,1),(1,-2)) = %r want %r" % (
                            e1 is e2, (v1, v2), n2.tolist(), (a @ b).T.tolist()),
               "theorem": "C13_legacy_key_transparency_refuted / C13_hash_inj_refuted",
               "key_hashed_in_source": key_hashed}
        ctx.fail("two different contractions share a cache entry: hash(-1) == hash(-2) and the dict is keyed on "
                 "hash(tuple)", rep, key=KEY_COLLISION if key_hashed is not False else None)
    # (b) unhashable key in array_contract_path
    ctx.count("probe:unhashable")
    inputs = (("a", "b"), ("b", "c"), ("c", "d"))
    sd3 = {"a": 2, "b": 2, "c": 2, "d": 2}
    want = ctg.array_contract_path(inputs, ("a", "d"), sd3, optimize=[[0, 1], [0, 1]], cache=False)
    try:
        got = ctg.array_contract_path(inputs, ("a", "d"), sd3, optimize=[[0, 1], [0, 1]], cache=True)
        exc = None
    except TypeError as ex:
        got, exc = None, str(ex)
    clear_tables(I)
    if exc is not None or tuple(map(tuple, got)) != tuple(map(tuple, want)):
        fb = info["path"]["fallback"] if info else None
        ctx.fail("array_contract_path(..., optimize=[[0,1],[0,1]]) raises TypeError(%s) with cache=True and returns "
                 "%r with cache=False" % (exc, want),
                 {"repro": "ctg.array_contract_path((('a','b'),('b','c'),('c','d')), ('a','d'), {a,b,c,d:2}, "
                           "optimize=[[0,1],[0,1]])", "cache_true": exc or repr(got), "cache_false": repr(want),
                  "theorem": "C13_unhashable_visible_without_fallback", "typeerror_fallback_in_source": fb},
                 key=KEY_UNHASHABLE if fb is not True else None)


if __name__ == "__main__":
    if sys.argv[1:2] == ["--worker"]:
        worker_main()
    else:
        from vlib.core import main
        main(PROP, run)

"""C17 -- operations that take a seed are deterministic functions of their arguments.

Every run:
  0. regenerate coq/Gen/SeedFlow.v from the current cotengra source (translators/seedflow.py);
  a. compare the public seeded operations the translator found with the two literal lists of
     Props/C17.v and with KNOWN_FINDINGS; build + lint + Print Assumptions (Props/C17.v is
     re-checked against the regenerated graph);
  b. model-vs-code correspondence: in fresh interpreters the module-level `random` and
     `numpy.random` functions are wrapped; for every seeded API call the functions that really
     draw from the global generator are compared with what the graph predicts;
  c. oracle: every seeded API x networks x seeds is run in 6 fresh interpreters with
     PYTHONHASHSEED in {0,1,2,random,...}, the global generators perturbed before every call,
     different histories and job orders; the canonical results must coincide.
"""
import json
import os
import re
import subprocess
import sys
import time

# seeded non-inplace operations on trees exercised by the repeat-on-the-same-object oracle (runners: c17_worker.tree_call)
TREE_APIS = {
    "core.ContractionTree.subtree_reconfigure": ["default", "select_random", "search_random"],
    "core.ContractionTree.subtree_reconfigure_forest": ["default", "select_max_bfs"],
    "core.ContractionTree.slice": ["default"],
    "core.ContractionTree.unslice_rand": ["default"],
    "core.ContractionTree.simulated_anneal": ["default", "sliced"],
    "pathfinders.path_simulated_annealing.simulated_anneal_tree": ["default"],
    "core.ContractionTree.parallel_temper": ["default"],
    "pathfinders.path_simulated_annealing.parallel_temper_tree": ["default"],
    "core.ContractionTree.get_subtree": ["default"],
    "core.ContractionTree.windowed_reconfigure": ["default"],
    "core.ContractionTreeCompressed.simulated_anneal": ["default"],
}
from vlib.core import COQ, REPO, VERIF, main, standard_proof_steps, strip_comments

sys.path.insert(0, os.path.join(VERIF, "harness"))
from translators import seedflow  # noqa: E402

PROP = "C17"
WORKER = os.path.join(VERIF, "harness", "props", "c17_worker.py")
CORPUS = os.path.join(VERIF, "corpus", "C17")

# (api, variant) -> key of the known finding that explains a differing result there
KNOWN_KEY = {
    ("pathfinders.path_labels.labels_to_tree.build_agglom", "default"): "agglom-seed-not-forwarded",
    ("pathfinders.path_kahypar.kahypar_to_tree.build_agglom", "default"): "agglom-seed-not-forwarded",
    ("core.ContractionTree.subtree_reconfigure", "search_random"): "reconf-search-seed-not-forwarded",
    ("core.ContractionTree.subtree_reconfigure_forest", "default"): "forest-seed-not-forwarded",
}
# API (as a whole) -> keys of the known findings that explain why the static check fails for it
KNOWN_API = {
    "pathfinders.path_labels.labels_to_tree.build_agglom": ["agglom-seed-not-forwarded"],
    "pathfinders.path_kahypar.kahypar_to_tree.build_agglom": ["agglom-seed-not-forwarded"],
    "core.ContractionTree.subtree_reconfigure": ["reconf-search-seed-not-forwarded"],
    "core.ContractionTree.subtree_reconfigure_forest": ["forest-seed-not-forwarded", "reconf-search-seed-not-forwarded"],
}
VARIANTS = {
    "core.ContractionTree.subtree_reconfigure": ["default", "select_random", "search_random"],
    "core.ContractionTree.subtree_reconfigure_forest": ["default", "select_max_bfs"],
    "core.ContractionTree.simulated_anneal": ["default", "sliced"],
    "pathfinders.path_simulated_annealing.simulated_anneal_tree": ["default", "sliced"],
    "pathfinders.path_compressed.WindowedOptimizer": ["anneal"],
}
# compressed-contraction code paths need plain networks (no hyper-index, no dangling output index)
SIMPLE_NET = {"core.ContractionTree.windowed_reconfigure", "core.ContractionTreeCompressed.simulated_anneal",
              "pathfinders.path_compressed.WindowedOptimizer", "pathfinders.path_compressed_greedy.GreedyCompressed",
              "pathfinders.path_compressed_greedy.GreedySpan"}
# seeded operations the oracle cannot exercise on this tree, with the reason (they are still in the graph)
NOT_EXERCISED = {
    # (none on the pinned tree; windowed_reconfigure needs plain networks, see SIMPLE_NET)
}
NO_NET = {"utils.lattice_equation", "utils.make_arrays_from_eq", "utils.networkx_graph_to_equation",
          "utils.perverse_equation", "utils.rand_equation", "utils.rand_tree", "utils.randreg_equation",
          "utils.tree_equation", "utils.GumbelBatchedGenerator", "hyperoptimizers.hyper.ComputeScore",
          "hyperoptimizers.hyper_cmaes.LCBOptimizer", "hyperoptimizers.hyper_random.random_init_optimizers",
          "hyperoptimizers.hyper_random.RandomSampler", "hyperoptimizers.hyper_random.RandomSpace"}
SLOW = {"core.ContractionTree.parallel_temper", "pathfinders.path_simulated_annealing.parallel_temper_tree",
        "core.ContractionTree.windowed_reconfigure", "core.ContractionTreeCompressed.simulated_anneal",
        "pathfinders.path_compressed.WindowedOptimizer", "core.ContractionTree.subtree_reconfigure_forest"}

LABEL_POOL = ["a", "b", "c", "d", "e", "f", "g", "h", "i", "j", "k", "l", "m", "n", "o", "p", "q", "r", "s", "t",
              "u", "v", "w", "x", "y", "z", "A", "B", "C", "D", "E", "F", "G", "H", "I", "J", "K", "L", "M", "N",
              "α", "β", "γ", "δ", "ε", "ζ", "η", "θ", "λ", "μ",
              "Ж", "И", "Я", "é", "ø", "ü", "中", "文"]


def rand_net(rng, n, simple=False):
    """a connected network of n tensors with string labels (all different hash behaviour), one or
    two hyper-indices and two output indices; every tensor has rank >= 2"""
    labels = rng.sample(LABEL_POOL, len(LABEL_POOL))
    it = iter(labels)
    terms = [[] for _ in range(n)]
    size = {}
    feats = set()

    def new(d=None):
        ix = next(it)
        size[ix] = d or rng.choice([2, 2, 3, 4])
        return ix
    # a ring plus random chords (3-regular-ish)
    for i in range(n):
        ix = new()
        terms[i].append(ix)
        terms[(i + 1) % n].append(ix)
    for _ in range(n // 2):
        i, j = rng.sample(range(n), 2)
        ix = new()
        terms[i].append(ix)
        terms[j].append(ix)
    for _ in range(0 if simple else rng.choice([1, 2])):
        ix = new()
        for i in rng.sample(range(n), 3):
            terms[i].append(ix)
        feats.add("hyper")
    output = []
    for _ in range(0 if simple else 2):
        ix = new()
        terms[rng.randrange(n)].append(ix)
        output.append(ix)
    if not simple and rng.random() < 0.5:
        hx = [ix for ix in size if sum(ix in t for t in terms) >= 3]
        if hx:
            output.append(hx[0])
            feats.add("hyper_output")
    for t in terms:
        rng.shuffle(t)
    if any(ord(c) > 127 for ix in size for c in ix):
        feats.add("non_ascii_labels")
    return {"inputs": terms, "output": output, "size_dict": size}, feats


# ---------------------------------------------------------------------------
def parse_list(src, name):
    m = re.search(r"Definition\s+%s\s*:\s*list string\s*:=\s*\[(.*?)\]\s*\." % name, src, re.S)
    if not m:
        return None
    return re.findall(r'"([^"]+)"', m.group(1))


def succ(p, s):
    return {"PSeed": s, "PDerived": s, "PConst": True, "PNone": False, "PNothing": False}[p]


def analyse_api(js, api):
    """python mirror of SeedSem.reach_from / entry_ok / culprits (checked against Coq below)"""
    nodes = {n["id"]: n for n in js["nodes"]}
    byname = {n["name"]: n["id"] for n in js["nodes"]}
    seen = set()
    stack = [(i, succ(p, True)) for i, p in api["entries"]]
    culprits = []
    while stack:
        x = stack.pop()
        if x in seen:
            continue
        seen.add(x)
        n = nodes[x[0]]
        for e in n["events"]:
            why = None
            if e[0] == "own" and not x[1]:
                why = "draws from get_rng(None) = the global generator (line %d: .%s)" % (e[2], e[1])
            elif e[0] == "global":
                why = "uses the module-level generator (line %d: %s)" % (e[2], e[1])
            elif e[0] == "hashiter":
                why = "hash-ordered iteration (line %d: %s)" % (e[2], e[1])
            elif e[0] == "call":
                if e[2] == "PDerived" and not x[1]:
                    why = "derives a seed for %s from the global generator (line %d)" % (e[1], e[3])
                stack.append((byname[e[1]], succ(e[2], x[1])))
            if why:
                culprits.append((n["name"], x[1], why))
    return seen, culprits


def runtime_name(n):
    mod = n["file"][len("cotengra/"):-3].replace("/", ".")
    return mod + "." + ((n["cls"].split(".")[-1] + ".") if n["cls"] else "") + n["def_name"]


# ---------------------------------------------------------------------------
def run(ctx):
    gen_v = os.path.join(COQ, "Gen", "SeedFlow.v")
    sidecar = os.path.join(ctx.scratch, "seedflow.json")
    t0 = time.time()
    js = seedflow.translate(REPO, out_v=gen_v, out_json=sidecar)
    ctx.log("translator: %d nodes, %d public seeded operations, %d untranslatable (%.1fs) from %s" % (
        len(js["nodes"]), len(js["apis"]), len(js["untranslatable"]), time.time() - t0, REPO))
    ctx.coverage["correspondence"]["translator"] = {
        "nodes": len(js["nodes"]), "apis": len(js["apis"]), "untranslatable": len(js["untranslatable"]),
        "opaque_calls": sum(1 for n in js["nodes"] for i in n["info"] if i[0].startswith("opaque")),
        "vetted_set_iterations": sum(1 for n in js["nodes"] for i in n["info"] if i[0] == "set_iter_vetted"),
        "draw_nodes": sum(1 for n in js["nodes"] if n["draws_own"]),
    }
    broken = []     # correspondence problems without (yet) a failing input: (what, replay)
    if js["untranslatable"]:
        broken.append(("translator met syntax it cannot classify in a seed/rng position (fail closed)",
                       {"correspondence": "translators/seedflow.py", "untranslatable": js["untranslatable"]}))

    # ---- (a) API lists --------------------------------------------------------
    psrc = strip_comments(open(os.path.join(COQ, "Props", "C17.v")).read())
    exp_ok = parse_list(psrc, "C17_expected_ok") or []
    known_ref = parse_list(psrc, "C17_known_refuted") or []
    found = [a["name"] for a in js["apis"]]
    api_by = {a["name"]: a for a in js["apis"]}
    new_apis = sorted(set(found) - set(exp_ok) - set(known_ref))
    gone = sorted((set(exp_ok) | set(known_ref)) - set(found))
    if new_apis:
        broken.append(("public seeded operation(s) in the source that Props/C17.v does not cover: %s" % new_apis,
                       {"theorem": "C17_apis_covered", "new_apis": new_apis}))
    if gone:
        broken.append(("Props/C17.v lists seeded operation(s) the source no longer has: %s" % gone,
                       {"theorem": "C17_api_deterministic (vacuous for them)", "missing": gone}))
    status = {}
    for a in js["apis"]:
        seen, culprits = analyse_api(js, a)
        status[a["name"]] = {"ok": not culprits, "culprits": culprits, "reach": seen}
    not_ok = sorted(nm for nm, s in status.items() if not s["ok"])
    ctx.log("static check: %d ok, not ok: %s" % (len(status) - len(not_ok), not_ok))
    for nm in not_ok:
        for c in sorted(set(status[nm]["culprits"]))[:4]:
            ctx.log("    %s <- %s [%s] %s" % (nm, c[0], "seeded" if c[1] else "unseeded", c[2]))
    regressed = [nm for nm in not_ok if nm not in known_ref]          # theorem C17_api_deterministic breaks
    now_ok = [nm for nm in known_ref if nm in status and status[nm]["ok"]]
    for nm in now_ok:
        ctx.notes.append("%s is listed in C17_known_refuted but passes the static check on this tree "
                         "(its finding %s looks fixed)" % (nm, KNOWN_API.get(nm)))
    ctx.coverage["static"] = {"ok": len(status) - len(not_ok), "not_ok": {nm: sorted({c[0] for c in status[nm]["culprits"]})
                                                                            for nm in not_ok},
                              "now_ok_but_listed_refuted": now_ok}

    proof_ok = standard_proof_steps(ctx, targets=["Gen/SeedFlow.vo"])
    if proof_ok:
        # the python mirror used for reporting must agree with the Coq definitions
        try:
            outs = ctx.coq_eval(["SeedSem", "SeedFacts", "SeedFlow"], [
                "map (fun e => (fst e, entry_ok graph (snd e))) api_table",
                "map (fun e => (fst e, map (fun x => name_of node_names (fst x)) (culprits graph (snd e)))) api_table"],
                prelude="From Coq Require Import List String.\nImport ListNotations.\nSet Printing Depth 1000000.\nSet Printing Width 100000.")
            coq_ok = dict((nm, v == "true") for nm, v in re.findall(r'\("([^"]+)",\s*(true|false)\)', outs[0]))
            mism = [nm for nm in status if coq_ok.get(nm) != status[nm]["ok"]]
            coq_culp = {}
            for nm, body in re.findall(r'\("([^"]+)",\s*\[(.*?)\]\)', outs[1], re.S):
                coq_culp[nm] = set(re.findall(r'"([^"]+)"', body))
            for nm in status:
                if coq_culp.get(nm, set()) != {c[0] for c in status[nm]["culprits"]}:
                    mism.append(nm + " (culprits)")
            ctx.coverage["correspondence"]["coq_vs_harness_static_check"] = {"cases": len(status), "failing": len(mism)}
            if mism:
                broken.append(("entry_ok/culprits evaluated inside Coq differ from the harness mirror", {"apis": mism}))
        except Exception as e:   # noqa: BLE001
            broken.append(("could not evaluate entry_ok inside Coq: %r" % (e,), {}))
    ctx.assumptions = [
        "cotengra source -> graph: the fail-closed ast translator (harness/translators/seedflow.py) is trusted; its "
        "graph is validated against run-time traces of the global generators on every run",
        "dynamically dispatched callees (optimizers chosen by name, user-supplied partition functions, objects "
        "passed in by the caller) are outside the graph (recorded as opaque calls)",
        "set-typed iteration is recognised syntactically; 7 reviewed sites are vetted as integer-valued / "
        "order-insensitive (VETTED_SET_ITER)",
        "partial: hashseed -- CPython's dict ordering and the hash of non-string keys are assumed as documented; "
        "C extensions (kahypar, numpy Generator, networkx) are trusted to be deterministic given their seed",
    ]
    ctx.trusted.append("harness/translators/seedflow.py (ast translator, fail closed) and harness/props/c17_worker.py "
                       "(tracing wrappers around random / numpy.random)")

    # ---- (b)+(c) jobs -----------------------------------------------------------
    rng = ctx.rng
    nets = []
    for k in range(ctx.n(4, 14)):
        net, feats = rand_net(rng, rng.choice([8, 9, 10, 12]) if k else 12)
        nets.append((net, feats))
    simple_nets = []
    for k in range(ctx.n(2, 4)):
        net, feats = rand_net(rng, rng.choice([7, 8, 9]), simple=True)
        simple_nets.append((net, feats | {"simple_net"}))
    seeds = [rng.randrange(1, 2 ** 31) for _ in range(ctx.n(3, 7))] + [0]
    jobs = []

    def netof(ni):
        return simple_nets[int(ni[1:])] if isinstance(ni, str) and ni.startswith("s") else nets[ni]
    for a in js["apis"]:
        nm = a["name"]
        for variant in VARIANTS.get(nm, ["default"]):
            use_nets = [None] if nm in NO_NET else range(len(nets))
            if nm in SIMPLE_NET:
                use_nets = ["s%d" % k for k in range(len(simple_nets))]
            use_seeds = seeds
            if nm in SLOW and ctx.quick:
                use_nets = list(use_nets)[:2]
                use_seeds = seeds[:2]
            for ni in use_nets:
                for sd in use_seeds:
                    jobs.append({"id": "%s|%s|%s|%d" % (nm, variant, ni, sd), "api": nm, "variant": variant,
                                 "net": None if ni is None else netof(ni)[0], "seed": sd, "neti": ni})
    # "regardless of what was called before": seeded non-inplace operations on trees, called repeatedly on the
    # SAME object (fresh / with history), vs one call on an independent rebuild of the state (see c17_worker)
    HISTS = ["fresh", "reconf", "slice+reconf", "reconf+anneal"]
    api_names = {a["name"] for a in js["apis"]}
    for nm, variants in sorted(TREE_APIS.items()):
        if nm not in api_names:
            continue
        simple = nm in SIMPLE_NET
        use_nets = ["s%d" % k for k in range(len(simple_nets))] if simple else list(range(len(nets)))
        slow = nm in SLOW
        use_nets = use_nets[:1] if (slow and ctx.quick) else use_nets[:ctx.n(2, 6)]
        for variant in variants:
            for hist in (HISTS[:2] if simple else HISTS):
                for ni in use_nets:
                    for sd in seeds[:1 if (slow and ctx.quick) else ctx.n(2, 4)]:
                        jobs.append({"id": "%s|%s|%s|%d|rep:%s" % (nm, variant, ni, sd, hist), "api": nm,
                                     "variant": variant, "net": netof(ni)[0], "seed": sd, "neti": ni, "repeat": hist})
    # seeded operations that accept a pool: FIFO vs LIFO in-line executors vs parallel=False (see c17_worker.run_pool)
    POOL_APIS = {
        "core.ContractionTree.parallel_temper": ["default"],
        "pathfinders.path_simulated_annealing.parallel_temper_tree": ["default"],
        "core.ContractionTree.subtree_reconfigure_forest": ["default", "select_max_bfs"],
        "pathfinders.path_basic.RandomGreedyOptimizer": ["default", "tied-lattice", "tied-ring"],
    }
    for nm, variants in sorted(POOL_APIS.items()):
        if nm not in api_names:
            continue
        for variant in variants:
            tied = variant.startswith("tied")
            for ni in (range(1) if tied else range(len(nets))[:ctx.n(2, 5)]):
                # the tied networks are fixed; seeds 0..7 (2 and 4 are known to tie on the 3x3 lattice)
                for sd in (list(range(ctx.n(8, 24))) if tied else seeds[:ctx.n(2, 4)]):
                    jobs.append({"id": "%s|%s|%s|%d|pool" % (nm, variant, ni, sd), "api": nm, "variant": variant,
                                 "net": netof(ni)[0], "seed": sd, "neti": ni, "pool": True})
    # call -> snapshot -> damage the returned object in place -> call again (see c17_worker.run_mutate): every seeded API
    for a in js["apis"]:
        nm = a["name"]
        if nm in NOT_EXERCISED:
            continue
        for variant in VARIANTS.get(nm, ["default"]):
            use_nets = [None] if nm in NO_NET else (["s0"] if nm in SIMPLE_NET else [0])
            for ni in use_nets:
                for sd in seeds[:1 if nm in SLOW else 2]:
                    jobs.append({"id": "%s|%s|%s|%d|mutate" % (nm, variant, ni, sd), "api": nm, "variant": variant,
                                 "net": None if ni is None else netof(ni)[0], "seed": sd, "neti": ni, "mutate": True})
    # corpus: the repro of every known finding is probed on every run
    corpus = []
    if os.path.isdir(CORPUS):
        for f in sorted(os.listdir(CORPUS)):
            if f.endswith(".json"):
                c = json.load(open(os.path.join(CORPUS, f)))
                c["id"] = "corpus:" + f[:-5]
                corpus.append(c)
                jobs.append({"id": c["id"], "api": c["api"], "variant": c.get("variant", "default"), "net": c.get("net"),
                             "seed": c["seed"], "neti": "corpus"})
    configs = [
        {"name": "hash0", "hashseed": "0", "mode": {"perturb": True}},
        {"name": "hash1", "hashseed": "1", "mode": {"perturb": True, "history": True}},
        {"name": "hash2", "hashseed": "2", "mode": {"perturb": True, "shuffle": True, "single_only": True}},
        {"name": "hashrandom", "hashseed": "random", "mode": {"perturb": True, "history": True, "shuffle": True}},
        {"name": "hashrandom2", "hashseed": "random", "mode": {"perturb": True, "single_only": True}},
        {"name": "hash0b", "hashseed": "0", "mode": {"perturb": True, "history": True, "shuffle": True}},
    ]
    if not ctx.quick:
        configs += [{"name": "hash%d" % k, "hashseed": str(k), "mode": {"perturb": True, "history": k % 2 == 0,
                                                                       "shuffle": True}} for k in (3, 4, 5, 12345)]
    procs = []
    t1 = time.time()
    for cfg in configs:
        jf = os.path.join(ctx.scratch, "jobs_%s.json" % cfg["name"])
        of = os.path.join(ctx.scratch, "out_%s.json" % cfg["name"])
        with open(jf, "w") as f:
            json.dump({"repo": REPO, "mode": dict(cfg["mode"], job_timeout=ctx.n(40, 120)), "jobs": jobs}, f)
        env = dict(os.environ)
        env["PYTHONHASHSEED"] = cfg["hashseed"]
        env["PYTHONPATH"] = REPO
        env.pop("COTENGRA_VERIF", None)
        p = subprocess.Popen(["/venv/bin/python", WORKER, jf, of], env=env, stdout=subprocess.PIPE,
                             stderr=subprocess.PIPE, text=True)
        procs.append((cfg, p, of))
    outs = {}
    deadline = time.time() + ctx.n(900, 3600)
    for cfg, p, of in procs:
        try:
            so, se = p.communicate(timeout=max(5, deadline - time.time()))
        except subprocess.TimeoutExpired:
            p.kill()
            so, se = p.communicate()
            broken.append(("oracle worker %s timed out" % cfg["name"], {"stderr": se[-1500:]}))
            continue
        if p.returncode != 0 or not os.path.exists(of):
            broken.append(("oracle worker %s failed (rc %s)" % (cfg["name"], p.returncode), {"stderr": se[-3000:]}))
            continue
        outs[cfg["name"]] = json.load(open(of))["results"]
    ctx.log("oracle: %d jobs x %d fresh interpreters in %.1fs" % (len(jobs), len(outs), time.time() - t1))
    ctx.coverage["oracle_interpreters"] = sorted(outs)

    node_rt = {}
    for n in js["nodes"]:
        node_rt.setdefault(runtime_name(n), []).append(n)
    reported = set()
    confirmed = {}      # api -> bool: a global draw was seen at run time
    err_apis = {}
    exercised = set()
    for job in jobs:
        jid, nm, variant = job["id"], job["api"], job["variant"]
        recs = {c: outs[c].get(jid) for c in outs if outs[c].get(jid) is not None}
        if len(recs) < 2:
            continue
        canon = {c: json.dumps(r.get("result", {"error": r.get("error")}), sort_keys=True) for c, r in recs.items()}
        distinct = sorted(set(canon.values()))
        errs = {c: r["error"] for c, r in recs.items() if "error" in r}
        draws = [h for r in recs.values() for h in r.get("global_draws", [])]
        draw_fns = sorted({h["stack"][0] for h in draws})
        st = status.get(nm)
        feats = set() if job["neti"] in (None, "corpus") else netof(job["neti"])[1]
        if jid.startswith("corpus:"):
            ctx.count("corpus_probe")
        else:
            ctx.case((nm, variant, job["neti"], job["seed"]), nontrivial=not errs,
                     sample={"api": nm, "variant": variant, "seed": job["seed"], "net": job["net"],
                             "interpreters": len(recs), "distinct_results": len(distinct)}
                     if len(ctx.coverage["samples"]) < 4 and job["net"] else None)
            ctx.count("api:" + nm.split(".")[-1])
            if job.get("repeat"):
                ctx.count("repeat-on-same-object:" + job["repeat"])
            if job.get("mutate"):
                ctx.count("mutate-returned-object")
                if any(isinstance(r.get("result"), dict) and r["result"].get("edits") for r in recs.values()):
                    ctx.count("mutate-returned-object:really-edited")
            if job.get("pool"):
                ctx.count("pool-order:" + nm.split(".")[-1])
                if any(isinstance(r.get("result"), dict) and r["result"].get("pool_used") for r in recs.values()):
                    ctx.count("pool-order:pool-really-used")
                if any(isinstance(r.get("result"), dict) and r["result"].get("tied_best_batches_with_different_paths")
                       for r in recs.values()):
                    ctx.count("pool-order:tied-best-batches-with-different-paths")
            for f in feats:
                ctx.count(f)
        if errs:
            err_apis.setdefault((nm, variant), set()).update(errs.values())
        else:
            exercised.add(nm)
        key = KNOWN_KEY.get((nm, variant))
        replay = {"api": nm, "variant": variant, "net": job["net"], "seed": job["seed"],
                  "how": "harness/props/c17_worker.py run_api(api, variant, net, seed) in fresh interpreters",
                  "results_by_interpreter": {c: json.loads(v) for c, v in canon.items()},
                  "global_generator_used_at": draw_fns,
                  "interpreters": {c["name"]: {"PYTHONHASHSEED": c["hashseed"], **c["mode"]} for c in configs}}
        if draws:
            confirmed[nm] = True
        # (c) oracle: same arguments + same seed => same result
        inside_flag = any(isinstance(r.get("result"), dict) and (r["result"].get("POOL_ORDER_MATTERS") or
                                                                 r["result"].get("RESULT_DEPENDS_ON_EARLIER_CALLERS") or
                                                                 r["result"].get("REPEATED_CALLS_DIFFER"))
                          for r in recs.values())
        if len(distinct) > 1 or inside_flag:
            ctx.count("nondeterministic_jobs")
            rk = (nm, variant, "res" + (":rep" if job.get("repeat") else "") + (":pool" if job.get("pool") else "")
                  + (":mut" if job.get("mutate") else ""))
            if rk not in reported:
                reported.add(rk)
                reported.add((nm, variant, "res"))
                if job.get("mutate"):
                    replay["how"] = ("harness/props/c17_worker.py run_mutate(api, variant, net, seed): call, snapshot, edit the "
                                     "returned object in place, call again with identical arguments")
                    ctx.fail("seeded call is not a function of its arguments and seed: after the object returned by %s [%s] "
                             "was edited in place, the same call returns the edited object" % (nm, variant),
                             replay, key=None, found_input=True)
                elif job.get("pool"):
                    replay["how"] = ("harness/props/c17_worker.py run_pool(api, variant, net, seed): the same call with "
                                     "parallel = an in-line FIFO executor, a LIFO one, FIFO again, and parallel=False")
                    ctx.fail("seeded call depends on the order in which the supplied pool runs its tasks: %s [%s] gives "
                             "different results under a FIFO and a LIFO in-line executor / parallel=False" % (nm, variant),
                             replay, key=None, found_input=True)
                elif job.get("repeat"):
                    replay["history"] = job["repeat"]
                    replay["how"] = ("harness/props/c17_worker.py run_repeat(api, variant, net, seed, history): the call is "
                                     "made three times on ONE object built by build_state (twice in a row, once more after "
                                     "other seeded calls) and once on an independent rebuild; interpreters with single_only "
                                     "make only the latter")
                    inside = any(isinstance(v, dict) and v.get("REPEATED_CALLS_DIFFER")
                                 for v in replay["results_by_interpreter"].values())
                    ctx.fail("seeded call depends on what was called before: %s [%s] on a tree with history %r gives "
                             "different results %s" % (nm, variant, job["repeat"],
                                                       "when repeated on the same object" if inside else
                                                       "in different interpreters"), replay, key=None, found_input=True)
                else:
                    ctx.fail("seeded call gives different results in fresh interpreters (same arguments, same seed): %s [%s]"
                             % (nm, variant), replay, key=key, found_input=True)
        # (b) graph vs run time
        if st is not None and draws:
            predicted = {runtime_name_of for c in st["culprits"] for runtime_name_of in
                         [runtime_name([n for n in js["nodes"] if n["name"] == c[0]][0])]}
            if st["ok"]:
                if (nm, variant, "trace") not in reported:
                    reported.add((nm, variant, "trace"))
                    replay2 = dict(replay, correspondence="graph says %s never uses the global generator; "
                                   "run-time trace shows a draw" % nm, stacks=[h["stack"][:6] for h in draws[:3]])
                    ctx.fail("the global generator is used during a seeded call although the graph predicts it is not: "
                             "%s at %s" % (nm, draw_fns), replay2, key=key, found_input=len(distinct) > 1)
            else:
                extra = [f for f in draw_fns if f not in predicted]
                if extra and (nm, variant, "extra") not in reported:
                    reported.add((nm, variant, "extra"))
                    broken.append(("run-time draw from the global generator at a function the graph does not predict",
                                   dict(replay, unpredicted=extra, predicted=sorted(predicted))))
                if key is not None and len(distinct) == 1 and (nm, variant, "draw") not in reported:
                    reported.add((nm, variant, "draw"))
                    # the defect is present (the seeded call consumes the global generator) even though
                    # these few runs happened to agree
                    ctx.fail("seeded call draws from the global generator: %s" % nm, replay, key=key, found_input=True)
    # generator floor: the tie-break of a reduction over batch results is only exercised when batches tie
    if outs and "pathfinders.path_basic.RandomGreedyOptimizer" in api_names and \
            not ctx.coverage["features"].get("pool-order:tied-best-batches-with-different-paths"):
        broken.append(("generator floor not met: no pool case in which >= 2 batches tie at the best cost with different "
                       "paths (the order-dependence of the reduction over batches is not exercised)", {}))
    for (nm, variant), es in sorted(err_apis.items()):
        ctx.notes.append("API %s [%s] raised in some jobs: %s" % (nm, variant, sorted(es)[:2]))
        ctx.count("jobs_with_errors")
    never = sorted(set(found) - exercised - set(NOT_EXERCISED))
    for nm in sorted(set(NOT_EXERCISED) & set(found)):
        if nm in exercised:
            ctx.notes.append("%s is listed as not exercisable but ran fine in this run" % nm)
        else:
            ctx.notes.append("not exercised at run time: %s (%s)" % (nm, NOT_EXERCISED[nm]))
    if never and outs:
        broken.append(("seeded operation(s) never exercised successfully by the oracle (no runner / always raising): %s" % never,
                       {"apis": never, "errors": {"%s|%s" % k: sorted(v)[:2] for k, v in err_apis.items()}}))
    # static not-ok without a known finding: the theorem C17_api_deterministic no longer holds
    for nm in regressed:
        hit = [r for r in reported if r[0] == nm and r[2] == "res"]
        culp = sorted(set(status[nm]["culprits"]))[:6]
        if not hit:
            broken.append(("static check fails for %s (no known finding): %s" % (nm, [c[0] + ": " + c[2] for c in culp]),
                           {"theorem": "C17_api_deterministic", "api": nm, "culprits": culp,
                            "runtime_global_draw_seen": bool(confirmed.get(nm))}))
    for nm in not_ok:
        if nm in known_ref and not confirmed.get(nm) and outs:
            ctx.notes.append("static check fails for %s but no run-time draw from the global generator was seen "
                             "in this run" % nm)
    # known findings whose repro no longer fails
    for c in corpus:
        k = c.get("key")
        if k and k not in ctx.known_hits and ctx.known_key(k):
            ctx.notes.append("repro corpus/C17/%s.json no longer fails: known finding %s looks fixed" % (c["id"][7:], k))
    for what, rep in broken:
        ctx.fail(what, rep, found_input=False)
    ctx.coverage["rule"] = (
        "every public seeded operation found by the translator (x its variants) x %d generated string-labelled "
        "networks (8-12 tensors, ring + chords, hyper-indices, non-ASCII and mixed-case labels, 2-3 output indices) "
        "x %d seeds, each run in %d fresh interpreters (PYTHONHASHSEED 0/1/2/random, global generators re-seeded "
        "from os.urandom before every call, random decoy calls, shuffled job order); a case = (api, variant, "
        "network, seed); non-trivial = ran without raising; generators without a network argument use seeds only"
        % (len(nets), len(seeds), len(configs)))


if __name__ == "__main__":
    main(PROP, run)

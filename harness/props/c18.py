"""C18 -- internal cost simulators agree; optimizers report the cost of what they return.

Correspondence: one random SSA path is replayed step by step through the four REAL
simulators (ContractionTree getters, HyperGraph.contract/node_size/contract_pair_cost,
ContractionProcessor.contract_nodes/compute_size/compute_flops, compute_contracted_info)
and through the Coq models (Model/Net.v, Model/HGraph.v, Model/Simulators.v, evaluated by
vm_compute); plus a scripted run of the processor's simplify passes compared state by state.
Oracle: every simulator's per-step index set / size / flops against the independent
definition in vlib.oracle.spec_costs, and the costs reported by RandomGreedyOptimizer /
optimize_random_greedy_track_flops / ReusableRandomGreedyOptimizer against the tree built
from the returned path."""
import math
import signal
import warnings

from vlib import gen, oracle
from vlib.core import Raw, Z, coq, main, standard_proof_steps, tree_lit

PROP = "C18"
KEY_BATCH = "rgreedy-batch-flops"


class _Timeout(Exception):
    pass


def _alarm(signum, frame):
    raise _Timeout()


def guarded(fn, seconds=20):
    """run a (bounded) cotengra call under an alarm so that a hang cannot stall the check"""
    old = signal.signal(signal.SIGALRM, _alarm)
    signal.alarm(seconds)
    try:
        return fn()
    finally:
        signal.alarm(0)
        signal.signal(signal.SIGALRM, old)


def nested_from_ssa(n, path):
    nodes = {i: i for i in range(n)}
    nxt = n
    for i, j in path:
        nodes[nxt] = (nodes.pop(i), nodes.pop(j))
        nxt += 1
    (t,) = nodes.values()
    return t


def has_repeat(inputs):
    return any(len(set(t)) != len(t) for t in inputs)


def dangling(inputs, output):
    """indices that live on exactly one tensor (once) and are not in the output"""
    res = set()
    for ix in {ix for t in inputs for ix in t}:
        if ix not in output and sum(t.count(ix) for t in inputs) == 1:
            res.add(ix)
    return res


def batch_indices(inputs):
    """independent predicate for finding 13: indices that sit on every tensor"""
    if len(inputs) < 2:
        return set()
    return set.intersection(*[set(t) for t in inputs])


def pops_lit(ops):
    out = []
    for o in ops:
        if isinstance(o, tuple):
            out.append("OpContract %d %d" % o)
        else:
            out.append(o)
    return "[" + "; ".join(out) + "]"


def proc_obs(cp):
    return ([(i, [(ix, c) for ix, c in legs]) for i, legs in cp.nodes.items()],
            [(ix, list(d)) for ix, d in cp.edges.items()],
            cp.ssa, [list(s) for s in cp.ssa_path], Z(cp.flops))


def reported_vs_tree(ctx, what, reported_log10, tree, inputs, output, size_dict, extra):
    """exact integer comparison of a reported log10-flops figure with the tree's flops"""
    F = tree.total_flops()
    rep = 10 ** reported_log10
    R = round(rep)
    rec = dict(extra, inputs=inputs, output=output, size_dict=size_dict, call=what,
               reported_flops=rep, tree_flops=F, path=[list(p) for p in tree.get_ssa_path()])
    if abs(rep - R) > 1e-6 * max(1, R):
        ctx.fail("%s reports a non-integral flop count %r" % (what, rep), rec)
        return
    if R == F:
        ctx.count("reported_ok")
        return
    b = batch_indices(inputs)
    factor = oracle.prod(size_dict[ix] for ix in b)
    if b and R * factor == F:
        ctx.count("reported_batch_mismatch")
        ctx.fail("%s reports flops %d but the returned tree costs %d (indices %s on all tensors are dropped "
                 "by simplify_batch before flops are tracked)" % (what, R, F, sorted(b)), rec, key=KEY_BATCH)
    else:
        ctx.fail("%s reports flops %d but the returned tree costs %d" % (what, R, F), rec)


def reusable_sequences(ctx, ctg, rng):
    """SEQUENCES of different contractions through ONE reusable optimizer object: for every query the
    stored score / reported flops must be the cost of the tree rebuilt from the stored path ON THE
    QUERIED contraction, and the returned tree must be a tree of the queried contraction.
    (RandomGreedyOptimizer itself is documented as 'a stateful optimizer that should not be re-used on
    different contractions', so direct reuse of one instance is not judged.)"""
    import os
    import tempfile
    nseq = ctx.n(10, 80)
    for si in range(nseq):
        # 3-4 different contractions, same and different tensor counts, cheapest first
        nets = []
        n0 = rng.randint(3, 5)
        for k in range(rng.randint(3, 4)):
            N = n0 if (k < 2 or rng.random() < 0.5) else rng.randint(3, 6)
            for _ in range(50):
                inputs, output, size_dict = gen.rand_net(rng, nmin=N, nmax=N, ordinary=True, p_disconnected=0.0,
                                                         p_size1=0.0, dmax=4)
                if all(len(t) > 0 for t in inputs) and (inputs, output) not in [(a, b) for a, b, _ in nets]:
                    break
            nets.append((inputs, output, size_dict))

        def cheap(net):
            o = ctg.RandomGreedyOptimizer(max_repeats=2, seed=0, accel=False, parallel=False)
            return o.search(*net).total_flops()
        nets.sort(key=cheap)
        kind = ("rgreedy-mem", "rgreedy-dir", "hyper-mem", "hyper-dir")[si % 4]
        tmp = tempfile.mkdtemp(prefix="c18_reuse_", dir=ctx.scratch) if kind.endswith("dir") else None
        seed = rng.randrange(2 ** 30)
        if kind.startswith("rgreedy"):
            ropt = ctg.ReusableRandomGreedyOptimizer(max_repeats=3, seed=seed, accel=False, parallel=False, directory=tmp)
        else:
            ropt = ctg.ReusableHyperOptimizer(methods=["greedy"], max_repeats=3, optlib="random", parallel=False,
                                              progbar=False, seed=seed, minimize="flops", directory=tmp)
        ctx.count("reuse_seq:" + kind)
        history = []
        for qi, (inputs, output, size_dict) in enumerate(nets):
            history.append({"inputs": inputs, "output": output, "size_dict": size_dict})
            rec = {"optimizer": kind, "seed": seed, "queries_so_far": list(history), "query_index": qi}
            try:
                t1 = guarded(lambda: ropt.search(inputs, output, size_dict), 60)
                h, missing = ropt.hash_query(inputs, output, size_dict)
                if missing:
                    ctx.fail("reusable optimizer (%s): the contraction just searched is missing from the cache" % kind, rec)
                    continue
                con = ropt._cache[h]
                path = [tuple(p_) for p_ in con["path"]]
                if not oracle.path_is_valid_linear(len(inputs), path):
                    ctx.fail("reusable optimizer (%s): the stored path %r is not a complete path of the queried "
                             "%d-tensor contraction" % (kind, path, len(inputs)), rec)
                    continue
                rebuilt = ctg.ContractionTree.from_path(inputs, output, size_dict, path=path)
                F = rebuilt.total_flops()
                if [tuple(t) for t in t1.inputs] != [tuple(t) for t in inputs] or t1.N != len(inputs) \
                        or not oracle.tree_is_complete(t1):
                    ctx.fail("reusable optimizer (%s): the returned tree is not a complete tree of the queried "
                             "contraction" % kind, rec)
                    continue
                if t1.total_flops() != F:
                    ctx.fail("reusable optimizer (%s): returned tree costs %r, the stored path costs %r on the queried "
                             "contraction" % (kind, t1.total_flops(), F), rec)
                if kind.startswith("rgreedy"):
                    rep = 10 ** con["score"]
                    if abs(rep - round(rep)) > 1e-6 * max(1, round(rep)) or round(rep) != F:
                        ctx.fail("ReusableRandomGreedyOptimizer (%s): stored score says %r flops, the tree built from the "
                                 "stored path on the queried contraction costs %r" % (kind, rep, F), rec)
                else:
                    want = ctg.ContractionTree.from_path(inputs, output, size_dict, path=path,
                                                         objective="flops").get_score()
                    if abs(con["score"] - want) > 1e-9 * max(1.0, abs(want)):
                        ctx.fail("ReusableHyperOptimizer (%s): stored score %r, score recomputed for the stored path on "
                                 "the queried contraction %r" % (kind, con["score"], want), rec)
                # cache hit: same answer again
                t2 = guarded(lambda: ropt.search(inputs, output, size_dict), 60)
                if t2.total_flops() != F:
                    ctx.fail("reusable optimizer (%s): a cache hit returns a tree of cost %r, the stored path costs %r" % (
                        kind, t2.total_flops(), F), rec)
                ctx.count("reuse_queries")
            except _Timeout:
                ctx.fail("reusable optimizer (%s) did not return within 60 s" % kind, rec)
            except Exception as e:
                ctx.fail("reusable optimizer (%s) raised %r on a query of a sequence" % (kind, e), rec)


def same_contraction_repeats(ctx, ctg, rng, inputs, output, size_dict, rec):
    """ONE RandomGreedyOptimizer called several times on the SAME contraction (supported: it continues
    the search), cycling through __call__, ssa_path and search with one trial per call and a high
    temperature: after EVERY call best_flops must be the cost of the tree built from the path just
    returned (and, right after search, of opt.tree)."""
    seed = rng.randrange(2 ** 30)
    opt = ctg.RandomGreedyOptimizer(max_repeats=1, temperature=(0.5, 4.0), costmod=(0.1, 4.0), seed=seed,
                                    accel=False, parallel=False)
    calls = []
    for k in range(rng.randint(4, 6)):
        how = ("call", "ssa_path", "search")[(k + seed) % 3]
        calls.append(how)
        r2 = dict(rec, seed=seed, calls=list(calls))
        try:
            if how == "call":
                path = guarded(lambda: opt(inputs, output, size_dict))
                tree = ctg.ContractionTree.from_path(inputs, output, size_dict, path=[tuple(p_) for p_ in path])
            elif how == "ssa_path":
                sp = guarded(lambda: opt.ssa_path(inputs, output, size_dict))
                tree = ctg.ContractionTree.from_path(inputs, output, size_dict, ssa_path=[tuple(p_) for p_ in sp])
            else:
                tree = guarded(lambda: opt.search(inputs, output, size_dict))
                if opt.tree is not tree and opt.tree.total_flops() != tree.total_flops():
                    ctx.fail("RandomGreedyOptimizer.tree is not the tree search() returned", r2)
        except _Timeout:
            ctx.fail("RandomGreedyOptimizer did not return within 20 s", r2)
            return
        except Exception as e:
            ctx.fail("RandomGreedyOptimizer raised %r when called again on the same contraction" % (e,), r2)
            return
        F = tree.total_flops()
        rep = 10 ** opt.best_flops
        if abs(rep - round(rep)) > 1e-6 * max(1, round(rep)) or round(rep) != F:
            ctx.fail("RandomGreedyOptimizer called %d times on the same contraction (last: %s): best_flops says %r, the tree "
                     "built from the path just returned costs %r" % (len(calls), how, rep, F),
                     dict(r2, reported_flops=rep, tree_flops=F, returned_path=[list(p_) for p_ in tree.get_ssa_path()]))
            return
        ctx.count("repeat_calls")


def run(ctx):
    if not standard_proof_steps(ctx):
        return
    import cotengra as ctg
    from cotengra.hypergraph import HyperGraph
    from cotengra.pathfinders import path_basic as pb
    from cotengra.pathfinders.path_simulated_annealing import compute_contracted_info

    warnings.simplefilter("ignore")
    rng = ctx.rng
    # which ContractionProcessor is under test: the pinned one, or the one with
    # proposed_fixes/C18_rgreedy-batch-flops.patch applied (flops scaled by batch_factor)
    fixed = "batch_factor" in pb.ContractionProcessor.__slots__
    PINIT = "proc_init_fixed" if fixed else "proc_init"
    ctx.meta["processor_variant"] = PINIT
    ncases = ctx.n(260, 4000)
    cases_tree, cases_ann, cases_proc, cases_hg, cases_script, cases_batch, cases_chain = [], [], [], [], [], [], []
    records = []

    for ci in range(ncases):
        ordinary = rng.random() < 0.45
        inputs, output, size_dict = gen.rand_net(rng, nmin=2, nmax=6 if ctx.quick else 8, ordinary=ordinary)
        # deliberately add the features the simulators are known to treat differently
        r = rng.random()
        if r < 0.2:      # an index on every tensor (batch index), sometimes also an output
            s = gen.SYMS[len(size_dict)]
            size_dict[s] = rng.randint(2, 3)
            inputs = [tuple(list(t) + [s]) for t in inputs]
            if rng.random() < 0.5:
                output = tuple(list(output) + [s])
        elif r < 0.3:    # two tensors with identical index sets (hadamard pair)
            k = rng.randrange(len(inputs))
            inputs = list(inputs) + [tuple(inputs[k])]
        N = len(inputs)
        path = gen.rand_ssa_path(rng, N)
        feats = gen.net_features(inputs, output, size_dict)
        rep_ = has_repeat(inputs)
        dang = dangling(inputs, output)
        for f in feats:
            ctx.count(f)
        if dang:
            ctx.count("dangling")
        rec = {"inputs": inputs, "output": output, "size_dict": size_dict, "ssa_path": [list(p) for p in path]}
        records.append(rec)
        ctx.case((inputs, output, tuple(sorted(size_dict.items())), path),
                 nontrivial=N >= 3 and bool(feats & {"hyper", "repeat", "out_shared", "on_all", "leaf_only"}),
                 sample=rec if ci < 3 else None)
        netl = gen.net_lit(inputs, output, size_dict)
        nested_mine = nested_from_ssa(N, path)
        bad = None
        try:
            # ---------------- simulator 1: the tree ---------------------------------
            tree = ctg.ContractionTree.from_path(inputs, output, size_dict, ssa_path=path)
            nested = gen.tree_nested(tree)
            rows = []
            for nd in gen.nested_postorder(nested):
                p = frozenset(gen.nested_leaves(nd))
                rows.append((gen.nested_leaves(nd),
                             [(gen.IDX[k], v) for k, v in tree.get_legs(p).items()],
                             ([(gen.IDX[k], v) for k, v in tree.get_involved(p).items()],
                              (Z(tree.get_size(p)), Z(tree.get_flops(p))))))
            cases_tree.append(("tree%d" % ci, "node_table %s [] %s" % (netl, tree_lit(nested)), coq(rows)))

            # ---------------- simulator 4: the annealing move evaluator --------------
            arows = []
            ann = {}
            for nd in gen.nested_postorder(nested):
                l = frozenset(gen.nested_leaves(nd[0]))
                r_ = frozenset(gen.nested_leaves(nd[1]))
                lg, cost, size = compute_contracted_info(tree.get_legs(l), tree.get_legs(r_),
                                                         tree.appearances, tree.size_dict)
                ann[l | r_] = (lg, cost, size)
                arows.append(([(gen.IDX[k], v) for k, v in lg.items()], (Z(cost), Z(size))))
            cases_ann.append(("anneal%d" % ci, "anneal_rows %s %s" % (netl, tree_lit(nested)), coq(arows)))

            # ---------------- simulator 3: the processor -----------------------------
            cp = pb.ContractionProcessor(inputs, output, size_dict, track_flops=True)
            obs0 = proc_obs(cp)
            imap = dict(cp.indmap)
            inv = {v: k for k, v in imap.items()}
            cp.simplify_single_terms()
            obs1 = proc_obs(cp)
            cur = {i: i for i in range(N)}
            nxt = N
            for s in cp.ssa_path:
                cur[s[0]] = nxt
                nxt += 1
            ppath = []
            prow = []
            pstep = {}
            S = {i: frozenset([i]) for i in range(N)}
            for step, (i, j) in enumerate(path):
                a, b = cur[i], cur[j]
                f0 = cp.flops
                k = cp.contract_nodes(a, b)
                nxt0 = N + step
                cur[nxt0] = k
                S[nxt0] = S[i] | S[j]
                ppath.append((a, b))
                legs = cp.nodes[k]
                sz_ = pb.compute_size(legs, cp.sizes)
                prow.append((k, [(ix, c) for ix, c in legs], (Z(sz_), Z(cp.flops - f0))))
                pstep[S[nxt0]] = ({inv[ix]: c for ix, c in legs}, sz_, cp.flops - f0)
            if not rep_:
                # hypotheses of C18_fixed_run_reports_unsimplified_flops, and its conclusion, on this case
                cases_batch.append(("batch%d" % ci,
                                    "(proc_ok_b (proc_init_fixed {n} true) && present_b (batch_indices (proc_init_fixed {n} true)) "
                                    "(proc_init_fixed {n} true) {p}, Z.eqb (pflops_acc (run_path (proc_simplify_batch "
                                    "(proc_init_fixed {n} true)) {p})) (pflops_acc (run_path (proc_init_fixed {n} true) {p})))".format(
                                        n=netl, p=coq(list(path))), "(true, true)"))
            if not rep_ and not dang:
                # hypotheses and conclusion of C18_reported_flops_eq_tree_flops on this case
                cases_chain.append(("chain%d" % ci,
                                    "(init_lr_b {n} (proc_init_fixed {n} true), match ssa_tree (NN {n}) {p} with "
                                    "Some t => Z.eqb (reported_flops_gen true {n} {p}) (total_flops {n} [] t) "
                                    "| None => false end)".format(n=netl, p=coq(list(path))), "(true, true)"))
            cases_proc.append(("proc%d" % ci,
                               "(proc_obs ({I} {n} true), (proc_obs (proc_simplify_single ({I} {n} true)), "
                               "(proc_replay (proc_simplify_single ({I} {n} true)) {p}, "
                               "proc_edges_ok_b ({I} {n} true))))".format(
                                   n=netl, p=coq(ppath), I=PINIT),
                               coq((obs0, obs1, prow, True))))

            # scripted run of the simplify passes followed by random contractions
            cp2 = pb.ContractionProcessor(inputs, output, size_dict, track_flops=True)
            ops, trace = [], []
            for name, meth in (("OpBatch", cp2.simplify_batch), ("OpSingle", cp2.simplify_single_terms),
                               ("OpScalars", cp2.simplify_scalars)):
                if rng.random() < 0.8:
                    meth()
                    ops.append(name)
                    trace.append(proc_obs(cp2))
            while len(cp2.nodes) > 1:
                a, b = rng.sample(list(cp2.nodes), 2)
                cp2.contract_nodes(a, b)
                ops.append((a, b))
                trace.append(proc_obs(cp2))
            cases_script.append(("script%d" % ci, "proc_trace (%s %s true) %s" % (PINIT, netl, pops_lit(ops)),
                                 coq(trace)))
            ctx.count("script_ops", len(ops))

            # ---------------- simulator 2: the hypergraph ----------------------------
            hstep = {}
            if not rep_:
                hg = HyperGraph(inputs, output, size_dict)
                hrow = []
                S2 = {i: frozenset([i]) for i in range(N)}
                for (i, j) in path:
                    cost = hg.contract_pair_cost(i, j)
                    cand = hg.candidate_contraction_size(i, j)
                    cinds = tuple(hg.compute_contracted_inds((i, j)))
                    k = hg.contract(i, j)
                    S2[k] = S2[i] | S2[j]
                    hrow.append((k, [gen.IDX[e] for e in hg.nodes[k]], (Z(hg.node_size(k)), Z(cost))))
                    hstep[S2[k]] = (set(hg.nodes[k]), hg.node_size(k), cost, S2[i], S2[j])
                    if cand != hg.node_size(k) or set(cinds) != set(hg.nodes[k]):
                        bad = "HyperGraph.candidate_contraction_size/compute_contracted_inds (%r, %r) disagree with " \
                              "contract (%r, %r)" % (cand, cinds, hg.node_size(k), hg.nodes[k])
                cases_hg.append(("hg%d" % ci, "hg_replay (hg_init (inputs {n}) (output {n}) (szd {n})) {p}".format(
                    n=netl, p=coq(list(path))), coq(hrow)))
                ctx.count("hypergraph_runs")
        except _Timeout:
            raise
        except Exception as e:
            ctx.fail("a simulator raised on a valid network/path: %r" % (e,), rec)
            continue

        # ---------------- oracle: all four against the definition ------------------
        spec = oracle.spec_costs(inputs, output, size_dict, nested_mine)
        for (Sx, surv, invd, size, flops) in spec["rows"]:
            isroot = len(Sx) == N
            tl, ts, tf = tree.get_legs(Sx), tree.get_size(Sx), tree.get_flops(Sx)
            if set(tl) != surv or ts != size or tf != flops:
                bad = "tree differs from the definition at %s" % sorted(Sx)
            al, ac, asz = ann[Sx]
            if set(al) != surv or ac != flops or asz != size:
                bad = "compute_contracted_info (%r, %r, %r) differs from the definition (%r, %r, %r) at %s" % (
                    al, ac, asz, sorted(surv), flops, size, sorted(Sx))
            if not isroot and list(al.items()) != list(tl.items()):
                bad = "compute_contracted_info legs %r differ from the tree legs %r at %s" % (al, tl, sorted(Sx))
            plg, psz, pfl = pstep[Sx]
            if set(plg) != surv or psz != size or pfl != flops:
                bad = "processor (%r, %r, %r) differs from the definition (%r, %r, %r) at %s" % (
                    plg, psz, pfl, sorted(surv), size, flops, sorted(Sx))
            if not isroot and plg != dict(tl):
                bad = "processor counts %r differ from the tree counts %r at %s" % (plg, dict(tl), sorted(Sx))
            if not rep_:
                hinds, hsz, hcost, Sl, Sr = hstep[Sx]
                # a leaf keeps its dangling indices in the hypergraph (no preprocessing there)
                extra = oracle.prod(size_dict[ix] for c in (Sl, Sr) if len(c) == 1
                                    for ix in set(inputs[next(iter(c))]) & dang)
                if hinds != surv or hsz != size or hcost != flops * extra:
                    bad = "hypergraph (%r, %r, %r) differs from the definition (%r, %r, %r x %r) at %s" % (
                        sorted(hinds), hsz, hcost, sorted(surv), size, flops, extra, sorted(Sx))
        if cp.flops != spec["flops"]:
            bad = "processor total flops %r differ from the definition %r" % (cp.flops, spec["flops"])
        if bad:
            ctx.fail(bad, rec)

        # ---------------- reported costs -------------------------------------------
        if ci % 2 == 0:
            try:
                seed = rng.randrange(2 ** 30)
                opt = ctg.RandomGreedyOptimizer(max_repeats=4, seed=seed, accel=False, parallel=False)
                t2 = guarded(lambda: opt.search(inputs, output, size_dict))
                reported_vs_tree(ctx, "RandomGreedyOptimizer.best_flops", opt.best_flops, t2, inputs, output,
                                 size_dict, {"seed": seed})
                p3, f3 = guarded(lambda: pb.optimize_random_greedy_track_flops(
                    inputs, output, size_dict, ntrials=3, seed=seed, use_ssa=True))
                t3 = ctg.ContractionTree.from_path(inputs, output, size_dict, ssa_path=p3)
                reported_vs_tree(ctx, "optimize_random_greedy_track_flops", f3, t3, inputs, output, size_dict,
                                 {"seed": seed})
                if not rep_ and not dang and not any(len(t) == 0 for t in inputs):
                    # already simplified input: simplify=False is supported and must be exact
                    p4, f4 = guarded(lambda: pb.optimize_random_greedy_track_flops(
                        inputs, output, size_dict, ntrials=2, seed=seed, use_ssa=True, simplify=False))
                    t4 = ctg.ContractionTree.from_path(inputs, output, size_dict, ssa_path=p4)
                    ctx.count("nosimplify_runs")
                    if round(10 ** f4) != t4.total_flops():
                        ctx.fail("optimize_random_greedy_track_flops(simplify=False) reports %r, tree costs %r" % (
                            10 ** f4, t4.total_flops()), dict(rec, seed=seed))
                if N >= 4:
                    same_contraction_repeats(ctx, ctg, rng, inputs, output, size_dict, rec)
                if ci % 6 == 0:
                    ropt = ctg.ReusableRandomGreedyOptimizer(max_repeats=3, seed=seed, accel=False, parallel=False,
                                                             directory=None)
                    t5 = guarded(lambda: ropt.search(inputs, output, size_dict))
                    _, con = ropt._maybe_run_optimizer(inputs, output, size_dict)
                    t6 = ropt.search(inputs, output, size_dict)     # reconstructed from the cache
                    if t6.total_flops() != t5.total_flops():
                        ctx.fail("reusable random-greedy: cached path costs %r, first answer %r" % (
                            t6.total_flops(), t5.total_flops()), dict(rec, seed=seed))
                    reported_vs_tree(ctx, "ReusableRandomGreedyOptimizer stored score", con["score"], t6,
                                     inputs, output, size_dict, {"seed": seed})
                    ctx.count("reusable_runs")
            except _Timeout:
                ctx.fail("random-greedy optimizer did not return within 20 s", rec)
            except Exception as e:
                ctx.fail("random-greedy optimizer raised %r" % (e,), rec)

    # ---- the pinned probe of finding 13 (runs every time) -------------------------
    for eq, sz in (("abx,bcx,cdx->x", dict(a=2, b=2, c=2, d=2, x=7)), ("ab,bc->ac", dict(a=2, b=3, c=5))):
        lhs, out = eq.split("->")
        pin, pout = [tuple(t) for t in lhs.split(",")], tuple(out)
        opt = ctg.RandomGreedyOptimizer(max_repeats=2, seed=0, accel=False, parallel=False)
        t = opt.search(pin, pout, sz)
        reported_vs_tree(ctx, "RandomGreedyOptimizer.best_flops", opt.best_flops, t, pin, pout, sz, {"probe": eq})
    # the model reproduces the same two numbers (reported 10, tree 30)
    vals = ctx.coq_eval(["Simulators"], [
        "(reported_flops (mkNet [[0;1];[1;2]] [0;2] [(0,2%Z);(1,3%Z);(2,5%Z)]) [(0,1)], "
        "total_flops (mkNet [[0;1];[1;2]] [0;2] [(0,2%Z);(1,3%Z);(2,5%Z)]) [] (Node (Leaf 0) (Leaf 1)))"])
    ctx.meta["model_witness"] = vals

    # ---- sequences of different contractions through one reusable optimizer ------------
    reusable_sequences(ctx, ctg, rng)

    # ---- model vs code ---------------------------------------------------------------
    for name, imports, cases, what in (
            ("c18_tree", ["Simulators"], cases_tree, "Model/Net.v node_table vs ContractionTree getters"),
            ("c18_anneal", ["Simulators"], cases_ann, "Model/Simulators.v anneal_rows vs compute_contracted_info"),
            ("c18_proc", ["Simulators", "SimulatorsFacts"], cases_proc,
             "Model/Simulators.v proc_init/proc_simplify_single/proc_replay vs ContractionProcessor"),
            ("c18_script", ["Simulators"], cases_script,
             "Model/Simulators.v proc_trace vs ContractionProcessor simplify_batch/single_terms/scalars/contract_nodes"),
            ("c18_hg", ["Simulators"], cases_hg, "Model/HGraph.v hg_replay vs HyperGraph.contract"),
            ("c18_chain", ["Simulators", "Compressed", "SimulatorsFacts", "ProcessorTreeFacts"], cases_chain,
             "hypotheses (init_lr_b, ssa_tree) and conclusion of C18_reported_flops_eq_tree_flops on the generated case"),
            ("c18_batch", ["Simulators", "SimulatorsFacts"], cases_batch,
             "hypotheses (proc_ok_b, present_b) of C18_fixed_run_reports_unsimplified_flops on the generated case")):
        failing = ctx.coq_cases(name, imports, cases, chunk=60)
        for idx, label, val in failing:
            ci = int("".join(ch for ch in label if ch.isdigit()) or 0)
            rec = dict(records[ci]) if ci < len(records) else {}
            rec["model_value"] = val
            rec["correspondence"] = what
            rec["case"] = label
            ctx.fail("model and implementation disagree: " + what, rec, found_input=False)
    ctx.coverage["rule"] = ("random networks (2..6/8 tensors; hyper, repeated, scalar, disconnected, size-1, dangling "
                            "features; 20% with an index on every tensor, 10% with a duplicated tensor), one uniform "
                            "random SSA path each, replayed through the 4 real simulators and the models; processor "
                            "script = random subset of simplify passes + random contractions; reported costs on every "
                            "2nd case; non-trivial = >=3 tensors with a perverse feature; distinct by (network, path)")
    ctx.assumptions = ["simplify_hadamard, optimize_greedy/optimal (heap + float scores) are not modelled; they are "
                       "covered only by the end-to-end comparison of reported flops with the tree",
                       "hypergraph: networks without a repeated index inside a tensor; a leaf keeps dangling indices "
                       "there (no preprocessing), so its pair cost is compared up to that documented factor",
                       "correspondence is executed, not proved (hand-written model)"]


if __name__ == "__main__":
    main(PROP, run)

"""C14 -- a reusable optimizer's cache hit is a correct answer for the question asked.

Correspondence: histories of sessions (one optimizer object each, some in a fresh
process) over pools of near-identical contractions are run through the real
ReusableHyperOptimizer / ReusableRandomGreedyOptimizer; the Coq model
(Model/Reusable.v over Model/DiskFS.v) replays the same history given the recorded
answers of the sub-optimizer and must predict every _maybe_run_optimizer outcome,
the number of searches, the memory-cache keys and the directory contents; the model's
fingerprints are compared with the tuples the real code pickles; the model's rebuilt
tree (shape, flops, write, size) is compared with the tree search() hands back.
Oracle: every returned tree is judged against the property text with an independent
cost evaluator (vlib/oracle.py)."""
import copy
import math
import os
import pickle
import shutil
import subprocess
import sys
import tempfile
import warnings
from fractions import Fraction

from vlib import gen, oracle
from vlib.core import Raw, Z, coq, main, standard_proof_steps

PROP = "C14"
HERE = os.path.abspath(__file__)


# ---------------------------------------------------------------------------
# worker side: runs real cotengra sessions, records observations (pickled back)
_CAP = []


def _install_capture():
    """record the object handed to pickle.dumps inside cotengra.reusable (the hash pre-image)"""
    import cotengra.reusable as R
    if getattr(R.pickle, "_verif_proxy", False):
        return

    class Proxy:
        _verif_proxy = True

        def __getattr__(self, nm):
            return getattr(pickle, nm)

        @staticmethod
        def dumps(x, *a, **k):
            _CAP.append(x)
            return pickle.dumps(x, *a, **k)
    R.pickle = Proxy()


def list_dir(root):
    out = []
    if root is None or not os.path.isdir(root):
        return out
    for dp, dns, fns in os.walk(root):
        rel = os.path.relpath(dp, root)
        comps = [] if rel == "." else rel.split(os.sep)
        for d in dns:
            out.append((tuple(comps + [d]), None))
        for f in fns:
            out.append((tuple(comps + [f]), os.path.getsize(os.path.join(dp, f))))
    return sorted(out)


def tree_info(tree, warns):
    ch = sorted(sorted(k) for k in tree.children)
    st = tree.contract_stats()
    return {
        "N": tree.N,
        "inputs": tuple(tuple(t) for t in tree.inputs),
        "output": tuple(tree.output),
        "size_dict": dict(tree.size_dict),
        "sliced": tuple(tree.sliced_inds),
        "children": ch,
        "nested": gen.tree_nested(tree) if tree.N > 1 and oracle.tree_is_complete(tree) else None,
        "complete": oracle.tree_is_complete(tree),
        "stats": (int(st["flops"]), int(st["write"]), int(st["size"])),
        "score": float(tree.get_score()),
        "path": tuple(tuple(p) for p in tree.get_path()),
        "warnings": [str(w.message)[:80] for w in warns],
    }


def make_optimizer(sess, directory):
    import cotengra as ctg
    kw = dict(directory=directory, overwrite=sess["overwrite"], hash_method=sess["hash_method"],
              cache_only=sess["cache_only"])
    if sess["split"] != "auto":         # "auto" = the constructor's default: leave it out
        kw["directory_split"] = sess["split"]
    if sess["kind"] == "hyper":
        extra = {}
        if sess["slicing"]:
            extra["slicing_opts"] = {"target_slices": 2}
        return ctg.ReusableHyperOptimizer(methods=["greedy"], max_repeats=sess["repeats"], optlib="random",
                                          parallel=False, progbar=False, **extra, **kw)
    return ctg.ReusableRandomGreedyOptimizer(max_repeats=sess["repeats"], parallel=False, **kw)


def store_snapshot_mem(opt):
    """deep copy of the memory tier: repr(key) -> entry"""
    return {repr(k): copy.deepcopy(v) for k, v in opt._cache._mem_cache.items()}


def store_snapshot_disk(directory):
    """relative path -> file bytes of everything below the cache directory"""
    out = {}
    if directory and os.path.isdir(directory):
        for dp, dns, fns in os.walk(directory):
            for f in fns:
                pth = os.path.join(dp, f)
                try:
                    with open(pth, "rb") as fh:
                        out[os.path.relpath(pth, directory)] = fh.read()
                except OSError:
                    out[os.path.relpath(pth, directory)] = None
    return out


def store_diff(mem0, mem1, disk0, disk1):
    """None, or what a read changed in the store"""
    for k, v in mem0.items():
        if k not in mem1:
            return "memory entry %s disappeared" % k
        if mem1[k] != v:
            return "memory entry %s changed from %r to %r" % (k, v, mem1[k])
    for k, v in mem1.items():
        if k not in mem0:
            # memoisation of an entry read from disk: must be the value some file holds
            vals = []
            for b in disk1.values():
                try:
                    vals.append(pickle.loads(b))
                except Exception:
                    pass
            if disk1 and v not in vals:
                return "memory entry %s = %r appeared that no file holds" % (k, v)
    if disk0 != disk1:
        ch = sorted(set(disk0) ^ set(disk1)) or sorted(k for k in disk0 if disk0[k] != disk1.get(k))
        return "files changed: %r" % (ch[:4],)
    return None


def run_session(sess, pool, directory):
    _install_capture()
    opt = make_optimizer(sess, directory)
    searches = []
    maybe_log = []
    orig_run = opt._run_optimizer
    orig_maybe = opt._maybe_run_optimizer

    failed = []

    def run_wrap(inputs, output, size_dict):
        try:
            con = orig_run(inputs, output, size_dict)
        except BaseException as e:      # the sub-optimizer itself failed: not this property's subject
            failed.append(repr(e)[:200])
            raise
        searches.append((con, pickle.dumps(con)))
        return con

    def maybe_wrap(inputs, output, size_dict):
        try:
            r = orig_maybe(inputs, output, size_dict)
        except BaseException as e:
            maybe_log.append(("raise", type(e).__name__))
            raise
        maybe_log.append(("ok", bool(r[0]), copy.deepcopy(dict(r[1])) if isinstance(r[1], dict) else {"malformed": repr(r[1])}))
        return r

    opt._run_optimizer = run_wrap
    opt._maybe_run_optimizer = maybe_wrap
    recs = []
    for qi in sess["queries"]:
        inputs, output, size_dict = pool[qi]
        nb = len(searches)
        del _CAP[:]
        del maybe_log[:]
        del failed[:]
        rec = {"q": qi, "split_used": opt.directory_split}
        mem_before = store_snapshot_mem(opt)
        disk_before = store_snapshot_disk(directory)
        with warnings.catch_warnings(record=True) as w:
            warnings.simplefilter("always")
            try:
                if sess["call"] == "search":
                    tree = opt.search(list(inputs), output, dict(size_dict))
                    rec["tree"] = tree_info(tree, w)
                else:
                    rec["path"] = tuple(tuple(p) for p in opt(list(inputs), output, dict(size_dict)))
            except Exception as e:
                rec["raise"] = (type(e).__name__, str(e)[:200])
        rec["maybe"] = maybe_log[0] if maybe_log else None
        rec["subopt_failed"] = failed[0] if failed else None
        rec["new"] = searches[nb:]
        rec["nsearch"] = len(searches)
        rec["pre"] = _CAP[0] if _CAP else None
        import cotengra.reusable as R
        rec["digest"] = R.hash_contraction(inputs, output, size_dict, sess["hash_method"])
        key = rec["digest"]
        if opt.directory_split:
            key = (key[:2], key[2:])
        mc = opt._cache._mem_cache
        rec["mem_keys"] = list(mc)
        ent = mc.get(key, mc.get((key,) if not isinstance(key, tuple) else key))
        rec["stored"] = copy.deepcopy(dict(ent)) if isinstance(ent, dict) else (None if ent is None else repr(ent))
        rec["dir"] = list_dir(directory)
        # a call that did not search is a read: it must leave every stored entry (memory tier and files)
        # exactly as it was; the only allowed change is memoising an entry read from disk
        if len(searches) == nb and not failed:
            rec["hit_modified"] = store_diff(mem_before, store_snapshot_mem(opt), disk_before,
                                             store_snapshot_disk(directory))
        recs.append(rec)
    return recs


def run_history_real(hist):
    directory = tempfile.mkdtemp(prefix="c14_") if hist["dir"] else None
    out = []
    nfresh = 0
    try:
        for sess in hist["sessions"]:
            if sess["fresh"]:
                with tempfile.TemporaryDirectory(prefix="c14job_") as td:
                    jf, of = os.path.join(td, "job.pkl"), os.path.join(td, "out.pkl")
                    with open(jf, "wb") as f:
                        pickle.dump((sess, hist["pool"], directory), f)
                    # ./check pins PYTHONHASHSEED=0 for reproducibility; a "fresh process" must really
                    # vary the string-hash seed (any two ordinary interpreters do): 1, 2, 3, 1, ...
                    nfresh += 1
                    env = dict(os.environ, PYTHONHASHSEED=str(1 + (nfresh - 1) % 3))
                    p = subprocess.run([sys.executable, HERE, "--session", jf, of], capture_output=True,
                                       text=True, timeout=300, env=env)
                    if p.returncode != 0 or not os.path.exists(of):
                        out.append({"error": (p.stderr or p.stdout)[-1500:]})
                        break
                    with open(of, "rb") as f:
                        out.append({"recs": pickle.load(f)})
            else:
                out.append({"recs": run_session(sess, hist["pool"], directory)})
    finally:
        if directory:
            shutil.rmtree(directory, ignore_errors=True)
    return out


def worker_main(argv):
    if argv[0] == "--digests":
        import cotengra.reusable as R
        with open(argv[1], "rb") as f:
            qs = pickle.load(f)
        res = [{m: R.hash_contraction(list(i), o, dict(sd), m) for m in ("a", "b")} for i, o, sd in qs]
        with open(argv[2], "wb") as f:
            pickle.dump(res, f)
        return
    if argv[0] == "--session":
        with open(argv[1], "rb") as f:
            sess, pool, directory = pickle.load(f)
        recs = run_session(sess, pool, directory)
        with open(argv[2], "wb") as f:
            pickle.dump(recs, f)
        return
    with open(argv[1], "rb") as f:
        hists = pickle.load(f)
    res = []
    for h in hists:
        try:
            res.append(run_history_real(h))
        except Exception as e:  # reported by the main process
            import traceback
            res.append([{"error": traceback.format_exc()[-1500:]}])
    with open(argv[2], "wb") as f:
        pickle.dump(res, f)


# ---------------------------------------------------------------------------
# generation
def variants(rng, base):
    """near-identical contractions: (tag, (inputs, output, size_dict))"""
    inputs, output, sd = base
    inputs = [tuple(t) for t in inputs]
    out = [("base", (inputs, tuple(output), dict(sd)))]
    labels = sorted({ix for t in inputs for ix in t})

    def perm_term():
        cands = [i for i, t in enumerate(inputs) if len(set(t)) > 1]
        if not cands:
            return None
        i = rng.choice(cands)
        t = list(inputs[i])
        for _ in range(5):
            rng.shuffle(t)
            if tuple(t) != inputs[i]:
                break
        return inputs[:i] + [tuple(t)] + inputs[i + 1:], tuple(output), dict(sd)

    def perm_out():
        if len(output) < 2:
            return None
        o = list(output)
        o.reverse()
        return list(inputs), tuple(o), dict(sd)

    def size_change():
        if not labels:
            return None
        ix = rng.choice(labels)
        d = dict(sd)
        d[ix] = d[ix] + 1
        return list(inputs), tuple(output), d

    def extra_scalar():
        return list(inputs) + [()], tuple(output), dict(sd)

    def relabel():
        if len(labels) < 2:
            return None
        a, b = rng.sample(labels, 2)
        m = {a: b, b: a}
        f = lambda x: m.get(x, x)
        return ([tuple(f(x) for x in t) for t in inputs], tuple(f(x) for x in output),
                {f(k): v for k, v in sd.items()})

    def swap_labels_keep_sizes():
        # the structure moves to other labels while the sizes stay attached to the label names
        if len(labels) < 2:
            return None
        a, b = rng.sample(labels, 2)
        m = {a: b, b: a}
        f = lambda x: m.get(x, x)
        return [tuple(f(x) for x in t) for t in inputs], tuple(f(x) for x in output), dict(sd)

    def dict_order():
        items = list(sd.items())
        items.reverse()
        return list(inputs), tuple(output), dict(items)

    def swap_tensors():
        if len(inputs) < 2:
            return None
        i, j = rng.sample(range(len(inputs)), 2)
        ins = list(inputs)
        ins[i], ins[j] = ins[j], ins[i]
        return ins, tuple(output), dict(sd)

    for tag, fn in (("perm_term", perm_term), ("perm_out", perm_out), ("size_change", size_change),
                    ("extra_scalar", extra_scalar), ("relabel", relabel),
                    ("swap_labels_keep_sizes", swap_labels_keep_sizes), ("dict_order", dict_order),
                    ("swap_tensors", swap_tensors)):
        v = fn()
        if v is not None:
            out.append((tag, (list(v[0]), v[1], v[2])))
    return out


def gen_history(rng, quick):
    while True:
        base = gen.rand_net(rng, nmin=2, nmax=5 if quick else 6, max_ix=6, dmax=4, p_scalar=0.05)
        ins = base[0]
        if sum(len(t) for t in ins) >= 2:
            break
    # size_dict restricted to the labels that occur or not: keep some unused entries (they are hashed by 'a')
    var = variants(rng, base)
    rng.shuffle(var)
    var = var[: rng.randint(3, 6)]
    if not any(t == "base" for t, _ in var):
        var[0] = ("base", (list(base[0]), tuple(base[1]), dict(base[2])))
    pool = [v for _, v in var]
    tags = [t for t, _ in var]
    usedir = rng.random() < 0.7
    hm = "a" if rng.random() < 0.65 else "b"
    split = rng.choice([True, False])
    sessions = []
    kind = "hyper" if rng.random() < 0.8 else "rgreedy"
    for si in range(rng.randint(2, 4)):
        ov = rng.choice([False, False, True, "improved", "improved"])
        co = rng.random() < (0.2 if si else 0.05)
        nq = rng.randint(2, 5)
        qs = [rng.randrange(len(pool)) for _ in range(nq)]
        if rng.random() < 0.6:
            qs.append(qs[0])            # a guaranteed exact repeat
        sp = split
        if usedir and si > 0 and rng.random() < 0.3:
            sp = "auto"
        sessions.append({
            "overwrite": ov, "cache_only": co, "hash_method": hm, "split": sp, "kind": kind,
            "slicing": kind == "hyper" and rng.random() < 0.35, "repeats": rng.randint(2, 4),
            "queries": qs, "fresh": usedir and rng.random() < 0.4,
            "call": "search" if rng.random() < 0.85 else "call"})
    return {"dir": usedir, "pool": pool, "tags": tags, "sessions": sessions}


# ---------------------------------------------------------------------------
# Python -> Coq literals
def name_lit(s):
    return coq([ord(c) for c in s])


def net_lit(q):
    inputs, output, sd = q
    ins = [[gen.IDX[c] for c in t] for t in inputs]
    out = [gen.IDX[c] for c in output]
    sz = [(gen.IDX[c], Z(v)) for c, v in sd.items()]       # the dict's own insertion order
    return "(mkNet %s %s %s)" % (coq(ins), coq(out), coq(sz))


B_FIXED = [False]      # is hash_contraction_b the repaired one (decided from real behaviour in run())


def b2_fp(q):
    """the repaired 'b' fingerprint, recomputed independently (used only to classify collisions)"""
    inputs, output, sd = q
    edges = {}
    for ix in output:
        edges.setdefault(ix, []).append(-1)
    for i, t in enumerate(inputs):
        for ix in t:
            edges.setdefault(ix, []).append(i)
    return (len(inputs), tuple(sorted((tuple(sorted(n)), int(sd[ix])) for ix, n in edges.items())))


def detect_b_fixed():
    from cotengra.reusable import hash_contraction_b
    x = ([("a", "b"), ("a", "b"), ()], (), {"a": 2, "b": 3})
    y = ([("a", "b"), ("a", "b")], (), {"a": 2, "b": 3})
    return hash_contraction_b(*x) != hash_contraction_b(*y)


def fpr_lit(method, pre):
    if method == "b" and len(pre) == 2 and isinstance(pre[0], int):
        n, edges = pre
        return "(FpB2 %d %s)" % (n, coq([([Z(v) for v in nodes], Z(sz)) for nodes, sz in edges]))
    if method == "a":
        ins, out, sz = pre
        return "(FpA %s %s %s)" % (coq([[gen.IDX[c] for c in t] for t in ins]), coq([gen.IDX[c] for c in out]),
                                   coq([(gen.IDX[c], Z(v)) for c, v in sz]))
    edges, sz = pre
    return "(FpB %s %s)" % (coq([[Z(v) for v in e] for e in edges]), coq([(gen.IDX[c], Z(v)) for c, v in sz]))


def score_z(x, K):
    fr = Fraction(x) * (1 << K)
    assert fr.denominator == 1
    return int(fr)


def con_lit(con, K):
    return "(mkCon %s %s %s)" % (coq([(int(a), int(b)) for a, b in con["path"]]), coq(Z(score_z(con["score"], K))),
                                 coq([gen.IDX[c] for c in con.get("sliced_inds", ())]))


def cfg_lit(sess, split):
    ov = {False: "OvFalse", True: "OvTrue", "improved": "OvImproved"}[sess["overwrite"]]
    return "(mkCfg %s %s %s %s %s)" % (coq(sess["hash_method"] == "b"), coq(bool(split)), ov,
                                      coq(bool(sess["cache_only"])), coq(bool(B_FIXED[0])))


def path_lit(comps):
    return coq([[ord(c) for c in nm] for nm in comps]) if comps else "[]"


def pyorder_path(comps):
    return [[ord(c) for c in nm] for nm in comps]


def scores_K(values):
    K = 0
    for x in values:
        if math.isinf(x) or math.isnan(x):
            raise ValueError("non-finite score %r" % (x,))
        d = Fraction(x).denominator
        K = max(K, d.bit_length() - 1)
    return K


# ---------------------------------------------------------------------------
# independent helpers for the oracle
def replay_linear(N, path):
    """leaf sets produced by a linear path, or None when it is not a complete valid path"""
    nodes = [frozenset([i]) for i in range(N)]
    made = []
    for p in path:
        p = tuple(p)
        if len(p) != 2 or p[0] == p[1] or min(p) < 0 or max(p) >= len(nodes):
            return None
        hi, lo = max(p), min(p)
        a = nodes.pop(hi)
        b = nodes.pop(lo)
        nodes.append(a | b)
        made.append(a | b)
    if len(nodes) != 1:
        return None
    return made


def equiv_a(q1, q2):
    """differ merely in the order of indices within a tensor or within the output"""
    (i1, o1, s1), (i2, o2, s2) = q1, q2
    return (len(i1) == len(i2) and all(sorted(a) == sorted(b) for a, b in zip(i1, i2))
            and sorted(o1) == sorted(o2) and dict(s1) == dict(s2))


def flops_score(F, W, S):
    return math.log2(F) + 1e-3 * math.log2(W) + 1e-3 * math.log2(S)


def close(a, b):
    return abs(a - b) <= 1e-9 * max(1.0, abs(a), abs(b))


ENTRY_KEYS = ("path", "score", "sliced_inds")


def entry_eq(a, b):
    return (isinstance(a, dict) and isinstance(b, dict) and all(k in a and k in b for k in ENTRY_KEYS)
            and tuple(map(tuple, a["path"])) == tuple(map(tuple, b["path"])) and a["score"] == b["score"]
            and tuple(a["sliced_inds"]) == tuple(b["sliced_inds"]))


def judge_tree(q, ti, stored, kind):
    """the returned tree against the property text; returns None or a description"""
    inputs, output, sd = q
    if not ti["complete"] or ti["N"] != len(inputs):
        return "returned tree is not a complete tree over the %d queried tensors" % len(inputs)
    if ti["inputs"] != tuple(tuple(t) for t in inputs) or ti["output"] != tuple(output):
        return "returned tree is for other inputs/output than queried: %r -> %r" % (ti["inputs"], ti["output"])
    if any(ti["size_dict"].get(ix) != sd[ix] for t in inputs for ix in t):
        return "returned tree has other index sizes than queried"
    if ti["warnings"]:
        return "tree rebuilt with a warning: %s" % ti["warnings"][0]
    if stored is None:
        return "nothing stored for the queried contraction after the call"
    missing = [k for k in ENTRY_KEYS if not isinstance(stored, dict) or k not in stored]
    if missing:
        return "the stored entry has lost its key(s) %r: %r" % (missing, stored)
    allix = {ix for t in inputs for ix in t}
    if set(ti["sliced"]) != set(stored["sliced_inds"]) or not set(ti["sliced"]) <= allix:
        return "sliced indices %r differ from the stored %r (or do not exist in the query)" % (
            ti["sliced"], stored["sliced_inds"])
    made = replay_linear(len(inputs), stored["path"])
    if made is None:
        return "stored path %r is not a complete valid path for %d tensors" % (stored["path"], len(inputs))
    if sorted(sorted(s) for s in made) != ti["children"]:
        return "returned tree is not the tree of the stored path"
    spec = oracle.spec_costs([tuple(t) for t in inputs], tuple(output), sd, ti["nested"], list(ti["sliced"]), [])
    if (spec["flops"], spec["write"], spec["size"]) != ti["stats"]:
        return "tree's reported costs %r differ from the definition %r" % (
            ti["stats"], (spec["flops"], spec["write"], spec["size"]))
    if kind == "hyper":
        want = flops_score(spec["flops"], spec["write"], spec["size"])
        if not close(stored["score"], want):
            return "stored score %r is not the score %r of the returned tree for the queried contraction" % (
                stored["score"], want)
    return None


# ---------------------------------------------------------------------------
def coq_cases_limited(ctx, name, imports, cases, chunk, prelude="", show=8):
    """ctx.coq_cases, but the model's value is printed for the first `show` failing cases only
    (vlib evaluates every failing case in its own sequential coqc run, which takes very long
    when a change breaks hundreds of cases at once)"""
    real = ctx._coq_value
    ctx._coq_value = lambda imports_, prelude_, term: "(not evaluated)"
    try:
        failing = ctx.coq_cases(name, imports, cases, chunk=chunk, prelude=prelude)
    finally:
        ctx._coq_value = real
    out = []
    for n, (idx, label, val) in enumerate(failing):
        if n < show and val == "(not evaluated)" and idx < len(cases):
            val = real(imports, prelude, cases[idx][1])
        out.append((idx, label, val))
    return out


def run_workers(ctx, hists):
    nw = min(16, max(1, len(hists)))
    chunks = [hists[i::nw] for i in range(nw)]
    procs = []
    for wi, ch in enumerate(chunks):
        jf = os.path.join(ctx.scratch, "job_%d.pkl" % wi)
        of = os.path.join(ctx.scratch, "out_%d.pkl" % wi)
        with open(jf, "wb") as f:
            pickle.dump(ch, f)
        procs.append((wi, of, subprocess.Popen([sys.executable, HERE, "--worker", jf, of],
                                               stdout=subprocess.PIPE, stderr=subprocess.PIPE, text=True)))
    results = [None] * len(hists)
    for wi, of, p in procs:
        try:
            out, err = p.communicate(timeout=1500)
        except subprocess.TimeoutExpired:
            p.kill()
            out, err = p.communicate()
            err = "worker timed out\n" + err
        if p.returncode != 0 or not os.path.exists(of):
            for k in range(wi, len(hists), nw):
                results[k] = [{"error": "worker failed: " + err[-1500:]}]
            continue
        with open(of, "rb") as f:
            res = pickle.load(f)
        for j, r in enumerate(res):
            results[wi + j * nw] = r
    return results


def detect_variant():
    """which DiskDict is installed: 'fix' if a truncated entry reads as a missing key
    (proposed_fixes/C15_diskdict-torn-write.patch applied), else 'cur'"""
    from cotengra.utils import DiskDict
    with tempfile.TemporaryDirectory(prefix="c14v_") as d:
        dd = DiskDict(d)
        dd["k"] = {"x": 1}
        open(os.path.join(d, "k"), "wb").close()
        try:
            return "cur" if "k" in DiskDict(d) else "fix"
        except Exception:
            return "cur"


def build_history_case(hist, real, variant="cur"):
    """Coq terms for one history. returns dict with 'hist' (lhs, rhs), 'fp' cases, 'hit' cases"""
    sessions = hist["sessions"]
    pool = hist["pool"]
    allcons = []       # (con dict, bytes) in global search order
    for sr in real:
        for rec in sr["recs"]:
            allcons.extend(rec["new"])
    scores = [c["score"] for c, _ in allcons]
    for sr in real:
        for rec in sr["recs"]:
            if rec["maybe"] and rec["maybe"][0] == "ok":
                scores.append(rec["maybe"][2]["score"])
    K = scores_K(scores)
    # codec table (model con -> real pickle bytes); equal cons must pickle equally
    ctab, seen, ambiguous = [], {}, False
    for c, b in allcons:
        lit = con_lit(c, K)
        if lit in seen:
            if seen[lit] != b:
                ambiguous = True
            continue
        seen[lit] = b
        ctab.append("(%s, %s)" % (lit, coq(list(b))))
    htab, hseen = [], {}
    fp_cases = []
    sess_lits, exp_sessions = [], []
    ns_base = 0
    for sess, sr in zip(sessions, real):
        recs = sr["recs"]
        auto = sess["split"] == "auto"
        split_used = recs[0]["split_used"] if recs else True
        sess_lits.append("(%s, (%s, %s))" % (coq(auto), cfg_lit(sess, split_used if not auto else True),
                                            "[" + "; ".join(net_lit(pool[r["q"]]) for r in recs) + "]"))
        exp = []
        for rec in recs:
            fl = fpr_lit(sess["hash_method"], rec["pre"])
            if fl not in hseen:
                hseen[fl] = rec["digest"]
                htab.append("(%s, %s)" % (fl, name_lit(rec["digest"])))
            fp_cases.append(("fingerprint_c %s %s" % (cfg_lit(sess, True), net_lit(pool[rec["q"]])), fl, rec))
            m = rec["maybe"]
            if m is None:
                oc = "OtherErr"
            elif m[0] == "ok":
                oc = "(Ok (%s, %s))" % (coq(m[1]), con_lit(m[2], K))
            else:
                oc = {"KeyError": "KeyErr", "UnboundLocalError": "UnboundErr"}.get(m[1], "OtherErr")
            memobs = sorted((0, [[ord(c) for c in k]]) if isinstance(k, str) else (1, pyorder_path(k))
                            for k in rec["mem_keys"])
            mem_l = "[" + "; ".join("(%d, %s)" % (t, coq(p)) for t, p in memobs) + "]"
            d = sorted((pyorder_path(p), sz) for p, sz in rec["dir"]) if hist["dir"] else []
            fs_l = "[" + "; ".join("(%s, %s)" % (coq(p), "None" if sz is None else "(Some %d)" % sz)
                                   for p, sz in d) + "]"
            exp.append("(%s, (%d, (%s, %s)))" % (oc, ns_base + rec["nsearch"], mem_l, fs_l))
        if recs:
            ns_base += recs[-1]["nsearch"]
        exp_sessions.append("[" + "; ".join(exp) + "]")
    dcon = "(mkCon [] 0%Z [])"
    lhs = ("run_history (H_tab [%s]) (ops_" + variant + " (tab_encode [%s]) (tab_decode [%s]) 3) "
           "(fun i _ => nth i [%s] %s) %s fs0 0 [%s]") % (
        "; ".join(htab), "; ".join(ctab), "; ".join(ctab),
        "; ".join(con_lit(c, K) for c, _ in allcons), dcon, coq(bool(hist["dir"])), "; ".join(sess_lits))
    rhs = "[" + "; ".join(exp_sessions) + "]"
    return {"hist": (lhs, rhs), "fp": fp_cases, "K": K, "ambiguous": ambiguous}


def run(ctx):
    if not standard_proof_steps(ctx):
        return
    rng = ctx.rng
    variant = detect_variant()
    ctx.coverage["diskdict_variant"] = variant
    B_FIXED[0] = detect_b_fixed()
    ctx.coverage["hash_b_variant"] = "repaired" if B_FIXED[0] else "as it stands"
    # a `fixed: property=C14 PENDING key=<k> ...` line: the repair exists as a proposed patch but is not
    # yet a commit of /repo; while the old failure still occurs it is reported as a KNOWN-FINDING
    import re
    pending = {}
    for prop_, commit, text in ctx.kf.fixed:
        mm = re.match(r"key=(\S+)\s+(.*)", text)
        if prop_ == PROP and commit == "PENDING" and mm:
            pending[mm.group(1)] = "(repair pending) " + mm.group(2)

    def report(what, rec, key=None, found_input=True):
        if key is not None and not ctx.known_key(key) and key in pending:
            ctx.known_hits.setdefault(key, pending[key])
            return False
        return ctx.fail(what, rec, key=key, found_input=found_input)
    nh = int(os.environ.get("C14_HISTORIES", 0)) or ctx.n(110, 1200)     # C14_HISTORIES: self-test knob
    hists = [gen_history(rng, ctx.quick) for _ in range(nh)]
    # the two collisions of hash_method='b' as fixed histories (known finding probe, always run)
    probes = [
        {"dir": False, "tags": ["b_scalar_count", "b_scalar_count"], "pool": [([("a", "b"), ("a", "b"), ()], (), {"a": 2, "b": 3}),
                                                           ([("a", "b"), ("a", "b")], (), {"a": 2, "b": 3})]},
        {"dir": True, "tags": ["b_label_sizes", "b_label_sizes"], "pool": [([("a",), ("a", "b"), ("b",)], (), {"a": 2, "b": 7}),
                                                         ([("b",), ("b", "a"), ("a",)], (), {"a": 2, "b": 7})]},
    ]
    for p in probes:
        p["sessions"] = [{"overwrite": False, "cache_only": False, "hash_method": "b", "split": True,
                          "kind": "hyper", "slicing": False, "repeats": 2, "queries": [0, 1], "fresh": False,
                          "call": "search"}]
    # what remains of the 'b' finding after the proposed repair: a true relabelling shares the entry, but the
    # stored sliced index is a label ('b' is the only index that can be sliced; it does not occur in the second)
    rs_sd = {"a": 1, "b": 2, "c": 1, "z": 2}
    probes.append({"dir": False, "tags": ["b_relabel_sliced"] * 2,
                   "pool": [([("a", "b"), ("b", "c")], ("a", "c"), dict(rs_sd)),
                            ([("a", "z"), ("z", "c")], ("a", "c"), dict(rs_sd))],
                   "sessions": [{"overwrite": False, "cache_only": False, "hash_method": "b", "split": True,
                                 "kind": "hyper", "slicing": True, "repeats": 2, "queries": [0, 1], "fresh": False,
                                 "call": "search"}]})
    # classes that are always part of the quick tier (each caught an independent red-team change):
    #  - flat layout on disk + reload in a fresh process (DiskDict.__getitem__ with a plain string key),
    #  - ReusableRandomGreedyOptimizer serving several different contractions from one object
    #    (the sub-optimizer must not be reused across contractions), in memory and on disk
    cpool = [([("a", "b"), ("b", "c"), ("c", "d")], ("a", "d"), {"a": 2, "b": 3, "c": 4, "d": 2}),
             ([("a", "b", "c"), ("c", "d"), ("d", "e"), ("e", "b"), ("a",)], (), {"a": 2, "b": 2, "c": 3, "d": 2, "e": 3}),
             ([("x", "y"), ("y", "z")], ("x", "z"), {"x": 3, "y": 2, "z": 2}),
             ([("a", "b"), ("b", "c"), ("c", "d"), ("d", "e"), ("e", "f"), ("f", "a")], (), {k: 2 for k in "abcdef"})]

    def csess(kind, split, queries, fresh=False, cache_only=False, overwrite=False, call="search"):
        return {"overwrite": overwrite, "cache_only": cache_only, "hash_method": "a", "split": split, "kind": kind,
                "slicing": False, "repeats": 3, "queries": queries, "fresh": fresh, "call": call}
    classes = []
    for kind in ("hyper", "rgreedy"):
        for usedir, split in ((True, False), (True, True), (False, True)):
            ss = [csess(kind, split, [0, 1, 2, 3, 1, 0]),
                  csess(kind, split, [3, 2, 1, 0], fresh=usedir),
                  csess(kind, "auto" if usedir else split, [1, 3], fresh=usedir, cache_only=usedir),
                  csess(kind, split, [2, 0, 3], overwrite="improved", call="call")]
            classes.append({"dir": usedir, "tags": ["class_%s_%s" % (kind, "flat" if not split else "split")] * 4,
                            "pool": [(list(i), o, dict(sd)) for i, o, sd in cpool], "sessions": ss})
    # slicing optimizers, the same contraction queried >= 3 times through search() on one object (one search +
    # two hits), again after a fresh-process reload (three hits), and by a fresh cache_only process: every hit
    # must return the stored sliced indices and score, and must leave the stored entry untouched
    for usedir, split in ((True, True), (True, False), (False, True)):
        ss = [dict(csess("hyper", split, [0, 0, 0, 3, 3, 3, 0]), slicing=True),
              dict(csess("hyper", split, [0, 0, 0, 3, 3], fresh=usedir), slicing=True),
              dict(csess("hyper", "auto" if usedir else split, [3, 3, 3, 0, 0, 0], fresh=usedir, cache_only=usedir),
                   slicing=True)]
        classes.append({"dir": usedir, "tags": ["class_sliced_repeats_%s" % ("split" if split else "flat")] * 4,
                        "pool": [(list(i), o, dict(sd)) for i, o, sd in cpool], "sessions": ss})
    hists = probes + classes + hists
    ctx.log("running %d histories through the real optimizers" % len(hists))
    reals = run_workers(ctx, hists)
    # ---- direct probe: the fingerprint of one contraction must not depend on the interpreter's
    #      string-hash seed (three child interpreters with PYTHONHASHSEED=1,2,3, both hash methods)
    dq = [tuple(q) for h in (classes + hists[len(probes) + len(classes):][:12]) for q in h["pool"]][:60]
    jf = os.path.join(ctx.scratch, "digests.pkl")
    with open(jf, "wb") as f:
        pickle.dump(dq, f)
    dres = {}
    for hs in ("1", "2", "3"):
        of = os.path.join(ctx.scratch, "digests_%s.out" % hs)
        pr = subprocess.run([sys.executable, HERE, "--digests", jf, of], capture_output=True, text=True,
                            timeout=600, env=dict(os.environ, PYTHONHASHSEED=hs))
        if pr.returncode != 0 or not os.path.exists(of):
            ctx.fail("fingerprint probe could not be run", {"stderr": pr.stderr[-1500:]}, found_input=False)
            continue
        with open(of, "rb") as f:
            dres[hs] = pickle.load(f)
    if len(dres) == 3:
        for qi_, q_ in enumerate(dq):
            for meth in ("a", "b"):
                ds = {hs: dres[hs][qi_][meth] for hs in dres}
                ctx.count("hashseed_fingerprint_probe")
                if len(set(ds.values())) != 1:
                    ctx.fail("the fingerprint (cache key) of one and the same contraction differs between interpreter "
                             "processes with different string-hash seeds: an on-disk cache is never hit again",
                             {"query": q_, "hash_method": meth, "digest_by_PYTHONHASHSEED": ds})

    hist_cases, fp_cases, hit_cases = [], [], []
    hist_recs, fp_recs, hit_recs = [], [], []
    for hi, (hist, real) in enumerate(zip(hists, reals)):
        desc = {"history": hi, "pool": hist["pool"], "tags": hist["tags"], "dir": hist["dir"],
                "sessions": [{k: v for k, v in s.items()} for s in hist["sessions"]]}
        if real is None or any("error" in sr for sr in real) or len(real) != len(hist["sessions"]):
            ctx.fail("a session could not be run (worker error)", {"history": desc, "result": repr(real)[:3000]},
                     found_input=False)
            continue
        # ---------------- oracle over the history -----------------------------------
        sharers = {}          # entry -> the queries that stored or were served under it
        exact = {}            # the very same contraction (same layout / method) -> stored path, score, digest
        ref_entry = {}        # entry -> deep copy of the record as it was when it was stored
        known_recs = set()
        last_path = {}        # (digest) -> stored path after the last successful call
        last_score = {}
        nontriv = False
        subfail = False
        try:
            for si, (sess, sr) in enumerate(zip(hist["sessions"], real)):
                prev_ns = 0
                ctx.count("session_overwrite_%s" % sess["overwrite"])
                ctx.count("hash_%s" % sess["hash_method"])
                if sess["fresh"]:
                    ctx.count("fresh_process_session")
                if sess["cache_only"]:
                    ctx.count("cache_only_session")
                if sess["split"] == "auto":
                    ctx.count("split_auto")
                if sess["slicing"]:
                    ctx.count("slicing_session")
                if not hist["dir"]:
                    last_path, last_score = {}, {}     # nothing persists without a directory
                    sharers = {}
                    exact = {}
                    ref_entry = {}
                for rec in sr["recs"]:
                    q = hist["pool"][rec["q"]]
                    tag = hist["tags"][rec["q"]]
                    dg = (rec["digest"], bool(rec["split_used"]))      # the entry: digest in this layout
                    searched_now = rec["nsearch"] - prev_ns
                    prev_ns = rec["nsearch"]
                    if rec["subopt_failed"]:
                        ctx.count("suboptimizer_itself_failed")
                        subfail = True
                        continue
                    rep = {"history": desc, "session": si, "query": q, "tag": tag, "record": {
                        k: rec.get(k) for k in ("maybe", "raise", "stored", "digest", "nsearch", "path")},
                        "tree": rec.get("tree")}
                    others = [o for o in sharers.get(dg, []) if o != q]
                    collided = any(not equiv_a(o, q) for o in others)
                    if others:
                        ctx.count("shared_entry_%s" % ("equivalent" if not collided else "NOT_equivalent"))
                    key = None
                    if collided and sess["hash_method"] == "b":
                        mm_ = rec["maybe"]
                        sliced_ = bool(mm_ and mm_[0] == "ok" and mm_[2].get("sliced_inds"))
                        if any(b2_fp(o) != b2_fp(q) for o in others if not equiv_a(o, q)):
                            key = "hash-b-collision"          # sub-cases removed by the proposed repair
                        elif sliced_:
                            key = "hash-b-relabel-sliced"     # a true relabelling, but sliced indices are labels
                        if key:
                            known_recs.add(id(rec))
                    qk = (repr((tuple(map(tuple, q[0])), tuple(q[1]), tuple(sorted(q[2].items())))),
                          bool(rec["split_used"]), sess["hash_method"])
                    if qk in exact and exact[qk]["digest"] != rec["digest"]:
                        ctx.fail("the cache key of one and the same contraction differs between processes "
                                 "(%s vs %s): the stored entry can never be hit again" % (exact[qk]["digest"], rec["digest"]),
                                 dict(rep, hashseed_note="fresh sessions run with PYTHONHASHSEED=1,2,3"))
                    if collided and sess["hash_method"] == "a":
                        ctx.fail("two contractions that are not equal up to index order share an entry under hash 'a'",
                                 dict(rep, others=others))
                    # cache_only never searches
                    if sess["cache_only"] and searched_now:
                        ctx.fail("cache_only=True but a search was run", rep)
                    m = rec["maybe"]
                    ok = m is not None and m[0] == "ok"
                    if sess["cache_only"] and not ok:
                        ctx.count("cache_only_keyerror")
                        if m is None or m[1] != "KeyError":
                            ctx.fail("cache_only miss raised %r instead of KeyError" % (m,), rep)
                        elif qk in exact and sess["overwrite"] is False:
                            ctx.fail("cache_only=True raised KeyError for a contraction that is stored in this directory", rep)
                        continue
                    if not ok:
                        report("query raised %r" % (rec.get("raise"),), rep, key=key)
                        continue
                    if rec.get("hit_modified"):
                        ctx.fail("a cache hit modified the stored entry: " + rec["hit_modified"][:300],
                                 dict(rep, store_before_vs_after=rec["hit_modified"]))
                    lacking = [k_ for k_ in ENTRY_KEYS if k_ not in m[2]]
                    if lacking:
                        ctx.fail("a cache hit modified the stored entry: the record handed out by _maybe_run_optimizer "
                                 "lacks %r" % (lacking,), rep)
                        continue
                    if not searched_now and dg in ref_entry and not entry_eq(m[2], ref_entry[dg]) \
                            and not (sess["overwrite"] is not False):
                        report("a cache hit handed out %r, which is not the entry that was stored: %r" % (
                            m[2], ref_entry[dg]), rep, key=key)
                    if dg not in last_path and qk in exact:
                        # stored by an earlier process under (what should be) the same key
                        last_path[dg] = exact[qk]["path"]
                        last_score[dg] = exact[qk]["score"]
                    present_before = dg in last_path
                    # repeat: no new search, same path
                    if present_before and sess["overwrite"] is False:
                        ctx.count("hit")
                        nontriv = True
                        if searched_now:
                            ctx.fail("a repeated query searched again", rep)
                        if tuple(map(tuple, m[2]["path"])) != last_path[dg]:
                            ctx.fail("a repeated query returned another path than stored", rep)
                    elif not searched_now:
                        ctx.fail("a missing (or overwrite) query was answered without searching", rep)
                    else:
                        ctx.count("search")
                    st = rec["stored"]
                    if st is None:
                        ctx.fail("nothing is stored under the query's key after a successful call", rep)
                        continue
                    if not isinstance(st, dict) or any(k_ not in st for k_ in ENTRY_KEYS):
                        ctx.fail("a cache hit modified the stored entry: the entry held in the memory cache is now %r" % (st,),
                                 rep)
                        continue
                    if present_before and sess["overwrite"] == "improved":
                        ctx.count("improved_requery")
                        nontriv = True
                        if st["score"] > last_score[dg]:
                            ctx.fail("overwrite='improved' made the stored score worse: %r -> %r" % (
                                last_score[dg], st["score"]), rep)
                    if tuple(map(tuple, st["path"])) != tuple(map(tuple, m[2]["path"])) or st["score"] != m[2]["score"]:
                        ctx.fail("the answer handed out is not the stored entry", rep)
                    if q not in sharers.setdefault(dg, []):
                        sharers[dg].append(q)
                    last_path[dg] = tuple(map(tuple, st["path"]))
                    last_score[dg] = st["score"]
                    if searched_now or dg not in ref_entry:
                        ref_entry[dg] = copy.deepcopy(m[2])
                    exact[qk] = {"path": last_path[dg], "score": st["score"], "digest": rec["digest"]}
                    if "tree" in rec:
                        # every hit must return the sliced indices and the score that were STORED
                        bad = judge_tree(q, rec["tree"], ref_entry.get(dg, st), sess["kind"])
                        if bad:
                            report(bad, rep, key=key)
                    elif "path" in rec:
                        if rec["path"] != last_path[dg] or replay_linear(len(q[0]), rec["path"]) is None:
                            report("__call__ returned %r: not the stored complete path" % (rec["path"],), rep, key=key)
                    elif "raise" in rec:
                        report("search() raised %r after _maybe_run_optimizer succeeded" % (rec["raise"],), rep, key=key)
        except Exception:
            # a malformed observation is a finding to report, never a harness crash
            import traceback
            ctx.fail("the observations of this history could not be judged (the implementation returned or stored "
                     "something of an unexpected shape): " + traceback.format_exc()[-600:], {"history": desc})
            subfail = True
        ctx.case((hi, repr(hist["pool"]), repr(hist["sessions"])), nontrivial=nontriv,
                 sample=desc if hi in (2, 3) else None)
        # ---------------- model cases ----------------------------------------------------
        if subfail:
            ctx.count("history_not_replayed_suboptimizer_failure")
            continue
        try:
            bc = build_history_case(hist, real, variant)
        except Exception as e:
            ctx.fail("could not express the observed history for the model: %r" % (e,), {"history": desc},
                     found_input=False)
            continue
        if bc["ambiguous"]:
            ctx.count("skipped_ambiguous_pickle")
            continue
        hist_cases.append(("hist%d" % hi, bc["hist"][0], bc["hist"][1]))
        hist_recs.append(desc)
        for lhs, rhs, rec in bc["fp"]:
            fp_cases.append(("fp", lhs, rhs))
            fp_recs.append({"history": hi, "query": hist["pool"][rec["q"]], "preimage": repr(rec["pre"])})
        K = bc["K"]
        for sess, sr in zip(hist["sessions"], real):
            for rec in sr["recs"]:
                m = rec["maybe"]
                if m is None or m[0] != "ok" or id(rec) in known_recs:
                    continue
                q = hist["pool"][rec["q"]]
                lhs = "hit_view %s %s" % (net_lit(q), con_lit(m[2], K))
                if "tree" in rec and not rec["tree"]["warnings"]:
                    ti = rec["tree"]
                    rhs = "Some (%s, (%s, (%s, %s)))" % (coq(ti["children"]), coq(Z(ti["stats"][0])),
                                                        coq(Z(ti["stats"][1])), coq(Z(ti["stats"][2])))
                elif "raise" in rec or ("tree" in rec and rec["tree"]["warnings"]):
                    rhs = "None"
                else:
                    continue
                hit_cases.append(("hit", lhs, rhs))
                hit_recs.append({"history": hi, "query": q, "con": m[2], "tree": rec.get("tree"),
                                 "raise": rec.get("raise")})

    ctx.log("model: %d histories, %d fingerprints, %d rebuilt trees" % (len(hist_cases), len(fp_cases), len(hit_cases)))
    for name, cases, recs, what in (
            ("c14_hist", hist_cases, hist_recs,
             "Model/Reusable.v run_history vs _maybe_run_optimizer outcomes / searches / memory keys / directory"),
            ("c14_fp", fp_cases, fp_recs, "Model/Reusable.v fingerprint vs the tuple pickled by hash_contraction_a/b"),
            ("c14_hit", hit_cases, hit_recs, "Model/Reusable.v hit_view (from_path + remove_ind) vs the tree returned")):
        failing = coq_cases_limited(ctx, name, ["Reusable"], cases, 12 if name == "c14_hist" else 120)
        for idx, label, val in failing:
            rec = dict(recs[idx]) if idx < len(recs) else {}
            rec["model_value"] = val
            rec["expected_from_code"] = cases[idx][2][:3000] if idx < len(cases) else None
            rec["correspondence"] = what
            ctx.fail("model and implementation disagree (%s)" % name, rec, found_input=False)
    ctx.coverage["rule"] = (
        "histories of 2-4 sessions (one optimizer object each; 40% of the on-disk ones in a fresh process) of 2-6 "
        "queries over a pool of 3-6 near-identical contractions (base, index order within a tensor, output order, "
        "one size changed, extra scalar tensor, relabelling, labels swapped under fixed sizes, size_dict order, "
        "tensors swapped) x hash_method x directory x directory_split (incl. 'auto') x overwrite x cache_only x "
        "ReusableHyperOptimizer(greedy, +-slicing)/ReusableRandomGreedyOptimizer x search()/__call__; "
        "non-trivial = contains a cache hit or an 'improved' re-query; distinct by (pool, sessions)")
    ctx.assumptions = [
        "sha1_pickle_inj: sha1(pickle.dumps(.)) separates the fingerprints that occur (Section hypothesis H_inj)",
        "the sub-optimizer is an oracle: its answers are recorded from the real run and replayed by the model",
        "pickle round trip of {path, score, sliced_inds} (codec hypothesis decode (encode v) = Some v)",
        "correspondence is executed, not proved (hand-written model)"]
    ctx.trusted.append("ContractionTree cost figures are the subject of C03; tree <-> path conversion of C10")


if __name__ == "__main__":
    if len(sys.argv) > 1 and sys.argv[1] in ("--worker", "--session", "--digests"):
        worker_main(sys.argv[1:])
    else:
        main(PROP, run)

"""C15 -- a crash while writing the on-disk cache never poisons later runs.

A writer process (a fork of a worker that has never touched the cache directory) performs
the store -- DiskDict.__setitem__ directly, or a whole ReusableHyperOptimizer.search --
with its file-system calls instrumented from the harness side (builtins.open, os.mkdir,
os.replace, os.unlink); it is killed (os._exit) before a chosen call or after a chosen
number of bytes of a write.  Then fresh processes (forks of the pristine worker, and real
new interpreters for a sample) open the directory: a raw DiskDict probe of every key and
ReusableHyperOptimizer sessions (plain / 'improved' / cache_only) that query the crashed
contraction and the ones stored before.
Correspondence: the Coq model (Model/DiskFS.v + Model/Reusable.v) predicts, for the very
same crash point, the directory contents, the DiskDict results for every key and the
_maybe_run_optimizer outcome of the fresh process.  Which model variant (code as it
stands / temp file + os.replace) applies is decided from the recorded system calls.
Oracle: the property text (complete entry or behaves as absent, never raises, never a
tree from a partial entry, older entries readable)."""
import builtins
import io
import json
import os
import pickle
import shutil
import subprocess
import sys
import tempfile

sys.path.insert(0, os.path.dirname(os.path.abspath(__file__)))
import c14  # noqa: E402  (shares the session runner, literals and the tree judge)
from vlib import gen  # noqa: E402
from vlib.core import Z, coq, main, standard_proof_steps  # noqa: E402

PROP = "C15"
HERE = os.path.abspath(__file__)
KFIX = 120          # scores are handed to the model as score * 2**KFIX (exact integers)
OPT_KW = dict(methods=["greedy"], max_repeats=2, optlib="random", parallel=False, progbar=False)


# ---------------------------------------------------------------------------
# crash injection (runs inside the forked writer)
class KRaw(io.FileIO):
    """The raw (unbuffered) file under CPython's own buffered writer.  Only what really reaches
    the file descriptor is an event: `write` here is the write(2) the BufferedWriter issues when
    its user-space buffer fills, on flush() and on close().  A kill inside a write lets k bytes
    through; whatever is still in the BufferedWriter's buffer is lost with the process."""

    def __init__(self, inj, path, rawmode, rel):
        super().__init__(path, rawmode)
        self._inj, self._rel = inj, rel

    def write(self, b):
        data = bytes(b)
        k = self._inj.event(("write", self._rel, len(data)))
        if k is not None:
            if k:
                super().write(data[:k])
            os._exit(9)
        return super().write(data)

    def close(self):
        if not self.closed:
            self._inj.event(("close", self._rel))
        super().close()


def kopen(inj, file, mode, rel, buffering=-1):
    """what builtins.open(file, mode) returns for a binary write mode, with KRaw underneath:
    the same buffered class and the same buffer size CPython would choose"""
    raw = KRaw(inj, file, mode.replace("b", ""), rel)
    if buffering == 0:
        return raw
    if buffering < 0:
        buffering = getattr(raw, "_blksize", 0) or io.DEFAULT_BUFFER_SIZE
        if buffering <= 1:
            buffering = io.DEFAULT_BUFFER_SIZE
    if "+" in mode:
        return io.BufferedRandom(raw, buffering)
    return io.BufferedWriter(raw, buffering)


class Injector:
    """numbers the file-system calls below `root`; dies at call number kill[0]
    (for a write: after letting kill[1] bytes through when kill[1] is not None)"""

    def __init__(self, root, kill, logfd):
        self.root = os.path.abspath(root)
        self.kill = kill
        self.logfd = logfd
        self.n = 0
        self.real_open = builtins.open
        self.real_mkdir = os.mkdir
        self.real_replace = os.replace
        self.real_unlink = os.unlink
        self.real_os_open = os.open
        self.fds = {}

    def rel(self, p):
        p = os.path.abspath(os.fspath(p))
        if p == self.root:
            return ""
        if p.startswith(self.root + os.sep):
            return p[len(self.root) + 1:]
        if self.root.startswith(p + os.sep):
            return "^" + p          # an ancestor of the cache directory
        return None

    def note(self, obj):
        os.write(self.logfd, (json.dumps(obj) + "\n").encode())

    def event(self, ev):
        i = self.n
        self.n += 1
        if self.kill is not None and i == self.kill[0]:
            if ev[0] == "write" and self.kill[1] is not None:
                self.note({"ev": ev, "killed": self.kill[1]})
                return self.kill[1]
            self.note({"ev": ev, "killed": "before"})
            os._exit(9)
        self.note({"ev": ev})
        return None

    def install(self):
        inj = self

        def os_open_(path, flags, *a, **k):
            # tempfile.mkstemp and friends: a descriptor opened for writing below the cache root
            r = inj.rel(path) if isinstance(path, (str, os.PathLike)) else None
            if r is not None and not r.startswith("^") and flags & (os.O_WRONLY | os.O_RDWR):
                inj.event(("open", r, "os.open"))
                fd = inj.real_os_open(path, flags, *a, **k)
                inj.fds[fd] = r
                return fd
            return inj.real_os_open(path, flags, *a, **k)

        def open_(file, mode="r", *a, **k):
            if isinstance(file, int) and file in inj.fds and "b" in mode and any(c in mode for c in "wa+x"):
                buffering = a[0] if a else k.get("buffering", -1)
                return kopen(inj, file, mode, inj.fds.pop(file), buffering)
            r = inj.rel(file) if isinstance(file, (str, os.PathLike)) else None
            if r is not None and not r.startswith("^") and "b" in mode and any(c in mode for c in "wa+x"):
                inj.event(("open", r, mode))
                buffering = a[0] if a else k.get("buffering", -1)
                return kopen(inj, file, mode, r, buffering)
            return inj.real_open(file, mode, *a, **k)

        def mkdir_(path, *a, **k):
            r = inj.rel(path)
            if r is not None:
                inj.event(("mkdir", r))
            return inj.real_mkdir(path, *a, **k)

        def replace_(src, dst, *a, **k):
            r = inj.rel(dst)
            if r is not None:
                inj.event(("replace", inj.rel(src), r))
            return inj.real_replace(src, dst, *a, **k)

        def unlink_(path, *a, **k):
            r = inj.rel(path)
            if r is not None:
                inj.event(("unlink", r))
            return inj.real_unlink(path, *a, **k)

        builtins.open = open_
        os.open = os_open_
        os.mkdir = mkdir_
        os.replace = replace_
        os.unlink = unlink_


class ProfKiller:
    """kill the writer at the n-th C-call entry/exit event (sys.setprofile) inside
    DiskDict.__setitem__ -- every system call happens inside some C function, so stepping on the
    entries and exits brackets all of them, whoever issues them (open, shutil, os.sendfile, ...).
    Nothing is wrapped: files are CPython's own buffered objects."""

    def __init__(self, kill_n, logfd):
        self.kill_n, self.logfd, self.n = kill_n, logfd, 0

    def note(self, obj):
        os.write(self.logfd, (json.dumps(obj) + "\n").encode())

    def hook(self, frame, event, arg):
        if not event.startswith("c_"):
            return
        if self.kill_n is not None and self.n == self.kill_n:
            os._exit(9)
        self.n += 1

    def install(self):
        from cotengra.utils import DiskDict
        orig = DiskDict.__setitem__
        me = self

        def patched(self_, k, v):
            sys.setprofile(me.hook)
            try:
                return orig(self_, k, v)
            finally:
                sys.setprofile(None)
                me.note({"prof_events": me.n})
        DiskDict.__setitem__ = patched


def writer_child(job, kill, logpath):
    """never returns"""
    fd = os.open(logpath, os.O_WRONLY | os.O_CREAT | os.O_TRUNC)
    try:
        if job.get("prof"):
            inj = ProfKiller(None if kill is None else kill[0], fd)
        else:
            inj = Injector(job["root"], kill, fd)
        inj.install()
        if job["mode"] == "dd":
            from cotengra.utils import DiskDict
            dd = DiskDict(job["root"])
            dd[job["key"]] = job["value"]
        else:
            import cotengra as ctg
            opt = ctg.ReusableHyperOptimizer(directory=job["root"], directory_split=job["split"],
                                             overwrite=job["overwrite"], **OPT_KW)
            orig = opt._run_optimizer

            def run_wrap(i, o, s):
                con = orig(i, o, s)
                inj.note({"value": pickle.dumps(con).hex(), "con": [list(map(list, con["path"])), con["score"].hex(),
                                                                     list(con["sliced_inds"])]})
                return con
            opt._run_optimizer = run_wrap
            q = job["query"]
            opt.search(list(q[0]), q[1], dict(q[2]))
        inj.note({"done": True})
    except BaseException as e:  # an exception in the writer is reported, not hidden
        os.write(fd, (json.dumps({"writer_exception": repr(e)[:300]}) + "\n").encode())
        os._exit(3)
    os._exit(0)


def fork_writer(job, kill, logpath):
    pid = os.fork()
    if pid == 0:
        writer_child(job, kill, logpath)
    _, status = os.waitpid(pid, 0)
    log = [json.loads(l) for l in open(logpath).read().splitlines() if l.strip()]
    return os.waitstatus_to_exitcode(status), log


def snapshot(root):
    """(relative components, None | bytes) for everything below root; None if root is absent"""
    if not os.path.isdir(root):
        return None
    out = []
    for dp, dns, fns in os.walk(root):
        rel = os.path.relpath(dp, root)
        comps = [] if rel == "." else rel.split(os.sep)
        for d in dns:
            out.append((tuple(comps + [d]), None))
        for f in fns:
            with open(os.path.join(dp, f), "rb") as fh:
                out.append((tuple(comps + [f]), fh.read()))
    return sorted(out, key=lambda e: e[0])


def dd_probe(root, keys):
    """fresh DiskDict over root: (k in dd, dd[k]) for every key"""
    from cotengra.utils import DiskDict
    dd = DiskDict(root)
    res = []
    for k in keys:
        try:
            c = k in dd
        except BaseException as e:
            c = ("raise", type(e).__name__)
        try:
            v = ("ok", dict(dd[k]))
        except BaseException as e:
            v = ("raise", type(e).__name__)
        res.append((c, v))
    return res


def fork_call(fn, *args):
    """run fn(*args) in a fork of this (pristine) process; result through a pickle file"""
    with tempfile.TemporaryDirectory(prefix="c15r_") as td:
        of = os.path.join(td, "out.pkl")
        pid = os.fork()
        if pid == 0:
            try:
                r = fn(*args)
                with open(of, "wb") as f:
                    pickle.dump(("ok", r), f)
            except BaseException as e:
                import traceback
                with open(of, "wb") as f:
                    pickle.dump(("error", traceback.format_exc()[-1500:]), f)
            os._exit(0)
        os.waitpid(pid, 0)
        if not os.path.exists(of):
            return ("error", "reader produced nothing")
        with open(of, "rb") as f:
            return pickle.load(f)


SUBSEED = [0]


def subprocess_session(sess, pool, directory):
    with tempfile.TemporaryDirectory(prefix="c15s_") as td:
        jf, of = os.path.join(td, "job.pkl"), os.path.join(td, "out.pkl")
        with open(jf, "wb") as f:
            pickle.dump((sess, pool, directory), f)
        # a real new interpreter, with a string-hash seed different from the writer's (./check pins 0)
        SUBSEED[0] += 1
        p = subprocess.run([sys.executable, c14.HERE, "--session", jf, of], capture_output=True, text=True, timeout=300,
                           env=dict(os.environ, PYTHONHASHSEED=str(1 + SUBSEED[0] % 3)))
        if p.returncode != 0 or not os.path.exists(of):
            return ("error", (p.stderr or p.stdout)[-1500:])
        with open(of, "rb") as f:
            return ("ok", pickle.load(f))


READERS = {
    "plain": dict(overwrite=False, cache_only=False),
    "improved": dict(overwrite="improved", cache_only=False),
    "cache_only": dict(overwrite=False, cache_only=True),
    # the DEFAULT constructor arguments: directory_split is left at "auto", i.e. the layout is
    # detected from whatever the crashed writer left in the directory
    "auto_plain": dict(overwrite=False, cache_only=False, auto=True),
    "auto_cache_only": dict(overwrite=False, cache_only=True, auto=True),
}


def reader_session(split, variant):
    s = {"hash_method": "a", "split": split, "kind": "hyper", "slicing": False, "repeats": 2, "fresh": False,
         "call": "search"}
    s.update({k: v for k, v in READERS[variant].items() if k != "auto"})
    if READERS[variant].get("auto"):
        s["split"] = "auto"
    return s


# ---------------------------------------------------------------------------
# worker: builds scenarios' template directories, runs crash points
def build_scenario(sc, td):
    """clean stores through the real optimizer: returns the template directory (entries stored
    before the crash), keys, cons and the value the writer will store"""
    import cotengra as ctg
    tmpl = os.path.join(td, "tmpl")
    opt = ctg.ReusableHyperOptimizer(directory=tmpl, directory_split=sc["split"], **OPT_KW)
    info = []
    for q in sc["pool"]:
        tree = opt.search(list(q[0]), q[1], dict(q[2]))
        h, missing = opt.hash_query(list(q[0]), q[1], dict(q[2]))
        info.append({"key": h, "con": dict(opt._cache[h])})
    # the value to store for the target (query 0): a different complete entry for the same contraction
    q = sc["pool"][0]
    import random as _random
    r2 = _random.Random(repr(sc["alt_path"]))
    cand = sc["alt_path"]
    for _ in range(50):
        t2 = ctg.ContractionTree.from_path(list(q[0]), q[1], dict(q[2]), path=cand)
        new = {"path": t2.get_path(), "score": t2.get_score(), "sliced_inds": ()}
        if tuple(map(tuple, new["path"])) != tuple(map(tuple, info[0]["con"]["path"])):
            break       # distinguishable from the entry found by the search (old vs new)
        cand = gen.rand_path(r2, len(q[0]))
    if sc.get("pad"):
        new["pad"] = "x" * sc["pad"]
    if sc["case"] == "new":
        # the target has not been stored yet
        k = info[0]["key"]
        os.unlink(os.path.join(tmpl, *(k if isinstance(k, tuple) else (k,))))
        if isinstance(k, tuple) and sc["fresh_subdir"]:
            try:
                os.rmdir(os.path.join(tmpl, k[0]))
            except OSError:
                pass
    return tmpl, info, new


def run_point(sc, tmpl, info, new, kill, td, idx, deep):
    """one crash point: returns the observations"""
    xb = None
    if sc.get("xfs_base"):
        # the cache lives on another file system than tempfile.gettempdir(); removed after the point
        xb = tempfile.mkdtemp(prefix="c15x_", dir=sc["xfs_base"])
    try:
        return _run_point(sc, tmpl, info, new, kill, xb or td, td, idx, deep)
    finally:
        if xb:
            shutil.rmtree(xb, ignore_errors=True)


def _run_point(sc, tmpl, info, new, kill, td, logdir, idx, deep):
    root = os.path.join(td, "run%d" % idx, *sc["nest"])
    if sc["case"] == "newdir":
        os.makedirs(os.path.join(td, "run%d" % idx))
    else:
        shutil.copytree(tmpl, root)
    job = {"root": root, "mode": sc["mode"], "split": sc["split"], "key": info[0]["key"], "value": new,
           "query": sc["pool"][0], "overwrite": sc["case"] == "overwrite", "prof": bool(sc.get("prof"))}
    rc, log = fork_writer(job, kill, os.path.join(logdir, "log%d.jsonl" % idx))
    obs = {"kill": kill, "rc": rc, "log": log, "snap": snapshot(root)}
    keys = [e["key"] for e in info]
    if obs["snap"] is not None:
        obs["probe"] = fork_call(dd_probe, root, keys)
    readers = {}
    variants = (["plain", "improved", "cache_only"] if deep else ["plain"]) + ["auto_plain", "auto_cache_only"]
    for v in variants:
        rdir = os.path.join(td, "run%d_%s" % (idx, v), *sc["nest"])
        if obs["snap"] is not None:
            shutil.copytree(root, rdir)
        sess = reader_session(sc["split"], v)
        sess["queries"] = list(range(len(sc["pool"]))) + [0]
        if v == "plain" and idx % 9 == 0:
            readers[v] = subprocess_session(sess, sc["pool"], rdir)      # a real new interpreter
            obs["subprocess_reader"] = True
        else:
            readers[v] = fork_call(c14.run_session, sess, sc["pool"], rdir)
        shutil.rmtree(os.path.join(td, "run%d_%s" % (idx, v)), ignore_errors=True)
    obs["readers"] = readers
    shutil.rmtree(os.path.join(td, "run%d" % idx), ignore_errors=True)
    return obs


def worker_main(argv):
    with open(argv[1], "rb") as f:
        jobs = pickle.load(f)
    import cotengra  # noqa: F401  (imported once; every writer / reader is a fork of this state)
    out = []
    for sc, points in jobs:
        with tempfile.TemporaryDirectory(prefix="c15w_") as td:
            try:
                tmpl, info, new = build_scenario(sc, td)
                res = {"info": info, "new": new, "new_bytes": pickle.dumps(new),
                       "tmpl": snapshot(tmpl), "points": []}
                for idx, (kill, deep) in enumerate(points):
                    res["points"].append(run_point(sc, tmpl, info, new, kill, td, idx, deep))
            except Exception:
                import traceback
                res = {"error": traceback.format_exc()[-2000:]}
            out.append(res)
    with open(argv[2], "wb") as f:
        pickle.dump(out, f)


def run_jobs(ctx, jobs, timeout=1700):
    """jobs: list of (scenario, points); spread over worker processes"""
    nw = min(16, max(1, len(jobs)))
    chunks = [jobs[i::nw] for i in range(nw)]
    procs = []
    for wi, ch in enumerate(chunks):
        jf = os.path.join(ctx.scratch, "job_%d_%d.pkl" % (wi, len(os.listdir(ctx.scratch))))
        of = jf + ".out"
        with open(jf, "wb") as f:
            pickle.dump(ch, f)
        # a private TMPDIR (same file system as the system temp directory): whatever a killed writer
        # leaves in "the system temp directory" lands inside the check's scratch directory
        ptmp = os.path.join(ctx.scratch, "tmp")
        os.makedirs(ptmp, exist_ok=True)
        procs.append((wi, of, subprocess.Popen([sys.executable, HERE, "--worker", jf, of],
                                               stdout=subprocess.PIPE, stderr=subprocess.PIPE, text=True,
                                               env=dict(os.environ, TMPDIR=ptmp))))
    results = [None] * len(jobs)
    for wi, of, p in procs:
        try:
            out, err = p.communicate(timeout=timeout)
        except subprocess.TimeoutExpired:
            p.kill()
            out, err = p.communicate()
            err = "worker timed out\n" + err
        if p.returncode != 0 or not os.path.exists(of):
            for k in range(wi, len(jobs), nw):
                results[k] = {"error": "worker failed: " + err[-1500:]}
            continue
        with open(of, "rb") as f:
            res = pickle.load(f)
        for j, r in enumerate(res):
            results[wi + j * nw] = r
    return results


# ---------------------------------------------------------------------------
def gen_scenario(rng, case, split, mode, nest=(), pad=0):
    while True:
        base = gen.rand_net(rng, nmin=3, nmax=5, max_ix=6, dmax=4, p_scalar=0.0, p_disconnected=0.0)
        if sum(len(t) for t in base[0]) >= 3:
            break
    pool = [(list(base[0]), tuple(base[1]), dict(base[2]))]
    for _ in range(2):
        while True:
            o = gen.rand_net(rng, nmin=2, nmax=4, max_ix=5, dmax=3, p_scalar=0.0)
            if sum(len(t) for t in o[0]) >= 2 and all(not c14.equiv_a((list(o[0]), tuple(o[1]), dict(o[2])), p)
                                                        for p in pool):
                break
        pool.append((list(o[0]), tuple(o[1]), dict(o[2])))
    return {"case": case, "split": split, "mode": mode, "pool": pool, "nest": list(nest),
            "alt_path": gen.rand_path(rng, len(base[0])), "fresh_subdir": rng.random() < 0.7,
            # pad > 0: the stored dict carries an extra string of that length, so that the pickle
            # exceeds the buffered writer's buffer (real writes happen before close)
            "pad": pad}


def weights(events):
    """model operations corresponding to each recorded call: mkdir of a sub-directory 1, open 1,
    write n (byte-granular), replace 1; mkdir of the cache directory / its ancestors, close: 0"""
    w = []
    for ev in events:
        kind = ev[0]
        if kind == "mkdir":
            w.append(0 if ev[1] == "" or ev[1].startswith("^") else 1)
        elif kind == "open":
            w.append(1)
        elif kind == "write":
            w.append(ev[2])
        elif kind == "replace":
            w.append(1)
        else:
            w.append(0)
    return w


def canon_name(nm):
    """the temporary name of the fixed writer '.<name>.<pid>-<tid>.tmp' -> '.<name>'"""
    if nm.startswith(".") and nm.endswith(".tmp"):
        return "." + nm[1:].split(".")[0]
    return nm


def key_lit(k):
    if isinstance(k, tuple):
        return "(KT %s)" % coq([[ord(c) for c in nm] for nm in k])
    return "(KS %s)" % coq([ord(c) for c in k])


def is_prefix(a, b):
    return len(a) <= len(b) and b[: len(a)] == a


def other_filesystem_dir():
    """a writable directory on a different file system than tempfile.gettempdir() (st_dev differs), or None"""
    tmpdev = os.stat(tempfile.gettempdir()).st_dev
    for c in ("/dev/shm", os.environ.get("XDG_RUNTIME_DIR") or "", os.getcwd(), os.path.expanduser("~"), "/var/tmp"):
        try:
            if c and os.path.isdir(c) and os.access(c, os.W_OK) and os.stat(c).st_dev != tmpdev:
                return c
        except OSError:
            pass
    return None


def check_store_protocol():
    """fail-closed source check of DiskDict.__setitem__: the atomic-store protocol is a temporary file
    in the SAME directory as the entry + os.replace (only that makes the move a rename).  Returns a
    list of complaints (empty = follows the protocol)."""
    import ast
    import inspect
    import textwrap
    from cotengra.utils import DiskDict
    try:
        tree = ast.parse(textwrap.dedent(inspect.getsource(DiskDict.__setitem__)))
    except Exception as e:
        return ["source of DiskDict.__setitem__ not available: %r" % (e,)]
    bad = []
    names = {n.id for n in ast.walk(tree) if isinstance(n, ast.Name)}
    calls = [(ast.unparse(n.func), n) for n in ast.walk(tree) if isinstance(n, ast.Call)]
    for mod in ("tempfile", "shutil"):
        if mod in names:
            bad.append("uses %s.* (temporary file outside the entry's directory / a move that may copy)" % mod)
    reps = [n for f, n in calls if f == "os.replace"]
    if len(reps) != 1:
        bad.append("expected exactly one os.replace(tmp, fname) call, found %d" % len(reps))
    else:
        src = reps[0].args[0]
        assigned = [ast.unparse(a.value) for a in ast.walk(tree) if isinstance(a, ast.Assign)
                    and any(isinstance(t, ast.Name) and isinstance(src, ast.Name) and t.id == src.id for t in a.targets)]
        if not assigned or not all(("fname.with_name(" in e or "fname.parent" in e) for e in assigned):
            bad.append("the source of os.replace is not derived from fname.with_name(...) / fname.parent: %r" % (assigned,))
        if ast.unparse(reps[0].args[1]) != "fname":
            bad.append("os.replace does not move onto fname")
    for f, n in calls:
        if f in ("os.rename", "os.link", "os.renames", "shutil.move", "shutil.copy", "shutil.copyfile"):
            bad.append("calls %s" % f)
    return bad


def run(ctx):
    if not standard_proof_steps(ctx):
        return
    rng = ctx.rng
    quick = ctx.quick
    for complaint in check_store_protocol():
        ctx.fail("DiskDict.__setitem__ does not follow the atomic-store protocol (temporary file next to the "
                 "entry + os.replace): " + complaint, {"check": "source of DiskDict.__setitem__", "complaint": complaint},
                 found_input=False)
    xfs = other_filesystem_dir()
    ctx.coverage["filesystems"] = {"tempdir": tempfile.gettempdir(), "cache_on_other_filesystem": xfs}
    if xfs is None:
        ctx.notes.append("coverage gap: no writable directory on a file system other than tempfile.gettempdir() "
                         "was found; the cross-filesystem crash exploration did not run")
    # ------------------------------------------------------------------ scenarios
    scen = []
    full = [("new", True, "dd"), ("overwrite", False, "dd")]
    small = bool(os.environ.get("C15_SMALL"))       # self-test knob: strides only
    for case, split, mode in full:
        scen.append((gen_scenario(rng, case, split, mode), "stride" if small else "all"))
    combos = [(c, s, m) for c in ("new", "overwrite") for s in (True, False) for m in ("dd", "opt")]
    for rep in range(ctx.n(1, 4)):
        for case, split, mode in combos:
            scen.append((gen_scenario(rng, case, split, mode), "all" if not quick else "stride"))
    # entries larger than the buffered writer's buffer: a real write happens inside pickle.dump,
    # before close()
    for case, split in (("overwrite", True), ("new", False)):
        scen.append((gen_scenario(rng, case, split, "dd", pad=9000), "stride"))
    # > 64 KiB: the pickler emits several writes and the tail stays in the user-space buffer until
    # close().  Oracle only: the byte-granular model is quadratic in the entry size.
    for case, split in (("overwrite", False), ("new", True)):
        hs = gen_scenario(rng, case, split, "dd", pad=70000)
        hs["no_model"] = True
        scen.append((hs, "stride"))
    for rep in range(ctx.n(2, 6)):
        scen.append((gen_scenario(rng, "newdir", rng.choice([True, False]), rng.choice(["dd", "opt"]),
                                  nest=("x", "y")), "stride" if small else "all"))
    # the cache directory on another file system than the system temp directory: (i) the recorded-call
    # exploration again, (ii) kills at every C-call entry/exit inside DiskDict.__setitem__ (sys.setprofile),
    # which do not depend on the instrumented opener (shutil / os.sendfile / copyfileobj are covered);
    # overwrite and new entry, both layouts.  (ii) also runs on the temp directory's own file system.
    for base in ([xfs] if xfs else []) + [None]:
        for case in ("overwrite", "new"):
            for split in (True, False):
                if base is not None:
                    xs = gen_scenario(rng, case, split, "dd")
                    xs["xfs_base"] = base
                    scen.append((xs, "stride"))
                if base is not None or (case == "overwrite"):
                    ps = gen_scenario(rng, case, split, rng.choice(["dd", "dd", "opt"]))
                    ps["xfs_base"] = base
                    ps["prof"] = True
                    ps["no_model"] = True
                    scen.append((ps, "stride" if quick else "all"))
    for i, (sc, _) in enumerate(scen):
        sc["sid"] = i
    # dry runs: the sequence of calls of each scenario's writer
    dry = run_jobs(ctx, [(sc, [(None, False)]) for sc, _ in scen])
    jobs = []
    for (sc, how), d in zip(scen, dry):
        if d is None or "error" in d:
            # only clean calls of the real code are involved here (stores through a
            # ReusableHyperOptimizer, then an uninterrupted writer): an exception is a failing input
            ctx.fail("a clean (uninterrupted) store / reload through the on-disk cache raised",
                     {"scenario": sc, "error": (d or {}).get("error")},
                     found_input=bool(d) and "worker failed" not in str(d.get("error")))
            jobs.append((sc, []))
            continue
        events = [tuple(l["ev"]) for l in d["points"][0]["log"] if "ev" in l]
        sc["events"] = events
        if sc.get("prof"):
            nev = max([l["prof_events"] for l in d["points"][0]["log"] if "prof_events" in l] or [0])
            sc["prof_events"] = nev
            ns_ = list(range(nev + 1))
            if how == "stride" and nev > 40:
                ns_ = sorted(set(range(0, nev + 1, max(1, nev // 56))) | set(range(nev - 6, nev + 1)) | set(range(6)))
            jobs.append((sc, [((n_, None), j % 4 == 0) for j, n_ in enumerate(ns_)]))
            continue
        pts = []
        for i, ev in enumerate(events):
            pts.append((i, None))
            if ev[0] == "write":
                ks = range(1, ev[2])
                if how == "stride":
                    st = max(1, ev[2] // 6)
                    ks = sorted(set(list(range(1, ev[2], st)) + [1, ev[2] - 1]))
                pts.extend((i, k) for k in ks)
        pts.append((len(events), None))
        # every third point gets all three reader variants
        jobs.append((sc, [(kp, (j % 3 == 0) or how == "all" and not quick) for j, kp in enumerate(pts)]))
    npts = sum(len(p) for _, p in jobs)
    ctx.log("%d scenarios, %d crash points" % (len(jobs), npts))
    # split big scenarios into several jobs so that the workers are balanced
    flat = []
    for sc, pts in jobs:
        for i in range(0, len(pts), 24):
            flat.append((sc, pts[i:i + 24]))
    results = run_jobs(ctx, flat)

    cases, recs = [], []
    prelude = {}
    variant_seen = set()
    for jid, ((sc, pts), res) in enumerate(zip(flat, results)):
        desc = {k: sc.get(k) for k in ("case", "split", "mode", "pool", "nest", "alt_path", "pad", "xfs_base", "prof")}
        if res is None or "error" in res:
            ctx.fail("crash scenario could not be run", {"scenario": desc, "error": (res or {}).get("error")},
                     found_input=False)
            continue
        info, new = res["info"], res["new"]
        events = sc["events"]
        fixed_writer = any(e[0] == "replace" for e in events)
        if not sc.get("prof"):
            variant_seen.add("fix" if fixed_writer else "cur")
        ops = "ops_fix" if fixed_writer else "ops_cur"
        setops = "setitem_ops_fix" if fixed_writer else "setitem_ops_cur"
        wts = weights(events)
        key0 = info[0]["key"]
        kcomps = key0 if isinstance(key0, tuple) else (key0,)
        # codec hypothesis, validated exhaustively for the entries of this scenario
        tmpl_files = {p: b for p, b in res["tmpl"] if b is not None}
        entry_bytes = []
        for e in info:
            kc = e["key"] if isinstance(e["key"], tuple) else (e["key"],)
            b = tmpl_files.get(tuple(kc))
            if b is None:
                b = pickle.dumps(e["con"])
            entry_bytes.append(b)
        for b in set(entry_bytes + [res["new_bytes"]]):
            ks = range(len(b)) if len(b) < 20000 else sorted(set(range(0, len(b), 7)) | set(range(len(b) - 64, len(b))))
            for k in ks:
                try:
                    pickle.loads(b[:k])
                    ctx.fail("codec hypothesis fails: a strict prefix of a pickled entry unpickles",
                             {"bytes": b.hex(), "prefix": k}, found_input=False)
                except (EOFError, pickle.UnpicklingError):
                    pass
                except Exception as e:
                    ctx.fail("codec hypothesis fails: a strict prefix raises %r (not caught by the retry loop)" % (e,),
                             {"bytes": b.hex(), "prefix": k}, found_input=False)
            ctx.count("codec_prefixes_checked", len(ks))
        for (kill, deep), ob in zip(pts, res["points"]):
            rep = {"scenario": desc, "kill_call": kill[0], "kill_after_bytes": kill[1],
                   "calls": [list(e) for e in events], "writer_log": ob["log"][-4:],
                   "kill_mode": ("C-call event number kill_call of %s inside DiskDict.__setitem__ (sys.setprofile)"
                                 % sc.get("prof_events")) if sc.get("prof") else "recorded file-system call",
                   "directory_after_crash": [
                       (list(p), None if b is None else (b.hex() if len(b) <= 400 else
                                                         b[:100].hex() + "...(%d bytes)" % len(b)))
                       for p, b in (ob["snap"] or [])]}
            if any("writer_exception" in l for l in ob["log"]):
                ctx.fail("the writer raised instead of storing", rep)
                continue
            new_bytes = res["new_bytes"]
            if sc["mode"] == "opt":
                vals = [l for l in ob["log"] if "value" in l]
                if vals:
                    new_bytes = bytes.fromhex(vals[0]["value"])
                    c = vals[0]["con"]
                    new_con = {"path": tuple(tuple(p) for p in c[0]), "score": float.fromhex(c[1]),
                               "sliced_inds": tuple(c[2])}
                else:
                    new_con = None          # killed before the search finished: nothing to store yet
            else:
                new_con = new
            n_model = sum(wts[: kill[0]]) + (kill[1] or 0)
            if sc.get("prof"):
                ctx.count("crash_at_c_call_inside_setitem")
            else:
                ctx.count("crash_before_%s" % (events[kill[0]][0] if kill[0] < len(events) else "exit")
                          if kill[1] is None else "crash_inside_write")
            if sc.get("xfs_base"):
                ctx.count("cache_on_other_filesystem")
            ctx.case((repr(desc), kill), nontrivial=True,
                     sample=rep if len(ctx.coverage["samples"]) < 3 and kill[1] else None)
            # ---------------- oracle -----------------------------------------------------
            old_con = info[0]["con"] if sc["case"] == "overwrite" else None
            snap = ob["snap"]
            tfile = None
            if snap is not None:
                tfile = dict(snap).get(tuple(kcomps))
            torn = tfile is not None and any(
                is_prefix(tfile, b) and len(tfile) < len(b) for b in [new_bytes, entry_bytes[0]])
            for v, rr in ob["readers"].items():
                rep_v = dict(rep, reader=v)
                if rr[0] != "ok":
                    ctx.fail("the fresh process could not even open the cache: %s" % rr[1][-300:], rep_v,
                             key="diskdict-torn-write" if torn and "UnboundLocalError" in rr[1] else None)
                    continue
                rrecs = rr[1]
                for j, r in enumerate(rrecs):
                    qi = r["q"]
                    q = sc["pool"][qi]
                    m = r["maybe"]
                    okm = m is not None and m[0] == "ok"
                    rep_q = dict(rep_v, query=q, query_is_target=(qi == 0), outcome=m, raised=r.get("raise"))
                    known = None
                    if (not okm) and m is not None and m[1] == "UnboundLocalError" and qi == 0 and torn:
                        known = "diskdict-torn-write"
                    complete_vals = [c for c in (new_con, old_con) if c is not None]
                    if READERS[v]["cache_only"] and qi == 0 and j == 0 and not okm and sc["case"] == "overwrite" \
                            and old_con is not None and known is None:
                        ctx.fail("the entry that was being overwritten when the writer died is lost: it was stored "
                                 "before the crash and a later cache_only process raises %r" % (m,), rep_q)
                        continue
                    if READERS[v]["cache_only"] and qi == 0 and j == 0 and not okm:
                        # documented: KeyError on a miss (the entry may legitimately be absent)
                        if m is None or m[1] != "KeyError":
                            ctx.fail("cache_only reader raised %r on the crashed entry" % (m,), rep_q, key=known)
                        continue
                    if READERS[v]["cache_only"] and qi == 0 and not okm:
                        continue
                    if not okm and READERS[v]["cache_only"] and sc["case"] == "newdir" and m is not None and m[1] == "KeyError":
                        continue
                    if not okm:
                        ctx.fail("a later process raised %r on %s" % (
                            r.get("raise"), "the crashed contraction" if qi == 0 else "an entry stored before the crash"),
                            rep_q, key=known)
                        continue
                    searched = bool(m[1])
                    con = m[2]
                    if qi != 0 and sc["case"] == "newdir":
                        pass            # nothing had been stored in a directory that did not exist yet
                    elif qi != 0:
                        want = info[qi]["con"]
                        if READERS[v]["overwrite"] == "improved":
                            # an 'improved' reader searches again by design; the entry may only get better
                            if con["score"] > want["score"]:
                                ctx.fail("'improved' reader made an older entry worse", rep_q)
                        elif searched or tuple(map(tuple, con["path"])) != tuple(map(tuple, want["path"])) \
                                or con["score"] != want["score"]:
                            ctx.fail("an entry stored before the crash is no longer served from the cache", rep_q)
                    elif not searched and j == 0:
                        # answered from the cache: must be a COMPLETE entry (the new or the old one)
                        ok = any(tuple(map(tuple, con["path"])) == tuple(map(tuple, c["path"]))
                                 and con["score"] == c["score"] for c in complete_vals)
                        if not ok:
                            ctx.fail("the crashed contraction was answered from something that is neither the "
                                     "complete new nor the complete old entry", rep_q)
                        ctx.count("reader_hit_on_target")
                    elif searched:
                        ctx.count("reader_searched_again")
                        if j == 0 and sc["case"] == "overwrite" and READERS[v]["overwrite"] is False:
                            ctx.fail("the entry that was being overwritten when the writer died is lost: a later "
                                     "process had to search the contraction again", rep_q)
                    if j == len(rrecs) - 1 and qi == 0 and READERS[v]["overwrite"] != "improved" and searched:
                        ctx.fail("after repairing the entry the same process searched again", rep_q)
                    if "tree" in r:
                        bad = c14.judge_tree(q, r["tree"], r["stored"], "hyper")
                        if bad:
                            ctx.fail("fresh process after the crash: " + bad, rep_q)
                    else:
                        ctx.fail("search() raised %r" % (r.get("raise"),), rep_q, key=known)
            # ---------------- model -----------------------------------------------------------
            if sc["case"] == "newdir" or snap is None or sc.get("no_model"):
                continue
            if new_con is None:
                continue
            K = KFIX
            sid = jid        # every job builds its own template directory (its own search results)
            if sid not in prelude:
                base_l, seen0 = [], set()
                for c, bts in list(zip([e["con"] for e in info], entry_bytes)) + [(new, res["new_bytes"])]:
                    lit = c14.con_lit(c, K)
                    if lit not in seen0:
                        seen0.add(lit)
                        base_l.append("(%s, %s)" % (lit, coq(list(bts))))
                pre_entries = list(info)[1:] if sc["case"] == "new" else list(info)
                defs = ["Definition T%d : list (con * bytes) := [%s]." % (sid, "; ".join(base_l))]
                for i, e in enumerate(info):
                    defs.append("Definition K%d_%d : dkey := %s." % (sid, i, key_lit(e["key"])))
                    defs.append("Definition C%d_%d : con := %s." % (sid, i, c14.con_lit(e["con"], K)))
                pre_ops = " ++ ".join("%s con (tab_encode T%d) K%d_%d C%d_%d" % (setops, sid, sid, i, sid, i)
                                      for i, e in enumerate(info) if e in pre_entries) or "[]"
                # sub-directories present in the template (e.g. the target's own, when it was not removed)
                extra_dirs = [pth for pth, bts in res["tmpl"] if bts is None]
                pre_dirs = " ++ ".join("[Mkdir %s]" % coq([[ord(c) for c in nm] for nm in pth])
                                       for pth in extra_dirs) or "[]"
                defs.append("Definition P%d : fs := run_ops ((%s) ++ (%s)) fs0." % (sid, pre_dirs, pre_ops))
                prelude[sid] = ("\n".join(defs), seen0)
            seen = set(prelude[sid][1])
            extra_l = []
            reader_new = []
            for v, rr in ob["readers"].items():
                if rr[0] == "ok":
                    for r in rr[1]:
                        reader_new.extend(r["new"])
            for c, bts in [(new_con, new_bytes)] + reader_new:
                lit = c14.con_lit(c, K)
                if lit not in seen:
                    seen.add(lit)
                    extra_l.append("(%s, %s)" % (lit, coq(list(bts))))
            ct = "([%s] ++ T%d)" % ("; ".join(extra_l), sid)
            # (a) directory contents
            real_fs = sorted(([[ord(c) for c in canon_name(nm)] for nm in pth], None if bts is None else len(bts))
                             for pth, bts in snap)
            fs_l = "[" + "; ".join("(%s, %s)" % (coq(pth), "None" if sz is None else "(Some %d)" % sz)
                                   for pth, sz in real_fs) + "]"
            # (b) DiskDict probe of every key by a fresh process
            lhs_parts, rhs_parts = [], []
            if ob.get("probe") and ob["probe"][0] == "ok":
                for i, (e, (c, g)) in enumerate(zip(info, ob["probe"][1])):
                    lhs_parts.append("(fst (o_contains ov dsk K%d_%d), fst (o_getitem ov dsk K%d_%d))" % (sid, i, sid, i))
                    if g[0] == "ok":
                        gl = "(Ok %s)" % c14.con_lit(g[1], K)
                    else:
                        gl = {"KeyError": "KeyErr", "UnboundLocalError": "UnboundErr"}.get(g[1], "OtherErr")
                    rhs_parts.append("(%s, %s)" % (coq(bool(c)) if isinstance(c, bool) else "false", gl))
            # (c) _maybe_run_optimizer of the fresh processes on the crashed contraction
            m_l, m_r = [], []
            auto_l, auto_r = [], []          # directory_split="auto": detected layout
            for v, rr in sorted(ob["readers"].items()):
                if rr[0] != "ok" or not rr[1]:
                    continue
                r0 = rr[1][0]
                m = r0["maybe"]
                if m is None or r0.get("pre") is None:
                    continue
                htab = "[(%s, %s)]" % (c14.fpr_lit("a", r0["pre"]), c14.name_lit(r0["digest"]))
                sess = reader_session(sc["split"], v)
                orc = c14.con_lit(r0["new"][0][0], K) if r0["new"] else "(mkCon [] 0%Z [])"
                if READERS[v].get("auto"):
                    cfg = "(mkCfg false (split_auto cr) OvFalse %s false)" % coq(bool(sess["cache_only"]))
                    auto_l.append("split_auto cr")
                    auto_r.append(coq(bool(r0["split_used"])))
                else:
                    cfg = c14.cfg_lit(sess, sc["split"])
                m_l.append("fst (maybe_run (H_tab %s) ov (fun _ _ => %s) %s (dsk, 0) %s)" % (
                    htab, orc, cfg, c14.net_lit(sc["pool"][0])))
                if m[0] == "ok":
                    m_r.append("(Ok (%s, %s))" % (coq(bool(m[1])), c14.con_lit(m[2], K)))
                else:
                    m_r.append({"KeyError": "KeyErr", "UnboundLocalError": "UnboundErr"}.get(m[1], "OtherErr"))
            lhs = ("let ct := %s in let cr := crash_at %d (%s con (tab_encode ct) K%d_0 %s) P%d in "
                   "let dsk := mkDD [] true cr in let ov := %s (tab_encode ct) (tab_decode ct) 3 in "
                   "(fs_obs_sorted cr, ([%s], ([%s], [%s])))") % (
                ct, n_model, setops, sid, c14.con_lit(new_con, K), sid, ops, "; ".join(lhs_parts), "; ".join(m_l),
                "; ".join(auto_l))
            rhs = "(%s, ([%s], ([%s], [%s])))" % (fs_l, "; ".join(rhs_parts), "; ".join(m_r), "; ".join(auto_r))
            cases.append(("crash", lhs, rhs))
            recs.append(dict(rep, probe=repr(ob.get("probe")),
                             readers={v: repr(rr[1][0]["maybe"]) if rr[0] == "ok" and rr[1] else rr[0]
                                      for v, rr in ob["readers"].items()},
                             correspondence="Model/DiskFS.v crash_at (directory contents), DiskDict "
                                            "__contains__/__getitem__ of a fresh process, Model/Reusable.v "
                                            "maybe_run of fresh plain/improved/cache_only readers"))
    ctx.log("model: %d cases (%s writer)" % (len(cases), "/".join(sorted(variant_seen))))
    if os.environ.get("C15_DEBUG_CASES"):
        with open(os.environ["C15_DEBUG_CASES"], "w") as f:
            json.dump(cases, f)
        return
    failing = c14.coq_cases_limited(ctx, "c15", ["Reusable"], cases, 40,
                                    prelude="\n".join(prelude[k][0] for k in sorted(prelude)))
    for idx, label, val in failing:
        rec = dict(recs[idx]) if idx < len(recs) else {}
        rec["model_value"] = val
        rec["expected_from_code"] = cases[idx][2][:3000] if idx < len(cases) else None
        rec["case_kind"] = cases[idx][0] if idx < len(cases) else label
        ctx.fail("model and implementation disagree (%s)" % rec["case_kind"], rec, found_input=False)
    ctx.coverage["writer_variant"] = sorted(variant_seen)
    ctx.coverage["rule"] = (
        "scenarios = {new entry, overwrite of an existing entry, cache directory not yet created} x directory_split "
        "x {DiskDict.__setitem__ directly, whole ReusableHyperOptimizer.search}; crash points = before every "
        "recorded file-system call, after the last, and after k bytes of every write (all k for two scenarios and "
        "in the thorough tier; a stride otherwise); readers = raw DiskDict probe + ReusableHyperOptimizer plain / "
        "'improved' / cache_only sessions querying the crashed contraction, two contractions stored before, and the "
        "crashed one again; distinct by (scenario, crash point)")
    ctx.assumptions = [
        "pickle_prefix_free: no strict prefix of a pickled entry unpickles (validated exhaustively for every entry used)",
        "rename_atomic: os.replace is atomic with respect to process death (assumption of the fixed model)",
        "partial: fs-ordering -- the kernel/file system applies the calls of one process in program order; power loss, "
        "reordering and concurrent writers are not covered",
        "a crash = process death (os._exit) between or inside calls; data in user-space buffers is lost",
        "correspondence is executed, not proved (hand-written model)"]
    ctx.notes.append("partial: fs-ordering")


if __name__ == "__main__":
    if len(sys.argv) > 1 and sys.argv[1] == "--worker":
        worker_main(sys.argv[1:])
    else:
        main(PROP, run)

"""C12 -- the einsum front end accepts what numpy.einsum accepts and means the same.

Parts of a run
  K1  model (Model/Parse.v, evaluated by coqc/vm_compute) vs the real parsers of
      cotengra/utils.py and the front half of cotengra/interface.py on generated call forms
  K2  NumpySpec (the specification section of Parse.v) vs numpy itself: the parse that the
      specification produces drives an independent brute-force evaluator whose result is
      compared with numpy.einsum (value, shape, axis order); accept/reject must agree too
  K3  model vs NumpySpec inside Coq (agrees_with_numpy) on every generated form
  O   oracle: cotengra.einsum(*args) == numpy.einsum(*args) exactly on small integer arrays;
      array_contract with arbitrary hashable labels and ncon == the equivalent numpy.einsum
Known findings (KNOWN_FINDINGS.txt) are probed with their fixed repro on every run and
classified by a predicate that re-runs the call with exactly the one feature removed.
"""
import ast
import itertools
import re
import signal
import string
from concurrent.futures import ThreadPoolExecutor

from vlib.core import Raw, Z, coq, main, standard_proof_steps

PROP = "C12"
LETTERS = string.ascii_lowercase + string.ascii_uppercase   # numpy's labels


# ---------------------------------------------------------------------------
# Coq literals
def S(s):
    """python str -> Coq list of code points"""
    return "[" + "; ".join(str(ord(c)) for c in s) + "]"


def nats(l):
    return "[" + "; ".join(str(int(x)) for x in l) + "]"


def zs(l):
    return "[" + "; ".join("(%d)%%Z" % int(x) for x in l) + "]"


def lst(items):
    return "[" + "; ".join(items) + "]"


def shapes_lit(shapes):
    return lst(zs(s) for s in shapes)


def sub_lit(sub):
    return lst("IE" if x is Ellipsis else "IL %d" % x for x in sub)


def opt(x):
    return "None" if x is None else "(Some %s)" % x


def args_lit(form):
    if form["kind"] == "str":
        return "(AStr %s %s)" % (S(form["eq"]), shapes_lit(form["shapes"]))
    ops = lst("(%s, %s)" % (zs(sh), sub_lit(sub)) for sh, sub in zip(form["shapes"], form["subs"]))
    return "(AInter %s %s)" % (ops, opt(None if form["out"] is None else sub_lit(form["out"])))


def strs_lit(strs):
    return lst(S(s) for s in strs)


def sizes_lit(d):
    return lst("(%d, (%d)%%Z)" % (k, v) for k, v in d)


def parse_coq_value(txt):
    """printed vm_compute value (lists, pairs, options, nat, Z, bool, LN/LB) -> python object"""
    t = txt.rsplit(" : ", 1)[0]
    t = re.sub(r"LN (\d+)", r"('N', \1)", t)
    t = re.sub(r"LB (\d+)", r"('B', \1)", t)
    t = t.replace("%Z", "").replace("%nat", "").replace(";", ",")
    t = re.sub(r"\bSome\b", "", t)
    t = re.sub(r"\btrue\b", "True", t)
    t = re.sub(r"\bfalse\b", "False", t)
    return ast.literal_eval(t.strip())


# ---------------------------------------------------------------------------
# generators
def gen_struct(rng, nops=None, allow_ell=True, max_labels=3):
    """a structured einsum call numpy accepts: terms (labels before/after an optional
    ellipsis), broadcast ranks, sizes, explicit or implicit output"""
    nops = nops or rng.choice([1, 1, 2, 2, 2, 3, 3, 4])
    pool = rng.sample(LETTERS, rng.randint(1, 5))
    if rng.random() < 0.5:
        pool = sorted(pool, key=lambda c: rng.random())
    size = {c: rng.choice([1, 2, 2, 3, 3]) for c in pool}
    use_ell = allow_ell and rng.random() < 0.55
    N = rng.choice([0, 1, 1, 2, 2, 3]) if use_ell else 0
    bsize = [rng.choice([2, 2, 3]) for _ in range(N)]
    terms = []
    for i in range(nops):
        k = rng.choice([0, 1, 2, 2, 3][: max_labels + 2])
        if rng.random() < 0.25:
            labs = [rng.choice(pool) for _ in range(k)]            # repeats allowed (diagonals)
        else:
            labs = rng.sample(pool, min(k, len(pool)))
        has_ell = use_ell and rng.random() < 0.75
        nb = rng.randint(0, N) if has_ell else 0
        pos = rng.randint(0, len(labs))
        terms.append({"pre": labs[:pos], "ell": has_ell, "post": labs[pos:], "nb": nb})
    if use_ell and not any(t["ell"] for t in terms):
        terms[0]["ell"] = True
    if use_ell:
        t = rng.choice([t for t in terms if t["ell"]])
        t["nb"] = N                                                # someone carries all of them
    present = []
    for t in terms:
        for c in t["pre"] + t["post"]:
            if c not in present:
                present.append(c)
    explicit = rng.random() < 0.6
    out = None
    if explicit:
        k = rng.randint(0, len(present))
        ol = rng.sample(present, k)
        has = N > 0 or (use_ell and rng.random() < 0.5)
        pos = rng.randint(0, len(ol))
        out = {"pre": ol[:pos], "ell": has, "post": ol[pos:]}
    return {"terms": terms, "out": out, "size": size, "bsize": bsize, "N": N}


def term_str(t):
    return "".join(t["pre"]) + ("..." if t["ell"] else "") + "".join(t["post"])


def struct_shapes(st):
    shapes = []
    N = st["N"]
    for t in st["terms"]:
        b = st["bsize"][N - t["nb"]:] if t["nb"] else []
        shapes.append(tuple([st["size"][c] for c in t["pre"]] + list(b) + [st["size"][c] for c in t["post"]]))
    return shapes


def struct_to_str_form(st):
    eq = ",".join(term_str(t) for t in st["terms"])
    if st["out"] is not None:
        eq += "->" + term_str(st["out"])
    return {"kind": "str", "eq": eq, "shapes": struct_shapes(st)}


def np_label(c):
    """numpy's integer label of a letter in the interleaved form"""
    return ord(c) - 65 if c.isupper() else ord(c) - 97 + 26


def struct_to_inter_form(st):
    def sub(t):
        return [np_label(c) for c in t["pre"]] + ([Ellipsis] if t["ell"] else []) + [np_label(c) for c in t["post"]]
    return {"kind": "inter", "subs": [sub(t) for t in st["terms"]],
            "out": None if st["out"] is None else sub(st["out"]), "shapes": struct_shapes(st)}


def add_spaces(rng, eq):
    """blanks anywhere except inside '...' and '->' (numpy ignores them)"""
    toks = re.findall(r"\.\.\.|->|.", eq)
    out = []
    for t in toks:
        if rng.random() < 0.4:
            out.append(" " * rng.randint(1, 2))
        out.append(t)
    if rng.random() < 0.5 or " " not in "".join(out):
        out.append(" ")
    return "".join(out)


def once_sorted_first_seen(subs):
    flat = [x for s in subs for x in s if x is not Ellipsis]
    first = [x for i, x in enumerate(flat) if flat.count(x) == 1]
    return first, sorted(first)


def make_form(rng):
    """returns (form, feature set).  Known-defect features are injected one at a time."""
    st = gen_struct(rng)
    feats = set()
    r = rng.random()
    kind = "inter" if rng.random() < 0.35 else "str"
    form = struct_to_inter_form(st) if kind == "inter" else struct_to_str_form(st)
    N = st["N"]
    if any(t["ell"] for t in st["terms"]):
        feats.add("ellipsis")
        if len({t["nb"] for t in st["terms"] if t["ell"]}) > 1 or any(not t["ell"] for t in st["terms"]):
            feats.add("ellipsis_ranks_differ")
        if any(t["ell"] and t["pre"] and t["post"] for t in st["terms"]):
            feats.add("ellipsis_mid")
    feats.add("explicit" if st["out"] is not None else "implicit")
    feats.add("nops%d" % len(st["terms"]))
    if any(len(set(t["pre"] + t["post"])) < len(t["pre"] + t["post"]) for t in st["terms"]):
        feats.add("repeat_in_term")
    if any(c.isupper() for t in st["terms"] for c in t["pre"] + t["post"]):
        feats.add("uppercase")
    if any(not (t["pre"] or t["post"] or t["nb"]) for t in st["terms"]):
        feats.add("scalar_operand")
    # ---- known-defect features, mutually exclusive --------------------------------
    inter_unsorted = False
    if kind == "inter" and form["out"] is None:
        first, srt = once_sorted_first_seen(form["subs"])
        inter_unsorted = first != srt
    if inter_unsorted:
        pass        # this call already carries interleaved-implicit-order: inject nothing else
    elif kind == "str" and r < 0.10:
        form["eq"] = add_spaces(rng, form["eq"])
        feats.add("K:spaces")
    elif r < 0.20 and N > 0:
        # one operand carries a broadcast dimension with size 1 where another has n > 1
        carriers = [i for i, t in enumerate(st["terms"]) if t["nb"] > 0]
        if len(carriers) >= 2:
            i = rng.choice(carriers)
            t = st["terms"][i]
            j = rng.randrange(t["nb"])                       # j-th of this operand's broadcast dims
            col = N - t["nb"] + j                            # which global broadcast dim
            others = [u for k, u in enumerate(st["terms"]) if k != i and u["nb"] >= N - col]
            if others:
                sh = list(form["shapes"][i])
                sh[len(t["pre"]) + j] = 1
                form["shapes"][i] = tuple(sh)
                feats.add("K:bcast1")
    elif kind == "str" and r < 0.27 and st["out"] is not None and not any(t["ell"] for t in st["terms"]) \
            and not st["out"]["ell"]:
        o = dict(st["out"], ell=True)
        form["eq"] = form["eq"].split("->")[0] + "->" + term_str(o)
        feats.add("K:outell0")
    if kind == "inter" and 0.27 <= r < 0.32 and form["out"] is not None and Ellipsis not in form["out"] \
            and not any(Ellipsis in sub for sub in form["subs"]):
        form["out"].insert(rng.randint(0, len(form["out"])), Ellipsis)
        feats.add("K:inter_outell0")
    if kind == "inter":
        feats.add("interleaved")
        if form["out"] is None:
            first, srt = once_sorted_first_seen(form["subs"])
            if first != srt:
                feats.add("K:inter_order")
    else:
        feats.add("string")
    return form, feats


def malformed(rng):
    """strings for the model-vs-code correspondence only (most are rejected by numpy)"""
    st = gen_struct(rng)
    form = struct_to_str_form(st)
    eq = form["eq"]
    shapes = list(form["shapes"])
    k = rng.randrange(9)
    if k == 0:
        i = rng.randrange(len(eq) + 1)
        eq = eq[:i] + "." + eq[i:]
    elif k == 1:
        eq = eq + "->" + "".join(rng.sample(LETTERS, 2))
    elif k == 2 and shapes:
        shapes = shapes[:-1]
    elif k == 3:
        shapes = shapes + [(2,)]
    elif k == 4:
        i = rng.randrange(len(eq) + 1)
        eq = eq[:i] + rng.choice(["..", "...", ". .", "-", ">", ",", "->", " "]) + eq[i:]
    elif k == 5 and shapes:
        i = rng.randrange(len(shapes))
        shapes[i] = shapes[i][:-1] if rng.random() < 0.5 and shapes[i] else shapes[i] + (2,)
    elif k == 6:
        eq = eq.replace("...", "", 1)
    elif k == 7:
        i = rng.randrange(len(eq) + 1)
        eq = eq[:i] + chr(rng.choice([192, 200, 300, 946, 20140])) + eq[i:]
    else:
        eq = "".join(rng.choice("ab.,->. ") for _ in range(rng.randint(0, 7)))
    return {"kind": "str", "eq": eq, "shapes": [tuple(s) for s in shapes]}


def rand_arrays(rng, shapes):
    import numpy as np
    arrs = []
    for sh in shapes:
        n = 1
        for d in sh:
            n *= d
        arrs.append(np.array([rng.randint(-3, 3) for _ in range(n)], dtype=np.int64).reshape(sh))
    return arrs


def call_args(form, arrays):
    if form["kind"] == "str":
        return (form["eq"],) + tuple(arrays)
    a = []
    for x, s in zip(arrays, form["subs"]):
        a += [x, list(s)]
    if form["out"] is not None:
        a.append(list(form["out"]))
    return tuple(a)


# ---------------------------------------------------------------------------
# independent evaluator driven by NumpySpec's parse
def spec_evaluate(ops, out, arrays):
    import numpy as np
    size = {}
    for labs, a in zip(ops, arrays):
        for l, d in zip(labs, a.shape):
            size[l] = max(size.get(l, 1), d)
    order = list(out) + [l for l in size if l not in out]
    res = np.zeros(tuple(size[l] for l in out), dtype=object)
    for vals in itertools.product(*[range(size[l]) for l in order]):
        env = dict(zip(order, vals))
        p = 1
        for labs, a in zip(ops, arrays):
            idx = tuple(env[l] if a.shape[i] > 1 else 0 for i, l in enumerate(labs))
            p *= int(a[idx])
            if p == 0:
                break
        key = tuple(env[l] for l in out)
        res[key] = res[key] + p
    return res


def equal_exact(x, ref):
    import numpy as np
    x = np.asarray(x)
    ref = np.asarray(ref)
    if tuple(x.shape) != tuple(ref.shape):
        return False
    if x.size == 0:
        return True
    return bool(np.all(x.astype(object) == ref.astype(object)))


class Timeout(Exception):
    pass


def guarded(f, seconds=60):
    """run f() under an alarm: a front end that loops is reported, not waited for"""
    def handler(signum, frame):
        raise Timeout()
    old = signal.signal(signal.SIGALRM, handler)
    signal.alarm(seconds)
    try:
        return f()
    finally:
        signal.alarm(0)
        signal.signal(signal.SIGALRM, old)


def outcome(f):
    try:
        return ("ok", guarded(f))
    except Timeout:
        return ("timeout", None)
    except Exception as e:  # noqa
        return ("raises", "%s: %s" % (type(e).__name__, str(e)[:120]))


# ---------------------------------------------------------------------------
# removing exactly one known-defect feature from a call (classification predicates)
def without_spaces(form):
    return dict(form, eq=form["eq"].replace(" ", ""))


def with_explicit_sorted_output(form):
    first, srt = once_sorted_first_seen(form["subs"])
    o = ([Ellipsis] if any(Ellipsis in s for s in form["subs"]) else []) + srt
    return dict(form, out=o)


def materialise_broadcast(form, arrays):
    """stretch every size-1 ellipsis dimension to its broadcast size"""
    import numpy as np
    if form["kind"] == "str":
        subs = [t.replace(" ", "") for t in form["eq"].split("->")[0].split(",")]
        nlab = [len(t.replace("...", "")) for t in subs]
        pre = [t.index("...") if "..." in t else None for t in subs]
    else:
        nlab = [len([x for x in s if x is not Ellipsis]) for s in form["subs"]]
        pre = [s.index(Ellipsis) if Ellipsis in s else None for s in form["subs"]]
    nbs = [a.ndim - n if p is not None else 0 for a, n, p in zip(arrays, nlab, pre)]
    N = max(nbs) if nbs else 0
    full = [1] * N
    for a, nb, p in zip(arrays, nbs, pre):
        for j in range(nb):
            full[N - nb + j] = max(full[N - nb + j], a.shape[p + j])
    new = []
    for a, nb, p in zip(arrays, nbs, pre):
        sh = list(a.shape)
        for j in range(nb):
            sh[p + j] = full[N - nb + j]
        new.append(np.ascontiguousarray(np.broadcast_to(a, sh)) if nb else a)
    return new


def without_output_ellipsis(form):
    lhs, rhs = form["eq"].split("->")
    return dict(form, eq=lhs + "->" + rhs.replace("...", ""))


def load_corpus():
    """corpus/C12/*.json: the repros of the findings (regression cases once fixed); run first"""
    import glob
    import json
    import os
    from vlib.core import VERIF
    out = []
    for fn in sorted(glob.glob(os.path.join(VERIF, "corpus", "C12", "*.json"))):
        d = json.load(open(fn))
        f = d["form"]
        f["shapes"] = [tuple(sh) for sh in f["shapes"]]
        if f["kind"] == "inter":
            f["subs"] = [[Ellipsis if x == "..." else x for x in sub] for sub in f["subs"]]
            if f["out"] is not None:
                f["out"] = [Ellipsis if x == "..." else x for x in f["out"]]
        out.append((d["key"], f))
    return out


def classify(form, feats, arrays, want):
    """which known finding (if any) explains a failing einsum call: the call must carry the
    feature AND agree with numpy once exactly that feature is removed"""
    import cotengra as ctg

    def ok(f2, arrs):
        r = outcome(lambda: ctg.einsum(*call_args(f2, arrs)))
        return r[0] == "ok" and equal_exact(r[1], want)

    if form["kind"] == "str" and " " in form["eq"] and ok(without_spaces(form), arrays):
        return "eq-spaces"
    if form["kind"] == "inter" and form["out"] is None and ok(with_explicit_sorted_output(form), arrays):
        return "interleaved-implicit-order"
    if form["kind"] == "str" and "->" in form["eq"] and "..." in form["eq"].split("->")[1] \
            and "..." not in form["eq"].split("->")[0] and ok(without_output_ellipsis(form), arrays):
        return "output-ellipsis-only"
    if form["kind"] == "inter" and form["out"] is not None and Ellipsis in form["out"] \
            and not any(Ellipsis in sub for sub in form["subs"]) \
            and ok(dict(form, out=[x for x in form["out"] if x is not Ellipsis]), arrays):
        return "interleaved-output-ellipsis-only"
    try:
        m = materialise_broadcast(form, arrays)
    except Exception:  # noqa
        m = None
    if m is not None and any(a.shape != b.shape for a, b in zip(m, arrays)) and ok(form, m):
        return "ellipsis-size1-broadcast"
    return None


# ---------------------------------------------------------------------------
def run(ctx):
    if not standard_proof_steps(ctx):
        return
    import numpy as np
    import cotengra as ctg
    from cotengra import utils as U
    from cotengra import interface as I

    rng = ctx.rng
    IM = ["Base", "Parse"]
    # which variant of the model the code must equal: a finding still `known:` -> pinned behaviour,
    # no longer listed (turned into `fixed:`) -> the model with the proposed patch
    fa = not ctx.known_key("eq-spaces")
    fb = not ctx.known_key("interleaved-implicit-order")
    fd = not ctx.known_key("output-ellipsis-only")
    # interleaved-output-ellipsis-only: decided from the real behaviour of the code under test (the
    # repair may be proposed but not yet committed): does convert_from_interleaved still look the
    # output's Ellipsis up in the symbol map?
    try:
        U.convert_from_interleaved(((2, 3), [0, 1], [Ellipsis, 1, 0]))
        fio = True
    except KeyError:
        fio = False
    FX = "(mkFx %s %s %s %s)" % (coq(fa), coq(fb), coq(fd), coq(fio))
    ctx.meta["model_variant"] = {"fx_spaces": fa, "fx_inter": fb, "fx_outell": fd, "fx_interout": fio}
    # a `fixed: property=C12 PENDING key=<k> ...` line: the repair exists as a proposed patch but is not
    # yet a commit of /repo; while the old failure still occurs it is reported as a KNOWN-FINDING
    pending = {}
    for prop, commit, text in ctx.kf.fixed:
        m = re.match(r"key=(\S+)\s+(.*)", text)
        if prop == PROP and commit == "PENDING" and m:
            pending[m.group(1)] = "(repair pending) " + m.group(2)

    def report(what, rec, key=None, found_input=True):
        if key is not None and not ctx.known_key(key) and key in pending:
            ctx.known_hits.setdefault(key, pending[key])
            return False
        return ctx.fail(what, rec, key=key, found_input=found_input)
    ctx.coverage["model_variant"] = ctx.meta["model_variant"]
    cases = []          # (label, lhs, rhs) for ctx.coq_cases
    recs = []

    def add_case(label, lhs, rhs, rec):
        cases.append((label, lhs, rhs))
        recs.append(rec)

    def code_points(s):
        return [ord(c) for c in s]

    def real_parse(eq, shapes):
        """parse_equation_ellipses(eq, shapes, tuples=True) -> Coq literal of the observation"""
        try:
            ins, out = U.parse_equation_ellipses(eq, tuple(map(tuple, shapes)), True)
            return "(Some (%s, %s))" % (strs_lit("".join(t) for t in ins), S("".join(out)))
        except Exception:  # noqa
            return "None"

    # ---------------- table checks of the small helpers ------------------------------
    idxs = list(range(0, 60)) + [rng.randrange(60, 3000) for _ in range(20)]
    add_case("get_symbol", "map get_symbol %s" % nats(idxs), nats(ord(U.get_symbol(i)) for i in idxs),
             {"function": "get_symbol", "args": idxs})

    # ---------------- generated call forms ---------------------------------------------
    nforms = ctx.n(260, 4000)
    forms = []
    for k in range(nforms):
        form, feats = make_form(rng)
        forms.append((form, feats))
    nmal = ctx.n(120, 1500)
    mal = [malformed(rng) for _ in range(nmal)]

    # K1a: parse_equation_ellipses / parse_einsum_input / convert_from_interleaved / front
    for k, (form, feats) in enumerate(forms):
        rec = {"form": form, "features": sorted(feats)}
        shapes = form["shapes"]
        if form["kind"] == "str":
            add_case("parse_equation_ellipses#%d" % k,
                     "parse_equation_ellipses_v %s %s %s" % (coq(fd), S(form["eq"]), shapes_lit(shapes)),
                     real_parse(form["eq"], shapes), dict(rec, function="parse_equation_ellipses"))
        else:
            args = call_args(form, [tuple(s) for s in shapes])
            try:
                eq, _ = U.convert_from_interleaved(args)
                want = "(Some %s)" % S(eq)
            except Exception:  # noqa
                want = "None"
            add_case("convert_from_interleaved#%d" % k,
                     "convert_from_interleaved_v %s %s %s %s" % (
                         coq(fb), coq(fio),
                         lst(sub_lit(s) for s in form["subs"]),
                         opt(None if form["out"] is None else sub_lit(form["out"]))),
                     want, dict(rec, function="convert_from_interleaved"))
        # the front half of einsum: parse_einsum_input + normalize_input(canonicalize=True)
        args = call_args(form, [tuple(s) for s in shapes])
        try:
            ins, out, shp = U.parse_einsum_input(args, shapes=True, tuples=True)
            ni, no, nsd, _ = I.normalize_input(ins, out, None, shp, None, True)
            want = "(Some (%s, %s, %s))" % (
                strs_lit("".join(t) for t in ni), S("".join(no)),
                sizes_lit((ord(a), b) for a, b in nsd.items()))
            front = (ni, no, nsd)
        except Exception:  # noqa
            want = "None"
            front = None
        add_case("einsum_front#%d" % k, "einsum_front_v %s %s" % (FX, args_lit(form)), want,
                 dict(rec, function="einsum front"))
        # single operand fast paths
        if front is not None and len(front[0]) == 1:
            ctx.count("single_operand")
            try:
                fn = I._build_expression(front[0], front[1], front[2])
                fv = fn.__code__.co_freevars
                cl = dict(zip(fv, [c.cell_contents for c in (fn.__closure__ or ())]))
                if "perm" in cl:
                    want = "(PTranspose %s)" % nats(cl["perm"])
                    ctx.count("path_transpose")
                elif "eq" in cl:
                    want = "(PEinsum %s)" % S(cl["eq"])
                    ctx.count("path_einsum")
                else:
                    want = "PIdentity"
                    ctx.count("path_identity")
            except ValueError:
                want = "PRaise"
            add_case("build_expression_path#%d" % k,
                     "build_expression_path %s %s" % (strs_lit("".join(t) for t in front[0]), S("".join(front[1]))),
                     want, dict(rec, function="_build_expression"))

    for k, form in enumerate(mal):
        add_case("parse_equation_ellipses(malformed)#%d" % k,
                 "parse_equation_ellipses_v %s %s %s" % (coq(fd), S(form["eq"]), shapes_lit(form["shapes"])),
                 real_parse(form["eq"], form["shapes"]), {"form": form, "function": "parse_equation_ellipses"})
        ctx.count("malformed")

    # K1b: the string helpers on raw strings
    for k in range(ctx.n(80, 600)):
        form = struct_to_str_form(gen_struct(rng)) if rng.random() < 0.7 else malformed(rng)
        eq = form["eq"]
        lhs = eq.split("->")[0]
        add_case("find_output_str#%d" % k, "find_output_str %s" % S(lhs), S(U.find_output_str(lhs)),
                 {"function": "find_output_str", "lhs": lhs})
        ins, out = U.eq_to_inputs_output(eq)
        add_case("eq_to_inputs_output#%d" % k, "eq_to_inputs_output %s" % S(eq),
                 "(%s, %s)" % (strs_lit("".join(t) for t in ins), S("".join(out))),
                 {"function": "eq_to_inputs_output", "eq": eq})
        add_case("inputs_output_to_eq#%d" % k,
                 "inputs_output_to_eq %s %s" % (strs_lit("".join(t) for t in ins), S("".join(out))),
                 S(U.inputs_output_to_eq(ins, out)), {"function": "inputs_output_to_eq", "eq": eq})
        add_case("inputs_output_to_eq(canonicalize)#%d" % k,
                 "inputs_output_to_eq_canon %s %s" % (strs_lit("".join(t) for t in ins), S("".join(out))),
                 S(U.inputs_output_to_eq(ins, out, canonicalize=True)),
                 {"function": "inputs_output_to_eq(canonicalize=True)", "eq": eq})
        for t in lhs.split(","):
            try:
                w = "(Some %s)" % coq(bool(U.check_ellipsis(t)))
            except ValueError:
                w = "None"
            add_case("check_ellipsis#%d" % k, "check_ellipsis %s" % S(t), w, {"function": "check_ellipsis", "term": t})

    # K1c: canonicalize_inputs / find_output_from_inputs / normalize_input with arbitrary hashables
    hash_pool = ["x", "yy", "a", 0, 1, 7, -1, -2, -30, (0, 1), ("t", 3), (), None, 2.5, "A", frozenset([1]), 99, "b"]
    ac_cases = []
    for k in range(ctx.n(120, 1500)):
        st = gen_struct(rng, allow_ell=False, nops=rng.choice([1, 2, 2, 3, 4]))
        letters = sorted({c for t in st["terms"] for c in t["pre"] + t["post"]})
        labs = rng.sample(hash_pool, len(letters))
        lm = dict(zip(letters, labs))
        ident = {h: i for i, h in enumerate(rng.sample(hash_pool, len(hash_pool)))}   # injective naming for the model
        inputs = [tuple(lm[c] for c in t["pre"] + t["post"]) for t in st["terms"]]
        shapes = struct_shapes(st)
        explicit = st["out"] is not None
        output = tuple(lm[c] for c in st["out"]["pre"] + st["out"]["post"]) if explicit else None
        mode = rng.choice(["shapes", "size_dict", "none"])
        sd = None
        if mode == "size_dict":
            items = [(lm[c], st["size"][c]) for c in letters]
            rng.shuffle(items)
            if rng.random() < 0.3:
                items.append((rng.choice([h for h in hash_pool if h not in labs]), 5))   # a key not in any term
            sd = dict(items)
        ni, no, nsd, _ = U.canonicalize_inputs(inputs, output, shapes=shapes if mode == "shapes" else None, size_dict=sd)
        lhs = "(let '(i, o, s, _) := canonicalize_inputs %s %s %s %s in (i, o, s))" % (
            lst(nats(ident[x] for x in t) for t in inputs),
            opt(None if output is None else nats(ident[x] for x in output)),
            opt(shapes_lit(shapes) if mode == "shapes" else None),
            opt(None if sd is None else sizes_lit((ident[a], b) for a, b in sd.items())))
        rhs = "(%s, %s, %s)" % (strs_lit("".join(t) for t in ni), S("".join(no)),
                                opt(None if nsd is None else sizes_lit((ord(a), b) for a, b in nsd.items())))
        rec = {"function": "canonicalize_inputs", "inputs": inputs, "output": output, "shapes": shapes,
               "size_dict": sd, "mode": mode}
        add_case("canonicalize_inputs#%d" % k, lhs, rhs, rec)
        fo = U.find_output_from_inputs(inputs)
        add_case("find_output_from_inputs#%d" % k,
                 "find_output_from_inputs %s" % lst(nats(ident[x] for x in t) for t in inputs),
                 nats(ident[x] for x in fo), dict(rec, function="find_output_from_inputs"))
        # normalize_input without canonicalisation (labels stay; sizes from shapes by the chain-zip)
        n2 = I.normalize_input(inputs, output, None, shapes, None, False)
        add_case("normalize_input(canonicalize=False)#%d" % k,
                 "normalize_input %s %s None (Some %s) false" % (
                     lst(nats(ident[x] for x in t) for t in inputs),
                     opt(None if output is None else nats(ident[x] for x in output)), shapes_lit(shapes)),
                 "(Some (%s, %s, %s))" % (lst(nats(ident[x] for x in t) for t in n2[0]), nats(ident[x] for x in n2[1]),
                                         sizes_lit((ident[a], b) for a, b in n2[2].items())),
                 dict(rec, function="normalize_input(canonicalize=False)"))
        ctx.count("array_contract_" + ("explicit" if explicit else "implicit"))
        ac_cases.append((st, inputs, output, shapes, letters, lm))

    # K1d: ncon
    ncon_cases = []
    captured = {}
    real_ac = I.array_contract

    def spy(arrays, inputs, output=None, **kw):
        captured["io"] = (list(inputs), list(output))
        return real_ac(arrays, inputs, output, **kw)

    for k in range(ctx.n(60, 600)):
        st = gen_struct(rng, allow_ell=False, nops=rng.choice([1, 2, 2, 3, 3, 4]))
        flat = [c for t in st["terms"] for c in t["pre"] + t["post"]]
        letters = []
        for c in flat:
            if c not in letters:
                letters.append(c)
        outs = [c for c in letters if flat.count(c) == 1 or rng.random() < 0.15]
        rng.shuffle(outs)
        lm = {}
        neg = list(range(1, len(outs) + 1))
        if rng.random() < 0.3:
            neg = sorted(rng.sample(range(1, 9), len(outs)))          # gaps: -2, -5, -7
        for c, n in zip(outs, neg):
            lm[c] = -n
        pos = rng.sample(range(0, 12), len(letters))                  # 0 is a legal (non-negative) label
        for c, p in zip(letters, pos):
            lm.setdefault(c, p)
        indices = [[lm[c] for c in t["pre"] + t["post"]] for t in st["terms"]]
        shapes = struct_shapes(st)
        arrays = rand_arrays(rng, shapes)
        I.array_contract = spy
        try:
            captured.clear()
            r = outcome(lambda: I.ncon(arrays, indices))
        finally:
            I.array_contract = real_ac
        out_letters = [c for c, _ in sorted(((c, lm[c]) for c in outs), key=lambda cv: -cv[1])]
        eq = ",".join("".join(t["pre"] + t["post"]) for t in st["terms"]) + "->" + "".join(out_letters)
        want = np.einsum(eq, *arrays)
        rec = {"function": "ncon", "indices": indices, "shapes": shapes, "equivalent_einsum": eq}
        if "io" in captured:
            add_case("ncon_parse#%d" % k, "ncon_parse %s" % lst(zs(t) for t in indices),
                     "(%s, %s)" % (lst(zs(t) for t in captured["io"][0]), zs(captured["io"][1])), rec)
        ctx.count("ncon")
        ctx.case(("ncon", tuple(map(tuple, indices)), tuple(shapes)), nontrivial=len(indices) >= 2 and len(outs) >= 2)
        if r[0] != "ok" or not equal_exact(r[1], want):
            ctx.fail("ncon differs from the equivalent numpy.einsum: %r" % (r[1] if r[0] != "ok" else "values/shape",),
                     dict(rec, arrays=[a.tolist() for a in arrays]))

    # ---------------- K2 / K3: NumpySpec vs numpy, model vs NumpySpec (inside Coq) --------
    def spec_terms(form):
        A = args_lit(form)
        return "(np_parse_args %s, np_out_shape %s, agrees_args_v %s %s, front_consistent_v %s %s)" % (A, A, FX, A, FX, A)

    allforms = [(f, ft, False) for f, ft in forms] + [(f, set(), True) for f in mal]
    for key, f in load_corpus():
        allforms.insert(0, (f, {"repro:" + key}, False))
    chunks = [allforms[i:i + 150] for i in range(0, len(allforms), 150)]

    def eval_chunk(ch):
        return [parse_coq_value(v) for v in ctx.coq_eval(IM, [spec_terms(f) for f, _, _ in ch])]

    with ThreadPoolExecutor(16) as ex:
        spec_vals = [v for part in ex.map(eval_chunk, chunks) for v in part]

    nspec_ok = 0
    for (form, feats, is_mal), (sp_parse, sp_shape, agree, consistent) in zip(allforms, spec_vals):
        arrays = rand_arrays(rng, form["shapes"])
        args = call_args(form, arrays)
        npres = outcome(lambda: np.einsum(*args))
        rec = {"form": form, "features": sorted(feats), "arrays": [a.tolist() for a in arrays],
               "numpy": repr(npres[1]) if npres[0] != "ok" else np.asarray(npres[1]).tolist()}
        for ft in feats:
            ctx.count(ft)
        # ---- K2: the specification is validated against numpy ---------------------------
        if sp_shape is not None:
            nspec_ok += 1
            if npres[0] != "ok":
                ctx.fail("NumpySpec accepts a call numpy.einsum rejects (specification wrong)",
                         dict(rec, spec=repr(sp_parse)), found_input=False)
                continue
            ops, out = sp_parse
            ops = [[tuple(l) for l in t] for t in ops]
            out = [tuple(l) for l in out]
            val = spec_evaluate(ops, out, arrays)
            if list(np.asarray(npres[1]).shape) != list(sp_shape) or not equal_exact(npres[1], val):
                ctx.fail("NumpySpec's parse evaluates to something else than numpy.einsum (specification wrong)",
                         dict(rec, spec=repr(sp_parse), spec_shape=sp_shape), found_input=False)
                continue
        else:
            if npres[0] == "ok":
                # the specification may be stricter than numpy only outside the documented forms;
                # the generator of well-formed calls never leaves them
                if not is_mal:
                    ctx.fail("NumpySpec rejects a generated call numpy.einsum accepts (specification too strict)",
                             dict(rec), found_input=False)
                else:
                    ctx.count("malformed_numpy_accepts_spec_rejects")
            continue   # numpy rejects: out of scope for the property
        # ---- O: the oracle -- cotengra.einsum == numpy.einsum -----------------------------
        want = npres[1]
        got = outcome(lambda: ctg.einsum(*args))
        good = got[0] == "ok" and equal_exact(got[1], want)
        known = [f for f in feats if f.startswith("K:")]
        ctx.case((repr(form),), nontrivial=(len(form["shapes"]) >= 2 or "ellipsis" in feats) and not is_mal,
                 sample=dict(form=form, features=sorted(feats)) if len(ctx.coverage["samples"]) < 4 else None)
        if not good:
            key = classify(form, feats, arrays, want)
            report("cotengra.einsum differs from numpy.einsum: %s" % (
                got[1] if got[0] != "ok" else "shape %r vs %r" % (np.asarray(got[1]).shape, np.asarray(want).shape),),
                dict(rec, cotengra=repr(got[1]) if got[0] != "ok" else np.asarray(got[1]).tolist(),
                     model_agrees_with_spec=agree, model_network_consistent=consistent), key=key)
        # ---- K3: what the Coq model says about this very call -------------------------------
        model_ok = (agree is True) and (consistent is True)
        if model_ok and not good:
            # the model (tied to the code by K1) finds nothing wrong in the front end of a failing call:
            # the defect is outside the modelled functions (or the model is wrong)
            ctx.count("failing_call_not_explained_by_model")
            report("model verdict (agrees_with_numpy=%r, front_consistent=%r) does not explain the failing "
                     "end-to-end result" % (agree, consistent), rec, key=classify(form, feats, arrays, want),
                     found_input=True)
        if good and not model_ok:
            # e.g. ' ' used consistently as an index symbol, or a size-1 broadcast that the backend
            # einsum happens to absorb: right answer although the parse differs from numpy's
            ctx.count("right_answer_although_model_differs_from_spec")
        if any(f.startswith("repro:") for f in feats):
            continue
        # einsum_tree / einsum_expression use the same parser: spot check
        if good and rng.random() < 0.25:
            shp = [tuple(s) for s in form["shapes"]]
            r2 = outcome(lambda: ctg.einsum_expression(*call_args(form, shp))(*arrays))
            r3 = outcome(lambda: ctg.einsum_tree(*call_args(form, shp)).contract(arrays)) if len(arrays) > 1 else r2
            for nm, r in (("einsum_expression", r2), ("einsum_tree", r3)):
                if r[0] != "ok" or not equal_exact(r[1], want):
                    ctx.fail("%s differs from numpy.einsum" % nm, dict(rec, got=repr(r[1])))
            ctx.count("expression_and_tree_checked")
    ctx.coverage["correspondence"]["numpyspec_vs_numpy"] = {"cases": len(allforms), "spec_accepts": nspec_ok}

    # ---------------- O: array_contract with arbitrary hashable labels ---------------------
    for st, inputs, output, shapes, letters, lm in ac_cases:
        arrays = rand_arrays(rng, shapes)
        if output is None:
            # documented: indices that appear once, in the order they appear on the inputs
            flat = [x for t in inputs for x in t]
            out_l = [x for x in flat if flat.count(x) == 1]
        else:
            out_l = list(output)
        inv = {v: k for k, v in lm.items()}
        eq = ",".join("".join(inv[x] for x in t) for t in inputs) + "->" + "".join(inv[x] for x in out_l)
        want = np.einsum(eq, *arrays)
        got = outcome(lambda: ctg.array_contract(arrays, inputs, output))
        ctx.case(("ac", repr(inputs), repr(output), tuple(shapes)), nontrivial=len(inputs) >= 2)
        if got[0] != "ok" or not equal_exact(got[1], want):
            ctx.fail("array_contract differs from the equivalent numpy.einsum %r" % eq,
                     {"inputs": inputs, "output": output, "shapes": shapes, "arrays": [a.tolist() for a in arrays],
                      "cotengra": repr(got[1]), "equivalent_einsum": eq})
        if rng.random() < 0.2:
            sd = {lm[c]: st["size"][c] for c in letters}
            tr = outcome(lambda: ctg.array_contract_tree(inputs, output, sd).contract(arrays)) if len(inputs) > 1 else got
            ex = outcome(lambda: ctg.array_contract_expression(inputs, output, sd)(*arrays))
            pth = outcome(lambda: ctg.array_contract_path(inputs, output, sd))
            for nm, r in (("array_contract_tree", tr), ("array_contract_expression", ex)):
                if r[0] != "ok" or not equal_exact(r[1], want):
                    ctx.fail("%s differs from the equivalent numpy.einsum" % nm,
                             {"inputs": inputs, "output": output, "shapes": shapes, "got": repr(r[1])})
            if pth[0] != "ok":
                ctx.fail("array_contract_path raised", {"inputs": inputs, "output": output, "got": repr(pth[1])})
            ctx.count("array_contract_tree_expression_path_checked")

    # ---------------- run all model-vs-code cases inside Coq -------------------------------
    failing = ctx.coq_cases("c12", IM, cases, chunk=200)
    for idx, label, val in failing:
        rec = dict(recs[idx]) if idx < len(recs) else {}
        rec.update(correspondence=label, model_value=val, code_value=cases[idx][2] if idx < len(cases) else None)
        ctx.fail("model (Model/Parse.v) and implementation disagree: %s" % label, rec, found_input=False)

    ctx.coverage["rule"] = (
        "structured random einsum calls (1-4 operands, labels from a-zA-Z with repeats, optional ellipsis at any "
        "position with 0-3 right-aligned broadcast dims of differing rank, explicit output (random subset/order) or "
        "implicit), rendered as subscripts string or interleaved sublists; known-defect features (blanks, size-1 "
        "broadcast, output-only ellipsis, unsorted interleaved implicit output) injected one at a time; malformed "
        "strings (model-vs-code and accept/reject only); array_contract/ncon networks with arbitrary hashable labels. "
        "non-trivial = >=2 operands or an ellipsis; distinct by the call form")
    ctx.assumptions = [
        "numpy.einsum is the specification; NumpySpec (Parse.v) is validated against it on every generated call",
        "the contraction after the front end (tree search, kernels) is the subject of C01/C05/C11, exercised here only through the oracle",
        "correspondence is executed, not proved (hand-written model)",
        "labels given to array_contract are compared by Python equality; the generator avoids equal-but-distinct labels (1 == 1.0 == True)",
    ]
    ctx.trusted.append("numpy.einsum as the reference for values; the harness's ord()/sublist translation of call forms into Coq literals")


if __name__ == "__main__":
    main(PROP, run)

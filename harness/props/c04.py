"""C04 -- incrementally tracked costs equal a from-scratch rebuild after any history.

This file also holds the machinery shared with C02 (harness/props/c02.py imports it):
  * Tracer      -- wraps the primitive mutators of cotengra.core.ContractionTree from the
                   outside (class-level monkey patching in the harness process only) and
                   records the primitive trace every high-level call emits,
  * observe     -- the full observable state of a real tree in the layout of
                   Model/TreeState.v (tstate),
  * histories   -- generator / executor / shrinker of random operation histories,
  * the two oracles: costs vs a freshly built tree + vlib.oracle.spec_costs (C04) and
                   tree.contract vs the dense einsum (C02).
"""
import contextlib
import io
import json
import multiprocessing
import os
import random
import signal
import sys
import time
import traceback

sys.path.insert(0, os.path.dirname(os.path.abspath(__file__)))

from vlib import gen, oracle
from vlib.core import VERIF, Raw, Some, Z, coq, main, standard_proof_steps, tree_lit

PROP = "C04"
GETTERS = {
    "get_legs": "legs", "get_involved": "involved", "get_size": "size", "get_flops": "flops",
    "get_can_dot": "can_dot", "get_inds": "inds", "get_tensordot_axes": "tensordot_axes",
    "get_tensordot_perm": "tensordot_perm", "get_einsum_eq": "einsum_eq",
}
GETTER_CODE = {"legs": "GLegs", "involved": "GInvolved", "size": "GSize", "flops": "GFlops",
               "can_dot": "GCanDot", "inds": "GInds", "tensordot_axes": "GTdAxes",
               "tensordot_perm": "GTdPerm", "einsum_eq": "GEq"}
INFO_KEYS = ("legs", "involved", "size", "flops", "inds", "einsum_eq", "can_dot", "tensordot_axes",
             "tensordot_perm")


class HistoryTimeout(Exception):
    pass


# ---------------------------------------------------------------------------
# tracing the primitive mutators of the real object
class TracedDict(dict):
    """stands in for tree.contraction_cores so that .clear() / item assignment, which
    high-level methods perform directly on the dict, are seen"""
    __slots__ = ("owner", "tracer")

    def clear(self):
        tr = self.tracer
        if tr.active and tr.depth == 0:
            tr.emit(self.owner, ("cores_clear",))
        dict.clear(self)

    def __setitem__(self, k, v):
        tr = self.tracer
        if tr.active and tr.depth == 0:
            tr.emit(self.owner, ("core_add", tr.core_key(k)))
        dict.__setitem__(self, k, v)


class Tracer:
    """Events are recorded at depth 0 only: a wrapped primitive that the model implements as a
    whole (remove_ind, restore_ind, contract_stats, sort_contraction_indices, the cached
    getters, ...) raises the depth while it runs, so its internal calls are not recorded."""

    def __init__(self):
        self.depth = 0
        self.active = False
        self.events = []
        self.tids = {}        # id(tree) -> small int
        self.keep = []        # strong refs (ids must not be reused)
        self.corekeys = {}
        self.installed = False
        self.saved = {}
        self.flags = set()    # trigger conditions of known findings seen during the history

    # -- registry -----------------------------------------------------------
    def register(self, tree):
        if id(tree) not in self.tids:
            self.tids[id(tree)] = len(self.tids)
            self.keep.append(tree)
        self.wrap_cores(tree)
        return self.tids[id(tree)]

    def wrap_cores(self, tree):
        if not isinstance(tree.contraction_cores, TracedDict):
            d = TracedDict(tree.contraction_cores)
            d.owner = tree
            d.tracer = self
            tree.contraction_cores = d

    def known(self, tree):
        return id(tree) in self.tids

    def core_key(self, k):
        try:
            kk = repr(tuple((id(x) if callable(x) else x) for x in k))
        except TypeError:
            kk = repr(k)
        if kk not in self.corekeys:
            self.corekeys[kk] = len(self.corekeys)
        return self.corekeys[kk]

    def emit(self, tree, ev):
        if self.known(tree):
            self.events.append((self.tids[id(tree)], ev))

    def take(self):
        ev, self.events = self.events, []
        return ev

    # -- installation ---------------------------------------------------------
    def install(self):
        import cotengra as ctg
        CT = ctg.ContractionTree
        if self.installed:
            return
        self.installed = True
        tr = self

        def save(name):
            self.saved[name] = CT.__dict__[name]
            return CT.__dict__[name]

        def composite(name, mk_event, changes=lambda self, *a, **k: True):
            if name not in CT.__dict__:
                return          # a primitive the code no longer has: the traces will say so
            orig = save(name)

            def w(self, *a, **k):
                if tr.active and tr.depth == 0 and tr.known(self) and changes(self, *a, **k):
                    tr.emit(self, mk_event(self, *a, **k))
                    tr.depth += 1
                    try:
                        return orig(self, *a, **k)
                    finally:
                        tr.depth -= 1
                return orig(self, *a, **k)
            w.__name__ = name
            setattr(CT, name, w)

        for gname, key in GETTERS.items():
            def mk(gname=gname, key=key):
                def changes(self, node):
                    inf = self.info.get(node)
                    return inf is None or key not in inf
                composite(gname, lambda self, node: ("get", key, frozenset(node)), changes)
            mk()

        composite("_add_node", lambda self, node, check=False: ("add_node", frozenset(node)))
        composite("_remove_node", lambda self, node: ("remove_node", frozenset(node)))
        composite("contract_nodes_pair",
                  lambda self, x, y, legs=None, cost=None, size=None, check=False:
                  ("pair", frozenset(x), frozenset(y), None if legs is None else dict(legs), cost, size))
        composite("contract_stats", lambda self, force=False: ("stats", bool(force)),
                  lambda self, force=False: force or not (self._track_flops and self._track_write
                                                          and self._track_size))
        composite("total_flops", lambda self, dtype=None, log=None: ("total_flops",),
                  lambda self, dtype=None, log=None: not self._track_flops)
        composite("total_write", lambda self: ("total_write",), lambda self: not self._track_write)
        composite("max_size", lambda self, log=None: ("max_size",),
                  lambda self, log=None: self.N > 1 and not self._track_size)
        composite("reset_contraction_indices", lambda self: ("reset_inds",))
        composite("_reset_contraction_recipes", lambda self: ("reset_recipes",))
        composite("sort_contraction_indices",
                  lambda self, priority="flops", make_output_contig=True, make_contracted_contig=True,
                  reset=True: ("sort_inds", priority, bool(make_output_contig),
                               bool(make_contracted_contig), bool(reset)))

        # remove_ind / restore_ind: the copy of the non-inplace form is made visible
        for name in ("remove_ind", "restore_ind"):
            def mk2(name=name):
                orig = save(name)

                def w(self, ind, *a, inplace=False, **k):
                    if tr.active and tr.depth == 0 and tr.known(self):
                        if name == "remove_ind" and a:
                            k["project"] = a[0]
                            a = ()
                        tree = self if inplace else self.copy()
                        if name == "remove_ind":
                            rt = tree.info.get(tree.root, {})
                            if ind in tree.output and "size" in rt and "legs" not in rt:
                                # trigger of known finding C04 key=anneal_remove_output_ind: the root
                                # was created with a precomputed size and its legs were never asked for
                                tr.flags.add("anneal_remove_output_ind")
                        tr.emit(tree, (name, ind, k.get("project")) if name == "remove_ind" else (name, ind))
                        tr.depth += 1
                        try:
                            return orig(tree, ind, *a, inplace=True, **k)
                        finally:
                            tr.depth -= 1
                    return orig(self, ind, *a, inplace=inplace, **k)
                w.__name__ = name
                setattr(CT, name, w)
                import functools
                setattr(CT, name + "_", functools.partialmethod(w, inplace=True))
            mk2()

        orig_ssf = save("set_state_from")

        def set_state_from(self, other):
            r = orig_ssf(self, other)
            if tr.active and tr.known(other):
                fresh = not tr.known(self)
                dst = tr.register(self)
                tr.wrap_cores(self)
                if tr.depth == 0:
                    tr.events.append((dst, ("set_from", tr.tids[id(other)])))
                elif fresh:
                    raise RuntimeError("copy inside a modelled primitive")
            return r
        CT.set_state_from = set_state_from

    def uninstall(self):
        import cotengra as ctg
        import functools
        CT = ctg.ContractionTree
        for name, f in self.saved.items():
            setattr(CT, name, f)
        for name in ("remove_ind", "restore_ind"):
            setattr(CT, name + "_", functools.partialmethod(self.saved[name], inplace=True))
        self.installed = False


# ---------------------------------------------------------------------------
# observation of a real tree, and Coq literals
def node_key(node):
    return sorted(node)


def sym_ids(s):
    """canonical einsum symbols a,b,c.. -> 0,1,2.."""
    return [gen.SYMS.index(c) for c in s]


def parse_eq(eq):
    lhs, rhs = eq.split("->")
    return [sym_ids(t) for t in lhs.split(",")], sym_ids(rhs)


def observe(tree, tracer=None):
    """everything observable, in model layout (python structure, JSON-able)"""
    info = []
    for node, inf in tree.info.items():
        extra = sorted(k for k in inf if k not in INFO_KEYS)
        d = {"node": node_key(node), "extra": extra}
        if "legs" in inf:
            d["legs"] = [[k, v] for k, v in inf["legs"].items()]
        if "involved" in inf:
            d["involved"] = [[k, v] for k, v in inf["involved"].items()]
        if "size" in inf:
            d["size"] = int(inf["size"])
        if "flops" in inf:
            d["flops"] = int(inf["flops"])
        if "inds" in inf:
            d["inds"] = list(inf["inds"])
        if "einsum_eq" in inf:
            d["einsum_eq"] = inf["einsum_eq"]
        if "can_dot" in inf:
            d["can_dot"] = bool(inf["can_dot"])
        if "tensordot_axes" in inf:
            d["tensordot_axes"] = [list(inf["tensordot_axes"][0]), list(inf["tensordot_axes"][1])]
        if "tensordot_perm" in inf:
            p = inf["tensordot_perm"]
            d["tensordot_perm"] = None if p is None else list(p)
        info.append(d)
    st = {
        "children": [[node_key(p), node_key(l), node_key(r)] for p, (l, r) in tree.children.items()],
        "info": info,
        "preprocessing": [[i, eq] for i, eq in tree.preprocessing.items()],
        "sliced": [[ix, si.project, si.size, bool(si.inner)] for ix, si in tree.sliced_inds.items()],
        "sliced_inputs": sorted(tree.sliced_inputs),
        "multiplicity": int(tree.multiplicity),
        "track": [bool(tree._track_flops), bool(tree._track_write), bool(tree._track_size)],
        "flops": int(tree._flops) if tree._track_flops else None,
        "write": int(tree._write) if tree._track_write else None,
        "sizes": sorted([int(k), int(v)] for k, v in tree._sizes._c.items()) if tree._track_size else None,
        "sizes_max": (None if not tree._track_size else
                      (None if tree._sizes._max_element == -float("inf") else int(tree._sizes._max_element))),
        "cores": ([tracer.core_key(k) for k in tree.contraction_cores] if tracer is not None
                  else len(tree.contraction_cores)),
    }
    return st


def alias_changed(pre, post):
    """did anything that was present in `pre` change?  (queries may ADD cache entries / switch
    tracking on -- e.g. parallel_temper asks the original tree for its width -- that is no change)"""
    for k in ("children", "sliced", "sliced_inputs", "multiplicity", "preprocessing"):
        if k == "preprocessing":
            if any(e not in post[k] for e in pre[k]):
                return True
        elif pre[k] != post[k]:
            return True
    pi = {tuple(d["node"]): d for d in post["info"]}
    for d in pre["info"]:
        q = pi.get(tuple(d["node"]))
        if q is None or any(q.get(k, "<absent>") != v for k, v in d.items() if k != "extra"):
            return True
    for i, k in enumerate(("flops", "write", "sizes")):
        if pre["track"][i] and (not post["track"][i] or pre[k] != post[k]):
            return True
    return False


def legs_coq(lg):
    return coq([(gen.IDX[k], int(v)) for k, v in lg])


def opt(x, f=lambda v: v):
    return "None" if x is None else "(Some %s)" % f(x)


def info_coq(d):
    def eqf(eq):
        (l, r), p = parse_eq(eq)
        return coq((l, r, p))
    has = lambda k: k in d
    fields = [
        opt(d.get("legs") if has("legs") else None, legs_coq),
        opt(d.get("involved") if has("involved") else None, legs_coq),
        opt(Z(d["size"]) if has("size") else None, coq),
        opt(Z(d["flops"]) if has("flops") else None, coq),
        opt([gen.IDX[c] for c in d["inds"]] if has("inds") else None, coq),
        opt(d["einsum_eq"] if has("einsum_eq") else None, eqf),
        opt(d["can_dot"] if has("can_dot") else None, coq),
        opt((d["tensordot_axes"][0], d["tensordot_axes"][1]) if has("tensordot_axes") else None, coq),
        ("(Some %s)" % opt(d["tensordot_perm"], coq)) if has("tensordot_perm") else "None",
    ]
    return "(mkInfo %s)" % " ".join(fields)


def state_coq(st):
    ch = "[" + "; ".join("(%s, (%s, %s))" % (coq(p), coq(l), coq(r)) for p, l, r in st["children"]) + "]"
    inf = "[" + "; ".join("(%s, %s)" % (coq(d["node"]), info_coq(d)) for d in st["info"]) + "]"

    def pre(e):
        (t,), k = parse_eq(e[1])
        return "(%d, (%s, %s))" % (e[0], coq(t), coq(k))
    pp = "[" + "; ".join(pre(e) for e in st["preprocessing"]) + "]"
    sl = "[" + "; ".join("mkSl %d %s" % (gen.IDX[ix], opt(pj, lambda v: "%d" % v)) for ix, pj, _, _ in st["sliced"]) + "]"
    sizes = "[" + "; ".join("(%s, %d)" % (coq(Z(k)), v) for k, v in (st["sizes"] or [])) + "]"
    return ("(mkState {ch} {inf} {pp} {sl} {si} {mu} {tf} {tw} {ts} {fl} {wr} {szs} {smax} {cores} false)").format(
        ch=ch, inf=inf, pp=pp, sl=sl, si=coq(st["sliced_inputs"]), mu=coq(Z(st["multiplicity"])),
        tf=coq(st["track"][0]), tw=coq(st["track"][1]), ts=coq(st["track"][2]),
        fl=coq(Z(st["flops"] or 0)), wr=coq(Z(st["write"] or 0)), szs=sizes,
        smax=opt(st["sizes_max"], lambda v: coq(Z(v))), cores=coq(list(st["cores"])))


PRIORITY = {"flops": "PrFlops", "size": "PrSize", "root": "PrRoot", "leaves": "PrLeaves"}


def event_coq(tev):
    tid, ev = tev
    k = ev[0]
    if k == "set_from":
        return "(MSetFrom %d %d)" % (tid, ev[1])
    if k == "get":
        p = "(PGet %s %s)" % (GETTER_CODE[ev[1]], coq(node_key(ev[2])))
    elif k == "add_node":
        p = "(PAddNode %s)" % coq(node_key(ev[1]))
    elif k == "remove_node":
        p = "(PRemoveNode %s)" % coq(node_key(ev[1]))
    elif k == "pair":
        _, x, y, legs, cost, size = ev
        p = "(PPair %s %s %s %s %s)" % (
            coq(node_key(x)), coq(node_key(y)),
            opt(legs, lambda lg: legs_coq(list(lg.items()))),
            opt(cost, lambda v: coq(Z(v))), opt(size, lambda v: coq(Z(v))))
    elif k == "stats":
        p = "(PStats %s)" % coq(ev[1])
    elif k == "total_flops":
        p = "PTotalFlops"
    elif k == "total_write":
        p = "PTotalWrite"
    elif k == "max_size":
        p = "PMaxSize"
    elif k == "reset_inds":
        p = "PResetInds"
    elif k == "reset_recipes":
        p = "PResetRecipes"
    elif k == "sort_inds":
        p = "(PSortInds %s %s %s %s)" % (PRIORITY[ev[1]], coq(ev[2]), coq(ev[3]), coq(ev[4]))
    elif k == "remove_ind":
        p = "(PRemoveInd %d %s)" % (gen.IDX[ev[1]], opt(ev[2], lambda v: "%d" % v))
    elif k == "restore_ind":
        p = "(PRestoreInd %d)" % gen.IDX[ev[1]]
    elif k == "cores_clear":
        p = "PCoresClear"
    elif k == "core_add":
        p = "(PCoreAdd %d)" % ev[1]
    else:
        raise ValueError(ev)
    return "(MOn %d %s)" % (tid, p)


def event_json(tev):
    tid, ev = tev
    out = [tid, ev[0]]
    for x in ev[1:]:
        if isinstance(x, frozenset):
            out.append(sorted(x))
        elif isinstance(x, dict):
            out.append([[k, v] for k, v in x.items()])
        else:
            out.append(x)
    return out


# ---------------------------------------------------------------------------
# histories
REMOVE_KINDS = ("remove_ind",)


def gen_ops(rng, inputs, output, size_dict, length, mode):
    """a random history; every op carries all its parameters (fixed seeds) so that a
    history is a deterministic, shrinkable list"""
    allix = sorted({ix for t in inputs for ix in t})
    ops = []
    kinds = [
        ("reconf", 5), ("reconf_forest", 2), ("anneal", 5), ("temper", 2), ("remove_ind", 6),
        ("restore_ind", 4), ("unslice_rand", 2), ("unslice_all", 1), ("slice", 4),
        ("slice_reconf", 2), ("slice_reconf_forest", 1), ("copy", 2), ("stats", 3),
        ("sort_inds", 4), ("reset_inds", 1), ("contract", 5 if mode == "C02" else 3), ("get_path", 1),
        ("print", 1),
    ]
    names = [k for k, _ in kinds]
    weights = [w for _, w in kinds]
    for _ in range(length):
        k = rng.choices(names, weights)[0]
        op = {"kind": k}
        if k == "reconf":
            op.update(subtree_size=rng.randint(2, 4), subtree_search=rng.choice(["bfs", "dfs", "random"]),
                      select=rng.choice(["max", "min", "random"]), maxiter=rng.randint(1, 3),
                      weight_what=rng.choice(["flops", "size"]), seed=rng.randrange(1000),
                      minimize=rng.choice(["flops", "size", "write", "combo"]), inplace=rng.random() < 0.7)
        elif k == "reconf_forest":
            op.update(num_trees=2, num_restarts=rng.randint(1, 2), subtree_maxiter=rng.randint(1, 2),
                      subtree_size=rng.randint(2, 4), seed=rng.randrange(1000), inplace=rng.random() < 0.7,
                      minimize=rng.choice(["flops", "size"]))
        elif k in ("anneal", "temper"):
            op.update(tsteps=rng.randint(1, 2), numiter=rng.randint(1, 2), seed=rng.randrange(1000),
                      minimize=rng.choice(["flops", "size", "combo"]), inplace=rng.random() < 0.7,
                      slice_mode=rng.choice(["basic", "reslice", "drift"]))
            op["target_size"] = rng.choice([None, None, 1, 2, 4, 8]) if k == "anneal" else rng.choice([None, 2, 4])
            if k == "anneal":
                op["tstart"] = rng.choice([2, 50.0])   # hot: most moves accepted
        elif k == "remove_ind":
            if not allix:
                continue
            ix = rng.choice(allix)
            op.update(ind=ix, project=(rng.randrange(size_dict[ix]) if rng.random() < 0.35 else None),
                      inplace=rng.random() < 0.7)
        elif k == "restore_ind":
            op.update(which=rng.randrange(8), inplace=rng.random() < 0.7)
        elif k == "unslice_rand":
            op.update(seed=rng.randrange(1000))
        elif k == "slice":
            if rng.random() < 0.5:
                op.update(target_size=rng.choice([1, 2, 4, 8]))
            else:
                op.update(target_slices=rng.choice([2, 3, 4]))
            op.update(seed=rng.randrange(1000), reslice=rng.random() < 0.3, max_repeats=rng.randint(1, 3),
                      allow_outer=rng.choice([True, True, False]), inplace=rng.random() < 0.7)
        elif k in ("slice_reconf", "slice_reconf_forest"):
            op.update(target_size=rng.choice([2, 4, 8]), max_repeats=rng.randint(1, 2),
                      subtree_size=rng.randint(2, 3), maxiter=rng.randint(1, 2), inplace=rng.random() < 0.7)
        elif k == "stats":
            op.update(what=rng.choice(["contract_stats", "total_flops", "total_write", "max_size", "peak_size",
                                       "combo_cost", "contraction_width", "force", "scaling"]))
        elif k == "sort_inds":
            op.update(priority=rng.choice(["flops", "size", "root", "leaves"]), moc=rng.random() < 0.6,
                      mcc=rng.random() < 0.6, reset=rng.random() < 0.5)
        elif k == "contract":
            op.update(order=rng.choice(["dfs", None, "random"]), prefer_einsum=rng.random() < 0.4,
                      implementation=rng.choice([None, "cotengra", "autoray"]), oseed=rng.randrange(1000))
        ops.append(op)
    return ops


class OpSkipped(Exception):
    pass


def apply_op(tree, op, arrays=None):
    """performs one history operation on the real tree; returns the tree that is current afterwards"""
    k = op["kind"]
    ip = op.get("inplace", True)
    if k == "reconf":
        kw = dict(subtree_size=op["subtree_size"], subtree_search=op["subtree_search"], select=op["select"],
                  maxiter=op["maxiter"], weight_what=op["weight_what"], seed=op["seed"], minimize=op["minimize"])
        return tree.subtree_reconfigure(inplace=ip, **kw)
    if k == "reconf_forest":
        return tree.subtree_reconfigure_forest(
            num_trees=op["num_trees"], num_restarts=op["num_restarts"], subtree_maxiter=op["subtree_maxiter"],
            subtree_size=op["subtree_size"], seed=op["seed"], parallel=False, minimize=op["minimize"], inplace=ip)
    if k == "anneal":
        return tree.simulated_anneal(tsteps=op["tsteps"], numiter=op["numiter"], seed=op["seed"],
                                     minimize=op["minimize"], target_size=op["target_size"],
                                     slice_mode=op["slice_mode"], tstart=op.get("tstart", 2), inplace=ip)
    if k == "temper":
        return tree.parallel_temper(tsteps=op["tsteps"], numiter=op["numiter"], num_trees=2, seed=op["seed"],
                                    minimize=op["minimize"], target_size=op["target_size"],
                                    slice_mode=op["slice_mode"], parallel=False, inplace=ip)
    if k == "remove_ind":
        if op["ind"] in tree.sliced_inds:
            raise OpSkipped()
        return tree.remove_ind(op["ind"], project=op["project"], inplace=ip)
    if k == "restore_ind":
        if not tree.sliced_inds:
            raise OpSkipped()
        ixs = list(tree.sliced_inds)
        return tree.restore_ind(ixs[op["which"] % len(ixs)], inplace=ip)
    if k == "unslice_rand":
        if not tree.sliced_inds:
            raise OpSkipped()
        return tree.unslice_rand_(seed=op["seed"])
    if k == "unslice_all":
        return tree.unslice_all_()
    if k == "slice":
        kw = {}
        if "target_size" in op:
            kw["target_size"] = op["target_size"]
        else:
            kw["target_slices"] = op["target_slices"]
        return tree.slice(seed=op["seed"], reslice=op["reslice"], max_repeats=op["max_repeats"],
                          allow_outer=op["allow_outer"], inplace=ip, **kw)
    if k == "slice_reconf":
        return tree.slice_and_reconfigure(
            target_size=op["target_size"], max_repeats=op["max_repeats"], inplace=ip,
            reconf_opts=dict(subtree_size=op["subtree_size"], maxiter=op["maxiter"]))
    if k == "slice_reconf_forest":
        return tree.slice_and_reconfigure_forest(
            target_size=op["target_size"], max_repeats=op["max_repeats"], num_trees=2, parallel=False,
            inplace=ip, reconf_opts=dict(subtree_size=op["subtree_size"], maxiter=op["maxiter"]))
    if k == "copy":
        return tree.copy()
    if k == "stats":
        w = op["what"]
        if w == "force":
            tree.contract_stats(force=True)
        elif w == "scaling":
            tree.contraction_scaling()
        else:
            getattr(tree, w)()
        return tree
    if k == "sort_inds":
        tree.sort_contraction_indices(priority=op["priority"], make_output_contig=op["moc"],
                                      make_contracted_contig=op["mcc"], reset=op["reset"])
        return tree
    if k == "reset_inds":
        tree.reset_contraction_indices()
        return tree
    if k == "contract":
        if arrays is not None:
            contract_with(tree, arrays, op)
        return tree
    if k == "get_path":
        tree.get_path()
        tree.get_ssa_path()
        return tree
    if k == "print":
        with contextlib.redirect_stdout(io.StringIO()):
            tree.print_contractions()
        return tree
    raise ValueError(k)


def contract_with(tree, arrays, op):
    order = op.get("order")
    if order == "random":
        r = random.Random(op.get("oseed", 0))
        scores = {}

        def order(node):
            if node not in scores:
                scores[node] = r.random()
            return scores[node]
    return tree.contract(arrays, order=order, prefer_einsum=op.get("prefer_einsum", False),
                         implementation=op.get("implementation"), strip_exponent=False)


# ---------------------------------------------------------------------------
# the two oracles
def removal_chain(tree):
    return [(ix, si.project) for ix, si in tree.sliced_inds.items()]


def check_costs(tree, net):
    """C04: every cost figure / per-node index set of `tree` vs (a) a freshly built tree with the
    same path and the same removed indices and (b) the independent spec_costs.  Works on a COPY's
    getters?  No: on the tree itself (queries are part of any history); returns None or a message."""
    import cotengra as ctg
    inputs, output, size_dict = net
    if not tree.is_complete():
        return "tree is not complete"
    path = tree.get_path()
    chain = removal_chain(tree)
    fresh = ctg.ContractionTree.from_path(inputs, output, size_dict, path=path)
    for ix, pj in chain:
        fresh.remove_ind_(ix, project=pj)
    # every figure that is reported from a RUNNING total is read first, one by one and in an order that
    # varies with the state (so that all orders occur), before anything (contract_stats) recomputes the
    # totals that are not tracked: a stale tracked total must not be masked by a recomputation of another
    singles = ["max_size", "contraction_width", "total_flops", "total_write", "peak_size"]
    rot = (len(path) + len(chain) + int(tree._track_flops) + 2 * int(tree._track_write)
           + 4 * int(tree._track_size)) % len(singles)
    for what in singles[rot:] + singles[:rot]:
        x, y = getattr(tree, what)(), getattr(fresh, what)()
        if x != y:
            return "%s %r differs from rebuild %r" % (what, x, y)
    a, b = tree.contract_stats(), fresh.contract_stats()
    if a != b:
        return "contract_stats %r differ from rebuild %r" % (a, b)
    for what in ("total_flops", "total_write", "max_size", "peak_size", "contraction_width", "combo_cost"):
        if getattr(tree, what)() != getattr(fresh, what)():
            return "%s %r differs from rebuild %r" % (what, getattr(tree, what)(), getattr(fresh, what)())
    if tree.multiplicity != fresh.multiplicity or tree.sliced_inputs != fresh.sliced_inputs:
        return "multiplicity/sliced_inputs %r %r differ from rebuild %r %r" % (
            tree.multiplicity, sorted(tree.sliced_inputs), fresh.multiplicity, sorted(fresh.sliced_inputs))
    if list(tree.sliced_inds.items()) != list(fresh.sliced_inds.items()):
        return "sliced_inds differ from rebuild"
    if set(tree.children) != set(fresh.children) or set(tree.info) != set(fresh.info):
        return "node sets differ from rebuild"
    for node in fresh.info:
        for g in ("get_legs", "get_involved", "get_size", "get_flops"):
            x, y = getattr(tree, g)(node), getattr(fresh, g)(node)
            if g in ("get_legs", "get_involved"):
                # the property speaks of index SETS (the counts of the root's legs are documented as
                # irrelevant); the exact dicts are compared by the model correspondence
                x, y = set(x), set(y)
            if x != y:
                return "%s(%s) = %r, rebuild says %r" % (g, sorted(node), x, y)
    if not fresh.has_preprocessing() and False:
        pass
    tree.has_preprocessing()
    fresh.has_preprocessing()
    if dict(tree.preprocessing) != dict(fresh.preprocessing):
        return "preprocessing %r differs from rebuild %r" % (dict(tree.preprocessing), dict(fresh.preprocessing))
    # running totals against the sums over the current nodes
    if tree._flops != sum(tree.get_flops(p) for p in tree.children) or \
            tree._write != sum(tree.get_size(p) for p in tree.children):
        return "running _flops/_write differ from the sums over the nodes"
    cnt = {}
    for p in tree.children:
        cnt[tree.get_size(p)] = cnt.get(tree.get_size(p), 0) + 1
    if dict(tree._sizes._c) != cnt or tree._sizes.max() != max(cnt):
        return "_sizes %r (max %r) is not the multiset of node sizes %r" % (dict(tree._sizes._c), tree._sizes.max(), cnt)
    # independent specification
    nested = gen.tree_nested(tree)
    removed = [ix for ix, _ in chain]
    projected = [ix for ix, pj in chain if pj is not None]
    spec = oracle.spec_costs(inputs, output, size_dict, nested, removed, projected)
    if (spec["flops"], spec["write"], spec["size"]) != (a["flops"], a["write"], a["size"]):
        return "contract_stats %r differ from specification %r" % (a, {k: spec[k] for k in ("flops", "write", "size")})
    if spec["multiplicity"] != tree.multiplicity:
        return "multiplicity %r, specification %r" % (tree.multiplicity, spec["multiplicity"])
    for (S, surv, inv, size, flops) in spec["rows"]:
        if set(tree.get_legs(S)) != surv or set(tree.get_involved(S)) != inv or tree.get_size(S) != size \
                or tree.get_flops(S) != flops:
            return "node %s: legs %r involved %r size %r flops %r; specification %r %r %r %r" % (
                sorted(S), tree.get_legs(S), tree.get_involved(S), tree.get_size(S), tree.get_flops(S),
                sorted(surv), sorted(inv), size, flops)
    return None


def classify_known(mode, bad, flags):
    """KNOWN_FINDINGS key of an oracle failure, or None.
    key=anneal_remove_output_ind (C04): during this history remove_ind(<output index>) ran on a tree
    whose root had a cached size but no cached legs (root re-created by simulated annealing with a
    precomputed size), AND the failure is confined to the size/write figures (flops, legs and involved
    agree with the rebuild).  Anything else is reported as a violation."""
    if mode == "C04" and "anneal_remove_output_ind" in flags:
        import re
        m = re.match(r"contract_stats \{'flops': (\d+), .*rebuild \{'flops': (\d+),", bad)
        if m and m.group(1) == m.group(2):
            return "anneal_remove_output_ind"
        if bad.startswith(("total_write", "max_size", "peak_size", "get_size(")):
            return "anneal_remove_output_ind"
    return None


def check_value(tree, net, arrays, op, dense_cache):
    """C02: tree.contract(arrays) equals the dense einsum (projected indices fixed), declared order"""
    inputs, output, size_dict = net
    fixed = {ix: si.project for ix, si in tree.sliced_inds.items() if si.project is not None}
    key = tuple(sorted(fixed.items()))
    if key not in dense_cache:
        res = oracle.dense_einsum(inputs, output, size_dict, arrays, fixed=fixed)
        ref = oracle.dense_to_nested(res, output, size_dict, fixed=fixed)
        # cotengra keeps a projected OUTPUT index as an axis of length 1 (the section is stacked back
        # at its declared position); the property speaks of the section, so that convention is accepted
        import numpy as np
        for pos, ix in enumerate(output):
            if ix in fixed:
                ref = np.expand_dims(ref, pos)
        dense_cache[key] = ref
    ref = dense_cache[key]
    try:
        x = contract_with(tree, arrays, op)
    except HistoryTimeout:
        raise
    except Exception as e:
        return "contract raised %r" % (e,)
    if not oracle.arrays_equal_exact(x, ref):
        import numpy as np
        return "contract value/shape differs from the einsum: got shape %r, expected shape %r%s" % (
            tuple(np.asarray(x).shape), tuple(ref.shape),
            "" if tuple(np.asarray(x).shape) != tuple(ref.shape) else " (same shape, different entries)")
    return None


# ---------------------------------------------------------------------------
# running one history (in a worker process)
def run_history(hist, mode, with_model=True, check_every=True):
    """hist = {inputs, output, size_dict, path, ops, aseed}.  Returns a dict:
       failure: None or {step, what, kind}    kind in {oracle, raised, alias, timeout}
       steps:   [{op, pre, trace, post, tid}]  (coq literals) when with_model
       feats:   counted features"""
    import cotengra as ctg
    inputs = [tuple(t) for t in hist["inputs"]]
    output = tuple(hist["output"])
    size_dict = dict(hist["size_dict"])
    net = (inputs, output, size_dict)
    path = [tuple(p) for p in hist["path"]]
    tr = Tracer()
    tr.install()
    res = {"failure": None, "steps": [], "feats": {}, "executed": 0}

    def feat(f):
        res["feats"][f] = res["feats"].get(f, 0) + 1
    try:
        tree = ctg.ContractionTree.from_path(inputs, output, size_dict, path=path)
        tr.register(tree)
        arng = random.Random(hist.get("aseed", 0))
        arrays = gen.rand_arrays(arng, inputs, size_dict) if mode == "C02" else None
        dense_cache = {}
        shadow = None     # (tree, observation) : a copy that must stay untouched
        tr.active = True
        for si, op in enumerate(hist["ops"]):
            tr.active = False
            nflags = int(tree._track_flops) + int(tree._track_write) + int(tree._track_size)
            feat("track_flops%d_write%d_size%d" % (int(tree._track_flops), int(tree._track_write), int(tree._track_size)))
            if 0 < nflags < 3 and op["kind"] in ("reconf", "reconf_forest", "anneal", "temper", "slice", "slice_reconf",
                                                  "slice_reconf_forest", "remove_ind", "restore_ind", "unslice_rand",
                                                  "unslice_all"):
                feat("transformation_in_partially_tracked_state")
            pre_tid = tr.tids[id(tree)]
            pre = observe(tree, tr)
            tr.take()
            tr.active = True
            before = (tree, pre)
            try:
                new = apply_op(tree, op, arrays if op["kind"] == "contract" else None)
            except OpSkipped:
                continue
            except HistoryTimeout:
                raise
            except Exception as e:
                tr.active = False
                tb = traceback.format_exc()
                if "cotengra/slicer.py" in tb:
                    # the slice finder gave up (no valid index left, exhausted index on a pre-sliced
                    # tree, ...): "returns a set" is C07's subject.  An aborted in-place call leaves a
                    # half-done operation behind, so the history ends here and is not judged further.
                    feat("aborted_by_slicefinder")
                    return res
                res["failure"] = {"step": si, "kind": "raised", "what": "%s raised %r" % (op["kind"], e),
                                  "tb": tb[-1500:]}
                return res
            tr.active = False
            events = tr.take()
            res["executed"] += 1
            feat("op_" + op["kind"])
            if new is None:
                new = tree
            if not tr.known(new):
                res["failure"] = {"step": si, "kind": "trace",
                                  "what": "%s returned a tree the tracer never saw being created" % op["kind"]}
                return res
            post = observe(new, tr)
            if with_model:
                res["steps"].append({
                    "step": si, "kind": op["kind"],
                    "pre": state_coq(pre), "pre_tid": pre_tid,
                    "trace": "[" + "; ".join(event_coq(e) for e in events) + "]",
                    "trace_json": [event_json(e) for e in events] if len(events) < 80 else len(events),
                    "post": state_coq(post), "post_tid": tr.tids[id(new)], "nev": len(events)})
            for e in events:
                if e[1][0] == "pair" and e[1][3] is not None:
                    feat("pair_with_precomputed_legs")
                if e[1][0] == "pair" and e[1][3] is None and e[1][4] is not None:
                    feat("pair_with_precomputed_cost_only")
            # a non-inplace operation must leave the original untouched
            if new is not tree:
                if alias_changed(pre, observe(tree, tr)):
                    res["failure"] = {"step": si, "kind": "alias",
                                      "what": "non-inplace %s changed the original tree" % op["kind"]}
                    return res
                feat("noninplace")
                if op["kind"] == "copy":
                    shadow = (tree, pre)
                    feat("copy_shadowed")
            tree = new
            if shadow is not None and shadow[0] is not tree:
                if alias_changed(shadow[1], observe(shadow[0], tr)):
                    res["failure"] = {"step": si, "kind": "alias",
                                      "what": "mutating a copy (%s) changed the tree it was copied from" % op["kind"]}
                    return res
            if tree.sliced_inds:
                feat("sliced_state")
            if any(s.project is not None for s in tree.sliced_inds.values()):
                feat("projected_state")
            # ---- oracle --------------------------------------------------------
            # queries / contractions are themselves operations of the history (they fill caches):
            # half of the histories probe the tree itself, the other half an untraced copy, so that
            # a defect which only shows while some cache is still EMPTY is not masked by the probing
            direct = hist.get("probe", "direct") == "direct"
            tr.active = direct   # (the trace of a direct probe is discarded)
            probe = tree if direct else tree.copy()
            feat("probe_direct" if direct else "probe_copy")
            if mode == "C04":
                bad = check_costs(probe, net)
            else:
                cop = op if op["kind"] == "contract" else {
                    "order": ["dfs", None, "random"][(si + hist.get("aseed", 0)) % 3],
                    "prefer_einsum": (si + hist.get("aseed", 0)) % 2 == 1,
                    "implementation": [None, "cotengra", "autoray"][(si // 2 + hist.get("aseed", 0)) % 3],
                    "oseed": si}
                bad = check_value(probe, net, arrays, cop, dense_cache)
                if bad is None and tree.multiplicity > 1:
                    feat("contract_sliced")
                if bad is None and with_model and res["steps"] and res["steps"][-1]["step"] == si:
                    # the state in which the contraction just ran: must pass the readiness check of
                    # Model/TreeStateProg.v (C02_state_value then gives its value)
                    tr.active = False
                    res["steps"][-1]["ready"] = state_coq(observe(probe, tr))
                    res["steps"][-1]["tree"] = tree_lit(gen.tree_nested(probe))
            tr.active = False
            if bad:
                res["failure"] = {"step": si, "kind": "oracle", "what": "after %s: %s" % (op["kind"], bad)}
                res["failure"]["key"] = classify_known(mode, bad, tr.flags)
                return res
            if shadow is not None and mode == "C04" and shadow[0] is not tree:
                s2 = shadow[0].copy()
                bad = check_costs(s2, net)
                if bad:
                    res["failure"] = {"step": si, "kind": "alias",
                                      "what": "the tree a copy was taken from is corrupted: " + bad}
                    return res
    except HistoryTimeout:
        res["failure"] = {"step": -1, "kind": "timeout", "what": "history did not finish within the time limit"}
    finally:
        tr.active = False
        tr.uninstall()
        res["flags"] = sorted(tr.flags)
    return res


def _alarm(signum, frame):
    raise HistoryTimeout()


def fail_sig(f):
    """what must persist for a shrunk history to count as the same failure"""
    return None if f is None else (f["kind"], f["what"].split(":")[0][:40] if f["kind"] != "oracle" else "oracle")


def shrink(hist, mode, fail0, limit=20.0):
    """greedy: drop operations (then shorten) while a failure of the same kind persists"""
    t0 = time.time()
    cur = dict(hist)
    cur["ops"] = list(hist["ops"])[: max(0, fail0["step"]) + 1] if fail0["step"] >= 0 else list(hist["ops"])
    sig = fail_sig(fail0)[0]
    r = run_history(cur, mode, with_model=False)
    if r["failure"] is None or r["failure"]["kind"] != sig:
        return hist, fail0
    best_fail = r["failure"]
    changed = True
    while changed and time.time() - t0 < limit:
        changed = False
        for i in range(len(cur["ops"]) - 1, -1, -1):
            trial = dict(cur)
            trial["ops"] = cur["ops"][:i] + cur["ops"][i + 1:]
            if not trial["ops"]:
                continue
            r = run_history(trial, mode, with_model=False)
            if r["failure"] is not None and r["failure"]["kind"] == sig and r["failure"].get("key") == fail0.get("key"):
                cur, best_fail, changed = trial, r["failure"], True
                break
            if time.time() - t0 > limit:
                break
    return cur, best_fail


def worker(args):
    hist, mode, tlimit = args
    signal.signal(signal.SIGALRM, _alarm)
    signal.setitimer(signal.ITIMER_REAL, tlimit)
    try:
        res = run_history(hist, mode)
    except HistoryTimeout:
        res = {"failure": {"step": -1, "kind": "timeout", "what": "history did not finish"}, "steps": [],
               "feats": {}, "executed": 0}
    finally:
        signal.setitimer(signal.ITIMER_REAL, 0)
    if res["failure"] is not None and res["failure"]["kind"] != "timeout":
        signal.setitimer(signal.ITIMER_REAL, 60)
        try:
            small, f = shrink(hist, mode, res["failure"])
            res["shrunk"] = small
            res["shrunk_failure"] = f
        except HistoryTimeout:
            pass
        finally:
            signal.setitimer(signal.ITIMER_REAL, 0)
    res["hist"] = hist
    return res


def make_history(rng, mode, quick=True, partial=None):
    while True:
        inputs, output, size_dict = gen.rand_net(rng, nmin=3, nmax=6 if quick else 7, max_ix=6, max_rank=3)
        if any(len(t) for t in inputs):
            break
    path = gen.rand_path(rng, len(inputs))
    ops = gen_ops(rng, inputs, output, size_dict, rng.randint(3, 10), mode)
    if rng.random() < 0.3:
        # directed template: an explicit index order is installed, recipes are cached by a
        # contraction, then an index is removed / restored, then the tree is contracted again
        # (stale recipes on the ancestors of re-ordered nodes); equal dimensions, so that a
        # wrong axis order gives a wrong value rather than a shape error
        d = rng.choice([2, 3])
        size_dict = {k: d for k in size_dict}
        allix = sorted({ix for t in inputs for ix in t})
        con = lambda: {"kind": "contract", "order": rng.choice(["dfs", None]), "prefer_einsum": rng.random() < 0.5,
                       "implementation": rng.choice([None, "cotengra", "autoray"]), "oseed": rng.randrange(1000)}
        ops = [{"kind": "sort_inds", "priority": rng.choice(["flops", "size", "root", "leaves"]),
                "moc": rng.random() < 0.7, "mcc": rng.random() < 0.7, "reset": True}, con()]
        for ix in rng.sample(allix, min(len(allix), rng.randint(1, 3))):
            ops.append({"kind": "remove_ind", "ind": ix,
                        "project": (rng.randrange(d) if rng.random() < 0.3 else None), "inplace": True})
            ops.append(con())
        if rng.random() < 0.5:
            ops.append({"kind": "restore_ind", "which": rng.randrange(8), "inplace": True})
            ops.append(con())
    aseed, probe = rng.randrange(1000), rng.choice(["direct", "copy"])
    if partial is not None:
        # PARTIAL TRACKING: only a subset of the running totals is switched on before (and between) the
        # transformations; the probe works on copies so that the tree itself stays partially tracked
        prng = random.Random(aseed * 7919 + partial)
        ops = [o for o in ops if not (o["kind"] == "stats" and o["what"] in ("contract_stats", "force", "combo_cost"))]
        out = partial_queries(prng, partial)
        for o in ops:
            out.append(o)
            if prng.random() < 0.35:
                out.extend(partial_queries(prng, prng.randrange(1, 7)))
        ops = out
        probe = "copy"
    return {"inputs": [list(t) for t in inputs], "output": list(output), "size_dict": size_dict,
            "path": [list(p) for p in path], "ops": ops, "aseed": aseed, "probe": probe}


def partial_queries(rng, combo):
    """stats queries that switch on exactly the flags of `combo` (bit 0 _track_flops, bit 1 _track_write,
    bit 2 _track_size), each through a randomly chosen public figure, in random order"""
    qs = []
    if combo & 1:
        qs.append("total_flops")
    if combo & 2:
        qs.append("total_write")
    if combo & 4:
        qs.append(rng.choice(["max_size", "contraction_width"]))
    rng.shuffle(qs)
    return [{"kind": "stats", "what": w} for w in qs]


def load_corpus(prop):
    d = os.path.join(VERIF, "corpus", prop)
    out = []
    if os.path.isdir(d):
        for f in sorted(os.listdir(d)):
            if f.endswith(".json"):
                h = json.load(open(os.path.join(d, f)))
                h["_corpus"] = f
                out.append(h)
    return out


def run_property(ctx, mode):
    """shared driver of C02 and C04"""
    if not standard_proof_steps(ctx):
        return
    rng = ctx.rng
    nh = ctx.n(160, 4000)
    hists = load_corpus(mode)
    ncorpus = len(hists)
    for k in range(nh):
        # C04: 3 of 8 random histories start (and continue) in a PARTIALLY tracked state; the six mixed
        # flag combinations are imposed in turn (generator floor), the rest is left to the random ops
        partial = (1 + (k // 8) % 6) if (mode == "C04" and k % 8 in (1, 4, 6)) else None
        hists.append(make_history(rng, mode, ctx.quick, partial=partial))
    tlimit = 90
    t0 = time.time()
    with multiprocessing.Pool(min(16, os.cpu_count() or 4)) as pool:
        results = pool.map(worker, [(h, mode, tlimit) for h in hists], chunksize=1)
    ctx.log("ran %d histories (%d corpus) in %.1fs" % (len(hists), ncorpus, time.time() - t0))
    cases, caserec, inv_cases, inv_rec, mon_cases, mon_rec = [], [], [], [], [], []
    for hi, r in enumerate(results):
        h = r["hist"]
        for f, k in r["feats"].items():
            ctx.count(f, k)
        feats = gen.net_features([tuple(t) for t in h["inputs"]], tuple(h["output"]), h["size_dict"])
        for f in feats:
            ctx.count("net_" + f)
        ctx.count("steps_executed", r["executed"])
        ctx.case((h["inputs"], h["output"], sorted(h["size_dict"].items()), h["path"],
                  json.dumps(h["ops"], sort_keys=True)),
                 nontrivial=r["executed"] >= 2,
                 sample={k: h[k] for k in ("inputs", "output", "size_dict", "path", "ops")} if hi in (ncorpus, ncorpus + 1) else None)
        if r["failure"] is not None:
            f = r.get("shrunk_failure") or r["failure"]
            small = r.get("shrunk") or h
            rep = {"history": {k: small[k] for k in ("inputs", "output", "size_dict", "path", "ops", "aseed", "probe") if k in small},
                   "failed_at_step": f["step"], "failure": f, "original_length": len(h["ops"]),
                   "corpus_file": h.get("_corpus"), "mode": mode,
                   "how_to_replay": "PYTHONPATH=/repo:harness /venv/bin/python harness/props/c04.py --replay-history FILE"}
            ctx.fail("%s: %s" % (f["kind"], f["what"]), rep, key=f.get("key"), found_input=True)
        for s in r["steps"]:
            lhs = "mobs (mrun %s %s [(%d, %s)]) %d" % (
                gen.net_lit([tuple(t) for t in h["inputs"]], tuple(h["output"]), h["size_dict"]),
                s["trace"], s["pre_tid"], s["pre"], s["post_tid"])
            rhs = "Some (canon_state %s)" % s["post"]
            cases.append(("h%d.s%d.%s" % (hi, s["step"], s["kind"]), lhs, rhs))
            caserec.append((h, s))
            if mode == "C04":
                mon_cases.append(("h%d.s%d.%s.pre" % (hi, s["step"], s["kind"]),
                                  "mon_ok %s %s [(%d, %s)]" % (
                                      gen.net_lit([tuple(t) for t in h["inputs"]], tuple(h["output"]), h["size_dict"]),
                                      s["trace"], s["pre_tid"], s["pre"]), "true"))
                mon_rec.append((h, s))
            netl = gen.net_lit([tuple(t) for t in h["inputs"]], tuple(h["output"]), h["size_dict"])
            inv_cases.append(("h%d.s%d.%s.inv" % (hi, s["step"], s["kind"]),
                              "%s %s %s" % ("cost_inv_b" if mode == "C04" else "recipe_inv_b", netl, s["post"]),
                              "true"))
            inv_rec.append((h, s, r.get("flags", [])))
            if mode == "C02" and "ready" in s:
                inv_cases.append(("h%d.s%d.%s.ready" % (hi, s["step"], s["kind"]),
                                  "contractible_b %s %s %s" % (netl, s["ready"], s["tree"]), "true"))
                inv_rec.append((h, s, r.get("flags", [])))
                ctx.count("ready_states_checked")
            ctx.count("trace_events", s["nev"])
    t0 = time.time()
    failing = ctx.coq_cases(mode.lower() + "_trace", ["TreeState"], cases, chunk=max(20, len(cases) // 48 + 1),
                            timeout=900)
    ctx.log("model replay of %d steps in %.1fs, %d disagreements" % (len(cases), time.time() - t0, len(failing)))
    for idx, label, val in failing[:5]:
        h, s = caserec[idx] if idx < len(caserec) else ({}, {})
        ctx.fail("model (Model/TreeState.v) and implementation disagree on the state after a traced step",
                 {"label": label, "history": {k: h.get(k) for k in ("inputs", "output", "size_dict", "path", "ops", "aseed", "probe")},
                  "step": s.get("step"), "op": s.get("kind"), "trace": s.get("trace_json"),
                  "pre": s.get("pre"), "post_observed": s.get("post"), "model_value": val,
                  "correspondence": "primitive trace replayed by Model/TreeState.v mrun vs observed tree state"},
                 found_input=False)
    # the monitored preconditions of the preservation theorem (C04_prim_preserves_inv_partial): the
    # verified boolean prim_pre_b is evaluated inside Coq on EVERY recorded primitive of every trace
    if mon_cases:
        t0 = time.time()
        failing = ctx.coq_cases(mode.lower() + "_pre", ["TreeState", "TreeStatePre"], mon_cases,
                                chunk=max(20, len(mon_cases) // 48 + 1), timeout=900)
        ctx.log("precondition monitor on %d traces in %.1fs, %d failing" % (len(mon_cases), time.time() - t0, len(failing)))
        for idx, label, val in failing[:5]:
            h, s = mon_rec[idx] if idx < len(mon_rec) else ({}, {})
            ctx.fail("a recorded primitive does not meet the stated precondition of the preservation theorem (prim_pre_b)",
                     {"label": label, "history": {k: h.get(k) for k in ("inputs", "output", "size_dict", "path", "ops", "aseed", "probe")},
                      "step": s.get("step"), "op": s.get("kind"), "trace": s.get("trace_json"), "pre": s.get("pre"),
                      "monitor": val, "correspondence": "mon_ok (Model/TreeStatePre.v) on the recorded primitive trace"},
                     found_input=False)
    # the verified checkers, evaluated inside Coq on every state the real tree reached
    t0 = time.time()
    failing = ctx.coq_cases(mode.lower() + "_inv", ["TreeState"] + (["TreeStateProg"] if mode == "C02" else []), inv_cases,
                            chunk=max(20, len(inv_cases) // 48 + 1), timeout=900)
    ctx.log("invariant checkers on %d observed states in %.1fs, %d failing" % (len(inv_cases), time.time() - t0, len(failing)))
    shown = 0
    for idx, label, val in failing:
        h, s, flags = inv_rec[idx] if idx < len(inv_rec) else ({}, {}, [])
        # C04: a state reached after the trigger of the known finding (root size without legs at
        # remove_ind of an output index) is attributed to it; everything else is reported
        key = "anneal_remove_output_ind" if mode == "C04" and "anneal_remove_output_ind" in flags else None
        if key is None:
            shown += 1
            if shown > 5:
                continue
        ctx.fail("an observed state violates %s" % ("the invariant cost_inv_b" if mode == "C04" else
                 ("the readiness check contractible_b (state right after a contraction)" if label.endswith(".ready")
                  else "the invariant recipe_inv_b")),
                 {"label": label, "history": {k: h.get(k) for k in ("inputs", "output", "size_dict", "path", "ops", "aseed", "probe")},
                  "step": s.get("step"), "op": s.get("kind"), "state": s.get("post"), "checkers": val,
                  "correspondence": "checker cost_inv_b (C04, soundness proved) / predicate recipe_inv_b (C02) of Model/TreeState.v on the observed state"},
                 key=key, found_input=False)
    ctx.coverage["rule"] = (
        "random networks (3..6/7 tensors; hyper, repeated, scalar, disconnected, size-1, shared-output features), "
        "uniform random initial paths, random histories of 3..10 operations over {subtree_reconfigure(_forest), "
        "simulated_anneal (target_size/None, basic/reslice/drift), parallel_temper(parallel=False), remove_ind "
        "slice|project, restore_ind, unslice_rand/all, slice, slice_and_reconfigure(_forest), copy, stats queries, "
        "sort_contraction_indices, reset_contraction_indices, contract, get_path, print_contractions}, inplace and "
        "not; C04: 3 of 8 histories are PARTIALLY TRACKED (only a subset of total_flops / total_write / max_size|"
        "contraction_width queried before and between the transformations, the six mixed flag combinations in turn, "
        "probe on copies; features track_flops?_write?_size? count the combination at the start of every operation) and "
        "not; corpus histories first; non-trivial = at least two executed operations; distinct by (network, path, ops)")
    ctx.assumptions = [
        "correspondence is executed, not proved: the primitive trace of every high-level call is replayed by the "
        "Coq model and the full observable state compared",
        "high-level random methods are not modelled; theorems quantify over all primitive traces that satisfy the "
        "stated preconditions",
        "numpy kernels / slicing / gather are outside this property (C01, C06, C11)",
    ]


def run(ctx):
    run_property(ctx, "C04")


if __name__ == "__main__":
    if len(sys.argv) > 2 and sys.argv[1] == "--replay-history":
        d = json.load(open(sys.argv[2]))
        d = d.get("replay", d)
        h = d.get("history", d)
        r = run_history(h, d.get("mode", "C04"), with_model=False)
        print(json.dumps(r["failure"], indent=1))
        sys.exit(1 if r["failure"] else 0)
    main(PROP, run)

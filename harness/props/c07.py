"""C07 -- the slice finder's predicted costs are real and its targets are honoured.

Correspondence: every SliceFinder.search of this run is recorded from the outside
(the random choice made by `max(cost.size_dict, key=...)` in SliceFinder.trial is
captured by shadowing `max` in the namespace of cotengra.slicer; trial returns and
the cache `sf.costs` are read afterwards) and replayed through Model/SlicerCosts.v
with the recorded choices as the oracle: per-trial returns, every cached
ContractionCosts table (contractions, _flops, _sizes, nslices, _flop_reductions,
_write_reductions, _where, size_dict) and the `best` result must be equal.
For the same cases Coq also evaluates hyps_b (verified checker of the theorems'
hypotheses, Proofs/SlicerFacts.v hyps_b_sound) and search_scratch_b (every cached
table of the model against the table built from scratch by Model/Net.v).

Oracle: for every returned (indices, prediction) the prediction is compared with
an independent cost evaluator (vlib.oracle.spec_costs, from the network alone) and
with a fresh tree sliced by the remove_ind chain; the targets and the forbidden
set are checked on that tree; tree.slice(...) post-conditions (incl. reslice).
"""
import builtins
import signal
import sys
from fractions import Fraction

from vlib import gen, oracle
from vlib.core import Raw, Some, Z, coq, main, standard_proof_steps, tree_lit

PROP = "C07"

E_FORBIDDEN, E_KEY, E_MAX_EMPTY, E_MIN_EMPTY = 1, 2, 3, 4


class CaseTimeout(Exception):
    pass


def _alarm(signum, frame):
    raise CaseTimeout()


def exc_kind(e):
    if isinstance(e, CaseTimeout):
        raise e
    if isinstance(e, RuntimeError) and "Ran out of valid indices" in str(e):
        return E_FORBIDDEN
    if isinstance(e, KeyError):
        return E_KEY
    if isinstance(e, ValueError) and "max()" in str(e):
        return E_MAX_EMPTY
    if isinstance(e, ValueError) and "min()" in str(e):
        return E_MIN_EMPTY
    return None


# ---------------------------------------------------------------------------
# instrumentation (from the harness process; nothing in /repo changes)
class Recorder:
    def __init__(self):
        self.trials = None   # list of dict(choices=[...], ret=cost or None, exc=kind)
        self.cur = None

    def install(self):
        import cotengra.slicer as S
        rec = self

        def rec_max(it, *a, **kw):
            r = builtins.max(it, *a, **kw)
            if rec.cur is not None:
                rec.cur["choices"].append(r)
            return r

        S.max = rec_max   # shadows the builtin inside cotengra.slicer only
        orig_trial = S.SliceFinder.trial
        if getattr(orig_trial, "_c07", False):
            return

        def trial(sf, *a, **kw):
            t = {"choices": [], "ret": None, "exc": None}
            if rec.trials is not None:
                rec.trials.append(t)
            rec.cur = t
            try:
                res = orig_trial(sf, *a, **kw)
                t["ret"] = res
                return res
            except Exception as e:
                t["exc"] = e
                raise
            finally:
                rec.cur = None

        trial._c07 = True
        S.SliceFinder.trial = trial


REC = Recorder()


# ---------------------------------------------------------------------------
def big_input_net(rng, quick=True):
    """one rank-4..8 tensor contracted with small matrices / vectors, so that an INPUT is larger than
    every intermediate; star-shaped path (the big tensor absorbs one small tensor at a time)"""
    R = rng.randint(4, 6 if quick else 8)
    legs = list(gen.SYMS[:R])
    size_dict = {a: rng.choice([2, 2, 3, 4]) for a in legs}
    inputs = [tuple(legs)]
    output = []
    nxt = R
    for a in legs:
        r = rng.random()
        if r < 0.45:                      # matrix to a smaller (or equal) new output index
            b = gen.SYMS[nxt]
            nxt += 1
            size_dict[b] = rng.randint(1, size_dict[a])
            inputs.append((a, b))
            output.append(b)
        elif r < 0.8:                     # vector: the leg is contracted away
            inputs.append((a,))
        elif r < 0.9:                     # leg stays open
            output.append(a)
        else:                             # hyper index: two vectors on the same leg
            inputs.append((a,))
            inputs.append((a,))
    if len(inputs) < 3:
        inputs += [(legs[0],), (legs[1],)]
    rng.shuffle(output)
    N = len(inputs)
    if rng.random() < 0.7:
        path = [(0, 1)] + [(0, m - 1) for m in range(N - 1, 1, -1)]
    else:
        path = gen.rand_path(rng, N)
    return inputs, tuple(output), size_dict, tuple(path)


def make_case(rng, quick=True):
    import cotengra as ctg
    style = rng.random()
    if style < 0.22:
        inputs, output, size_dict, path = big_input_net(rng, quick)
        tree = ctg.ContractionTree.from_path(inputs, output, size_dict, path=path)
        pre = []
        if rng.random() < 0.35:
            for ix in rng.sample(sorted(inputs[0]), rng.randint(1, 2)):
                if rng.random() < 0.4:
                    v = rng.randrange(size_dict[ix])
                    tree.remove_ind_(ix, project=v)
                    pre.append((ix, v))
                else:
                    tree.remove_ind_(ix)
                    pre.append((ix, None))
        return inputs, output, size_dict, path, tree, pre
    style = (style - 0.22) / 0.78
    if style < 0.5:
        # friendlier networks: larger dimensions, so that slicing has room
        inputs, output, size_dict = gen.rand_net(rng, nmin=3, nmax=7 if quick else 8, max_ix=8, dmax=4,
                                                 p_size1=0.05, p_scalar=0.03, p_repeat=0.15)
    else:
        inputs, output, size_dict = gen.rand_net(rng, nmin=2, nmax=7 if quick else 8)
    present = {ix for t in inputs for ix in t}
    if rng.random() < 0.7:
        # drop symbols that occur nowhere (they stay in 30% of the cases: the finder may
        # then pick an index that no contraction involves and raise KeyError)
        size_dict = {k: v for k, v in size_dict.items() if k in present or k in output}
    path = gen.rand_path(rng, len(inputs))
    tree = ctg.ContractionTree.from_path(inputs, output, size_dict, path=path)
    pre = []
    if present and rng.random() < 0.35:
        for ix in rng.sample(sorted(present), rng.randint(1, min(2, len(present)))):
            if rng.random() < 0.4:
                v = rng.randrange(size_dict[ix])
                tree.remove_ind_(ix, project=v)
                pre.append((ix, v))
            else:
                tree.remove_ind_(ix)
                pre.append((ix, None))
    return inputs, output, size_dict, path, tree, pre


OVERHEADS = [Fraction(1, 2), Fraction(1), Fraction(9, 8), Fraction(5, 4), Fraction(3, 2), Fraction(2),
             Fraction(3), Fraction(4), Fraction(8), Fraction(64)]


NONDYADIC = [0.9, 1.1, 1.3, 1.7, 2.3, 3.14159, 1.0000001, 0.3333333333333333, 5.1, 10.01]


def boundary_overhead(rng, tree):
    import math
    from cotengra.slicer import ContractionCosts
    try:
        c = ContractionCosts.from_contraction_tree(tree)
        cands = sorted(c._where)
        if not cands or c.original_flops == 0:
            return 1.5
        c1 = c
        for ix in rng.sample(cands, min(len(cands), rng.choice([1, 1, 2]))):
            if ix not in c1._where:
                continue
            c1._flop_reductions[ix], c1._write_reductions[ix]   # what score_slice_index does first
            c1 = c1.remove(ix)
        f = c1.overhead
        k = rng.choice([0, 0, 1, -1])
        if k == 1:
            f = math.nextafter(f, math.inf)
        elif k == -1:
            f = math.nextafter(f, 0.0)
        return f if f > 0 else 1.5
    except Exception:
        return 1.5


FP53 = 2 ** 53
FB = 2 ** 1000


def over_safe(cost, t):
    """Python twin of Model/SlicerCosts.v over_safe_b (pre-filter; the Coq evaluation is the one that counts)"""
    a, b = cost.total_flops, cost.original_flops
    num, den = t.numerator, t.denominator
    return (1 <= a < FB and 1 <= b < FB and den > 0 and
            (a * den <= num * b or num * b * FP53 < a * den * (FP53 - 1)))


def make_overrides(ctx, rng, tg):
    """per-call arguments of search(): tighter or looser than the construction-time target of the
    same kind, and / or a target of a kind the finder was not constructed with"""
    ov = {}
    while not ov:
        for kind in ("target_size", "target_slices", "target_overhead"):
            if kind in tg and rng.random() < 0.5:
                cur = tg[kind]
                tighter = rng.random() < 0.6
                if kind == "target_size":
                    ov[kind] = max(1, cur // rng.choice([2, 3, 4, 8, 32])) if tighter else cur * rng.choice([2, 4, 16])
                elif kind == "target_slices":
                    ov[kind] = cur * rng.choice([2, 3, 4, 12]) if tighter else max(1, cur // rng.choice([2, 3, 4]))
                else:
                    f = Fraction(rng.choice([4, 5, 6, 7]), 8) if tighter else Fraction(rng.choice([5, 8, 16, 33]), 4)
                    ov[kind] = Fraction(float(cur * f))
                ctx.count("override:%s:%s" % (kind[7:], "tighter" if tighter else "looser"))
            elif kind not in tg and rng.random() < 0.25:
                if kind == "target_size":
                    ov[kind] = rng.choice([1, 2, 4, 8, 16, 64])
                elif kind == "target_slices":
                    ov[kind] = rng.choice([2, 3, 4, 6, 8, 12, 24])
                else:
                    ov[kind] = Fraction(rng.choice([1.0, 1.25, 1.5, 2.0, 3.0, 1.1, 2.3]))
                ctx.count("override:%s:new_kind" % kind[7:])
    return ov


def make_params(rng, tree):
    kinds = rng.choice([("size",)] * 4 + [("slices",)] * 3 + [("overhead",)] * 3 +
                       [("size", "slices"), ("size", "overhead"), ("slices", "overhead"),
                        ("size", "slices", "overhead")])
    tg = {}
    if "size" in kinds:
        ms = tree.max_size()
        tg["target_size"] = max(1, ms // rng.choice([1, 2, 2, 3, 4, 4, 8, 16, 64])) if rng.random() < 0.9 else ms * 2
    if "slices" in kinds:
        tg["target_slices"] = rng.choice([1, 2, 2, 3, 4, 4, 6, 8, 9, 12, 16, 30, 64, 64])
    if "overhead" in kinds:
        r = rng.random()
        if r < 0.45:
            tg["target_overhead"] = rng.choice(OVERHEADS)
        elif r < 0.75:
            # non-dyadic decimal targets: the code sees the nearest float, the model its exact value
            tg["target_overhead"] = Fraction(rng.choice(NONDYADIC))
        else:
            # boundary targets: the float overhead of an actual one-index slicing (or a neighbour)
            tg["target_overhead"] = Fraction(boundary_overhead(rng, tree))
    ao = rng.choice([True, True, False, False, "only", "only"])
    minimize = rng.choice(["flops", "size", "write", "combo", "limit", "combo-64", "limit-4"])
    temperature = rng.choice([0.0, 0.01, 0.01, 0.3, 1.0, 5.0])
    seed = rng.randrange(10 ** 6)
    repeats = rng.choice([1, 1, 2, 3, 4, 6, 8])
    return tg, ao, minimize, temperature, seed, repeats


def fl(tg):
    """target dict as handed to cotengra (overhead as float; all our values are dyadic, so exact)"""
    d = dict(tg)
    if "target_overhead" in d:
        d["target_overhead"] = float(d["target_overhead"])
    return d


# ---------------------------------------------------------------------------
# canonical observations of the real objects, in the model's layout
class ShapeError(Exception):
    """the implementation's state does not have the shape the model speaks about"""


def obs_costs(cost, dfs_of_real):
    I = gen.IDX
    nreal = len(cost.contractions)
    if nreal != len(dfs_of_real):
        raise ShapeError("ContractionCosts.contractions has %d entries, the tree has %d internal nodes "
                         "(the model: exactly the N-1 contractions of the tree, no leaves)" % (nreal, len(dfs_of_real)))
    for c in cost.contractions:
        if not (isinstance(c, tuple) and len(c) == 4):
            raise ShapeError("a contraction entry is not an (involved, legs, size, flops) tuple: %r" % (c,))
    for k, wh in cost._where.items():
        if any((not isinstance(i, int)) or i < 0 or i >= nreal for i in wh):
            raise ShapeError("_where[%r] = %r refers to a contraction that does not exist" % (k, sorted(wh)))
    real_of_dfs = [None] * nreal
    for i, k in enumerate(dfs_of_real):
        real_of_dfs[k] = i
    rows = []
    for k in range(nreal):
        inv, legs, size, flops = cost.contractions[real_of_dfs[k]]
        rows.append((sorted(I[x] for x in inv), sorted(I[x] for x in legs), Z(size), Z(flops)))
    sd = sorted((I[k], Z(v)) for k, v in cost.size_dict.items())
    size = cost.size
    size = None if size == -float("inf") else Some(Z(size))
    counter = sorted((Z(k), v) for k, v in cost._sizes._c.items())
    perix = []
    for k in sorted(cost.size_dict, key=lambda c: I[c]):
        wh = cost._where.get(k)
        perix.append((I[k], Z(cost._flop_reductions.get(k, 0)), Z(cost._write_reductions.get(k, 0)),
                      sorted(dfs_of_real[i] for i in wh) if wh else []))
    stray = [k for d in (cost._flop_reductions, cost._write_reductions, cost._where) for k in d
             if k not in cost.size_dict]
    return (sd, rows, Z(cost.nslices), Z(cost.original_flops), Z(cost._flops), size, counter, perix), stray


def obs_pred(key, cost):
    size = cost.size
    return (sorted(gen.IDX[x] for x in key),
            None if size == -float("inf") else Some(Z(size)), Z(cost.total_flops), Z(cost.nslices))


def key_of(sf, cost):
    for k, c in sf.costs.items():
        if c is cost:
            return k
    return None


def stats_of(tree):
    st = tree.contract_stats()
    return {"flops": st["flops"], "write": st["write"], "size": st["size"], "mult": tree.multiplicity}


def fresh_tree(inputs, output, size_dict, path, pre, extra=()):
    import cotengra as ctg
    t = ctg.ContractionTree.from_path(inputs, output, size_dict, path=path)
    for ix, v in pre:
        if v is None:
            t.remove_ind_(ix)
        else:
            t.remove_ind_(ix, project=v)
    for ix in extra:
        t.remove_ind_(ix)
    return t


def targets_hold(tg, size, flops_after, flops_before, mult_after, mult_before):
    """the property's target predicate, exact arithmetic; returns list of broken targets"""
    bad = []
    if "target_size" in tg and not (size <= tg["target_size"]):
        bad.append("size %r > target_size %r" % (size, tg["target_size"]))
    if "target_slices" in tg and not (mult_after >= tg["target_slices"] * mult_before):
        bad.append("slices %r (on top of %r) < target_slices %r" % (mult_after, mult_before, tg["target_slices"]))
    t = tg.get("target_overhead")
    # a violation only when the exact quotient exceeds the target by more than the rounding error of
    # the code's float division (inside that band the float test may legitimately say "<=")
    if t is not None and (t.numerator * flops_before * FP53
                          < flops_after * t.denominator * (FP53 - 1)):
        bad.append("total flops %r > target_overhead %s x %r" % (flops_after, tg["target_overhead"], flops_before))
    return bad


def forbidden_broken(ao, chosen, output, already):
    bad = []
    if ao is False and set(chosen) & set(output):
        bad.append("output indices %r chosen although allow_outer=False" % sorted(set(chosen) & set(output)))
    if ao == "only" and set(chosen) - set(output):
        bad.append("inner indices %r chosen although allow_outer='only'" % sorted(set(chosen) - set(output)))
    if set(chosen) & set(already):
        bad.append("already removed indices %r chosen again" % sorted(set(chosen) & set(already)))
    return bad


# ---------------------------------------------------------------------------
def observe_calls(sf, done, dfs_of_real, tlit):
    """the recorded calls in the model's layout: (Coq literals of the calls, expected observations, stray keys)"""
    I = gen.IDX
    calls_lit, rhs_calls, stray_all = [], [], []
    obs_costs(sf.cost0, dfs_of_real)      # shape of the incoming cost object, also when every call raises
    for _, c in done[-1]["snapshot"]:
        if len(c.contractions) != len(dfs_of_real):
            raise ShapeError("a cached ContractionCosts has %d contractions, the tree has %d internal nodes"
                             % (len(c.contractions), len(dfs_of_real)))
    for d in done:
        oracles = [[I[x] for x in t["choices"]] for t in d["trials"]]
        ovl = "(%s, (%s, %s))" % (coq(tlit(d["ov"], "target_size")), coq(tlit(d["ov"], "target_overhead")),
                                  coq(tlit(d["ov"], "target_slices")))
        calls_lit.append("(%s, %s)" % (ovl, coq(oracles) if oracles else "[]"))
        if d["kind"] in (0, E_MIN_EMPTY):
            tr_obs = [obs_pred(key_of(sf, t["ret"]), t["ret"]) for t in d["trials"]]
            ch_obs = []
            for k, c in d["snapshot"]:
                o, stray = obs_costs(c, dfs_of_real)
                stray_all += stray
                ch_obs.append((sorted(I[x] for x in k), o))
            best_obs = (0, Some(obs_pred(d["result"][0], d["result"][1]))) if d["kind"] == 0 else (d["kind"], None)
            rhs_calls.append(coq((0, tr_obs, ch_obs, best_obs)))
        else:
            rhs_calls.append(coq((d["kind"], [], [], (d["kind"], None))))
    return calls_lit, rhs_calls, stray_all


def run_case(ctx, rng, ci, cases, records, scratch_cases):
    import cotengra as ctg
    from cotengra.slicer import SliceFinder

    inputs, output, size_dict, path, tree, pre = make_case(rng, ctx.quick)
    tg, ao, minimize, temperature, seed, repeats = make_params(rng, tree)
    rec = {"inputs": inputs, "output": output, "size_dict": size_dict, "path": path, "pre_removed": pre,
           "targets": {k: str(v) for k, v in tg.items()}, "allow_outer": ao, "minimize": minimize,
           "temperature": temperature, "seed": seed, "max_repeats": repeats}
    feats = gen.net_features(inputs, output, size_dict)
    for f in feats:
        ctx.count(f)
    if pre:
        ctx.count("pre_sliced")
    if any(v is not None for _, v in pre):
        ctx.count("pre_projected")
    ctx.count("allow_outer=%s" % ao)
    ctx.count("targets=" + "+".join(sorted(k[7:] for k in tg)))
    ctx.count("minimize=" + minimize.split("-")[0])

    base = stats_of(tree)
    pre_ix = [ix for ix, _ in pre]
    nested = gen.tree_nested(tree)
    real_nodes = [nd for nd in tree.info if len(nd) != 1]
    dfs_nodes = [p for p, _, _ in tree.traverse()]
    dfs_of_real = [dfs_nodes.index(nd) for nd in real_nodes]

    # ---- the real searches, recorded: a sequence of search(...) calls on ONE SliceFinder, with
    # and without per-call target overrides (the cache of the object persists across calls) ----
    first_plain = rng.random() < 0.65
    calls = [({} if first_plain else make_overrides(ctx, rng, tg), repeats)]
    for _ in range(rng.choice([0, 0, 1, 1, 2])):
        calls.append((make_overrides(ctx, rng, tg), rng.choice([1, 1, 2, 3])))
    rec["calls"] = [({k: str(v) for k, v in ov.items()}, r) for ov, r in calls]
    sf = SliceFinder(tree, allow_outer=ao, seed=seed, minimize=minimize, temperature=temperature, **fl(tg))
    done = []     # per executed call: dict(ov, eff, kind, result, trials, snapshot)
    for ov, reps in calls:
        REC.trials = []
        result, kind = None, 0
        try:
            result = sf.search(reps, **fl(ov))
        except Exception as e:
            kind = exc_kind(e)
            if kind is None:
                REC.trials = None
                ctx.fail("SliceFinder.search raised an unexpected exception %r" % (e,), rec)
                return
        trials = REC.trials
        REC.trials = None
        eff = dict(tg)
        eff.update(ov)
        done.append({"ov": ov, "eff": eff, "kind": kind, "result": result, "trials": trials,
                     "snapshot": list(sf.costs.items())})
        ctx.count("search:" + {0: "returned", 1: "RuntimeError(no valid index)", 2: "KeyError(exhausted index)",
                                3: "ValueError(max of empty)", 4: "ValueError(no valid slicing)"}[kind])
        ctx.count("call:" + ("override" if ov else "plain") + (":later" if len(done) > 1 else ":first"))
        if kind not in (0, E_MIN_EMPTY):
            break      # the trials raised: the object's cache is in a state the model does not track
    kind, result, trials = done[0]["kind"], done[0]["result"], done[0]["trials"]

    # ---- float vs exact overhead comparison: only cases where both provably agree ----
    for d in done:
        if "target_overhead" in d["eff"]:
            tv = d["eff"]["target_overhead"]
            ctx.count("overhead_target:" + ("dyadic" if tv.denominator <= 64 else "non-dyadic"))
            if not all(over_safe(c, tv) for _, c in d["snapshot"]):
                # the float quotient is within rounding error of the target: the code's answer is
                # then a matter of float rounding, outside the model (and outside the exact oracle)
                ctx.count("overhead_unsafe(skipped)")
                return

    # ---- model replay (evaluated inside Coq) --------------------------------------
    I = gen.IDX
    netl = gen.net_lit(inputs, output, size_dict)
    sl_model = [(I[k], (None if si.project is None else Some(si.project))) for k, si in tree.sliced_inds.items()]
    sll = "[" + "; ".join("mkSl %d %s" % (i, coq(p)) for i, p in sl_model) + "]"
    tl = tree_lit(nested)
    aol = {True: "AoTrue", False: "AoFalse", "only": "AoOnly"}[ao]

    def tlit(d, k):
        if k not in d:
            return None
        if k == "target_overhead":
            return Some((Z(d[k].numerator), Z(d[k].denominator)))
        return Some(Z(d[k]))

    fdl = "(finder_of_tree %s %s %s %s %s %s %s)" % (
        netl, sll, tl, aol, coq(tlit(tg, "target_size")), coq(tlit(tg, "target_overhead")), coq(tlit(tg, "target_slices")))
    calls_lit, rhs_calls, stray_all, shape_problem = [], [], [], None
    try:
        calls_lit, rhs_calls, stray_all = observe_calls(sf, done, dfs_of_real, tlit)
    except CaseTimeout:
        raise
    except Exception as e:   # never a harness exception: an unexpected shape is a reported disagreement
        shape_problem = "%s: %s" % (type(e).__name__, e)
        ctx.count("unexpected_state_shape")
        ctx.fail("the implementation's SliceFinder / ContractionCosts state cannot be observed in the model's "
                 "layout (model and implementation disagree): " + shape_problem,
                 dict(rec, correspondence="observation of sf.costs / trial returns"), found_input=False)
    calls_l = "[" + "; ".join(calls_lit) + "]"
    if shape_problem is None:
        cases.append(("case%d" % ci, "(obs_calls %s %s (cache0 %s))" % (fdl, calls_l, fdl),
                      "[" + "; ".join(rhs_calls) + "]"))
        records.append(rec)
        # verified checkers inside Coq: theorem hypotheses, from-scratch tables, overhead side condition
        scratch_cases.append(("scratch%d" % ci,
                              "(hyps_b %s %s %s, calls_check_b %s %s %s %s %s (cache0 %s))" % (
                                  netl, sll, tl, netl, sll, tl, fdl, calls_l, fdl),
                              "(true, true)"))
    if stray_all:
        ctx.fail("ContractionCosts keeps reduction/_where entries for indices no longer in size_dict: %r"
                 % sorted(set(stray_all)), rec, found_input=False)

    # forbidden choices inside ANY accepted key of the cache (not only the returned one)
    for k in sf.costs:
        bad = forbidden_broken(ao, k, output, pre_ix)
        if bad:
            ctx.fail("slice finder cached a slicing with forbidden indices: " + "; ".join(bad), dict(rec, key=sorted(k)))

    nontrivial = False
    # ---- oracle: every returned prediction against the tree actually sliced, judged against
    # the targets OF THE CALL (a given argument wins over the construction-time one) ----------
    for ci_call, d in enumerate(done):
        if d["kind"] != 0:
            continue
        ix_sl, cost = d["result"]
        eff = d["eff"]
        chosen = sorted(ix_sl)
        order = list(chosen)
        rng.shuffle(order)
        bad = forbidden_broken(ao, chosen, output, pre_ix)
        try:
            t2 = fresh_tree(inputs, output, size_dict, path, pre, order)
            st = stats_of(t2)
            spec = oracle.spec_costs(inputs, output, size_dict, nested, pre_ix + chosen,
                                     [ix for ix, v in pre if v is not None])
            if (st["flops"], st["size"], st["mult"]) != (spec["flops"], spec["size"], spec["multiplicity"]):
                bad.append("remove_ind chain statistics %r differ from the definition %r" % (
                    st, {k: spec[k] for k in ("flops", "size", "multiplicity")}))
            if cost.size != spec["size"]:
                bad.append("predicted size %r, sliced tree has %r" % (cost.size, spec["size"]))
            if cost.total_flops * base["mult"] != spec["flops"]:
                bad.append("predicted total flops %r (x incoming multiplicity %r), sliced tree has %r" % (
                    cost.total_flops, base["mult"], spec["flops"]))
            if cost.nslices * base["mult"] != spec["multiplicity"]:
                bad.append("predicted nslices %r (x incoming %r), sliced tree has %r" % (
                    cost.nslices, base["mult"], spec["multiplicity"]))
            bad += targets_hold(eff, spec["size"], spec["flops"], base["flops"], spec["multiplicity"], base["mult"])
        except CaseTimeout:
            raise
        except Exception as e:
            bad.append("slicing a fresh tree on the returned set raised %r" % (e,))
        if bad:
            ctx.fail("search call %d (constructed with %r, called with %r) returned %r: " % (
                ci_call, rec["targets"], {k: str(v) for k, v in d["ov"].items()}, chosen) + "; ".join(bad),
                dict(rec, returned=chosen, call=ci_call))
        if d["ov"]:
            ctx.count("override_call:returned")
            if chosen:
                ctx.count("override_call:returned_nonempty")
        if chosen:
            ctx.count("returned_nonempty")
            nontrivial = True
        if len(chosen) >= 2:
            ctx.count("returned_2plus")
        if any(len(t["choices"]) > len(key_of(sf, t["ret"]) or ()) for t in d["trials"] if t["ret"] is not None):
            ctx.count("overhead_break")

    # ---- oracle: EVERY slicing the finder has costed (the candidates of `best`), also when the
    # search raised: its predicted (size, total flops, nslices) against the definition ----------
    projected = [ix for ix, v in pre if v is not None]
    entries = list(sf.costs.items())
    if len(entries) > 24:
        entries = entries[:8] + rng.sample(entries[8:], 16)
    big_input_seen = False
    for K, cost in entries:
        chosen = sorted(K)
        try:
            spec = oracle.spec_costs(inputs, output, size_dict, nested, pre_ix + chosen, projected)
            removed_now = set(pre_ix) | set(chosen)
            largest_input = max(oracle.prod(size_dict[ix] for ix in set(t) if ix not in removed_now) for t in inputs)
            if spec["size"] is not None and largest_input > spec["size"]:
                big_input_seen = True
            pred = (cost.size, cost.total_flops * base["mult"], cost.nslices * base["mult"])
            real = (spec["size"], spec["flops"], spec["multiplicity"])
        except CaseTimeout:
            raise
        except Exception as e:
            ctx.fail("costed slicing %r cannot be judged: %r" % (chosen, e), dict(rec, key=chosen), found_input=False)
            continue
        if pred != real:
            extra = ""
            for ci_call, d in enumerate(done):
                if d["kind"] in (E_FORBIDDEN, E_KEY, E_MAX_EMPTY, E_MIN_EMPTY) and not targets_hold(
                        d["eff"], spec["size"], spec["flops"], base["flops"], spec["multiplicity"], base["mult"]) \
                        and not forbidden_broken(ao, chosen, output, pre_ix):
                    extra = ("; search call %d raised (kind %d) although this slicing, which the finder costed, "
                             "meets the call's targets %r on the real tree" % (
                                 ci_call, d["kind"], {k: str(v) for k, v in d["eff"].items()}))
                    break
            ctx.fail("slicing %r costed by the finder: predicted (size, total flops, nslices) = %r, the tree sliced "
                     "on it has %r (largest input tensor of the sliced network: %r)%s" % (
                         chosen, pred, real, largest_input, extra), dict(rec, key=chosen))
            break
    if big_input_seen:
        ctx.count("big_input>intermediates(sliced)")

    # ---- tree.slice post-conditions ---------------------------------------------
    for reslice in (False, True):
        if reslice and not pre:
            continue
        tag = "slice(reslice)" if reslice else "slice"
        if reslice:
            ctx.count("reslice:cases")
            if any(v is not None for _, v in pre):
                ctx.count("reslice:pre_projected")
            for k in tg:
                ctx.count("reslice:" + k)
        elif any(v is not None for _, v in pre):
            ctx.count("slice:pre_projected")
        try:
            t3 = tree.slice(allow_outer=ao, seed=seed, minimize=minimize, temperature=temperature,
                            max_repeats=repeats, reslice=reslice, **fl(tg))
        except CaseTimeout:
            raise
        except Exception as e:
            k3 = exc_kind(e)
            if k3 is None:
                ctx.fail("tree.slice raised an unexpected exception %r" % (e,), dict(rec, reslice=reslice))
            elif not reslice and first_plain and k3 != kind:
                ctx.fail("tree.slice raised (kind %r) where SliceFinder.search with the same seed gave kind %r"
                         % (k3, kind), dict(rec, reslice=reslice), found_input=False)
            ctx.count("slice%s:raised" % ("(reslice)" if reslice else ""))
            continue
        ctx.count("slice%s:returned" % ("(reslice)" if reslice else ""))
        if any(v is not None for _, v in pre):
            ctx.count("%s:returned:pre_projected" % tag)
            if "target_overhead" in tg:
                ctx.count("%s:returned:pre_projected:overhead" % tag)
        bad = []
        st3 = stats_of(t3)
        after = list(t3.sliced_inds)
        proj3 = [k for k, si in t3.sliced_inds.items() if si.project is not None]
        spec3 = oracle.spec_costs(inputs, output, size_dict, gen.tree_nested(t3), after, proj3)
        if (st3["flops"], st3["size"], st3["mult"]) != (spec3["flops"], spec3["size"], spec3["multiplicity"]):
            bad.append("sliced tree reports %r, the definition gives %r" % (
                st3, {k: spec3[k] for k in ("flops", "size", "multiplicity")}))
        if not reslice:
            new = [k for k in after if k not in pre_ix]
            if sorted(after) != sorted(set(pre_ix) | set(new)) or any(k not in after for k in pre_ix):
                bad.append("previously removed indices lost: %r -> %r" % (pre_ix, after))
            bad += forbidden_broken(ao, new, output, ())
            bad += targets_hold(tg, spec3["size"], spec3["flops"], base["flops"], spec3["multiplicity"], base["mult"])
            if first_plain and kind == 0 and sorted(new) != sorted(result[0]):
                ctx.fail("tree.slice(seed=s) sliced %r but SliceFinder(seed=s).search returned %r" % (
                    sorted(new), sorted(result[0])), dict(rec, reslice=False), found_input=False)
        else:
            un = fresh_tree(inputs, output, size_dict, path, ())
            ub = stats_of(un)
            bad += forbidden_broken(ao, after, output, ())
            # with reslice the cost targets are relative to the unsliced tree and (documented) the
            # target number of slices is on top of the incoming number of slices
            bad += targets_hold(tg, spec3["size"], spec3["flops"], ub["flops"], spec3["multiplicity"], base["mult"])
        if bad:
            ctx.fail("tree.slice(reslice=%r) post-condition: " % reslice + "; ".join(bad),
                     dict(rec, reslice=reslice, sliced_after=after))

    ctx.case((inputs, output, tuple(sorted(size_dict.items())), path, tuple(pre), tuple(sorted(rec["targets"].items())),
              str(ao), minimize, temperature, seed, repeats, repr(rec["calls"])),
             nontrivial=nontrivial, sample=rec if (nontrivial and ci % 7 == 0) else None)


def run(ctx):
    if not standard_proof_steps(ctx):
        return
    REC.install()
    signal.signal(signal.SIGALRM, _alarm)
    rng = ctx.rng
    ncases = ctx.n(500, 6000)
    cases, records, scratch_cases = [], [], []
    for ci in range(ncases):
        signal.alarm(30)
        try:
            run_case(ctx, rng, ci, cases, records, scratch_cases)
        except CaseTimeout:
            ctx.fail("a SliceFinder / tree.slice call did not return within 30 s", {"case": ci, "seed": ctx.seed})
        finally:
            signal.alarm(0)
            REC.trials = None
            REC.cur = None
    ctx.log("ran %d cases; features %r" % (ncases, {k: v for k, v in ctx.coverage["features"].items()
                                                   if k.startswith(("search", "returned", "slice"))}))

    floor = ctx.n(60, 800)
    got = ctx.coverage["features"].get("big_input>intermediates(sliced)", 0)
    if got < floor:
        ctx.fail("generator floor not met: only %d cases with a costed slicing whose largest input tensor exceeds "
                 "every intermediate (floor %d)" % (got, floor), {"seed": ctx.seed}, found_input=False)

    failing = ctx.coq_cases("c07_replay", ["SlicerCosts"], cases, chunk=ctx.n(32, 64), timeout=900)
    for idx, label, val in failing:
        r = dict(records[idx]) if idx < len(records) else {}
        r["model_value"] = val
        r["expected_from_code"] = cases[idx][2] if idx < len(cases) else None
        r["correspondence"] = ("Model/SlicerCosts.v obs_search (trial returns, every cached ContractionCosts table, "
                               "best) vs the recorded SliceFinder.search")
        ctx.fail("model and implementation disagree on the slice finder's tables / returns", r, found_input=False)
    failing = ctx.coq_cases("c07_scratch", ["SlicerCosts"], scratch_cases, chunk=ctx.n(32, 64), timeout=900)
    for idx, label, val in failing:
        r = dict(records[idx]) if idx < len(records) else {}
        r["model_value"] = val
        r["correspondence"] = ("verified checker search_scratch_b: a cached cost table of the model differs from the "
                               "table built from scratch (Model/Net.v) for the same removed set, or its hypotheses "
                               "(positive sizes, well formed rows) fail")
        ctx.fail("incremental table differs from the from-scratch table", r, found_input=False)

    ctx.coverage["rule"] = (
        "random networks (2..7/8 tensors; hyper / repeated / scalar / disconnected / size-1 features; half with "
        "dimensions up to 4), uniform random paths, 35% already sliced or projected on 1-2 indices, target kind(s) "
        "and value, allow_outer in {True, False, 'only'}, 7 objectives, 6 temperatures, seed, 1..8 repeats; "
        "non-trivial = search returned a non-empty index set; distinct by all of these")
    ctx.assumptions = [
        "the choice max(cost.size_dict, key=score - T*log(-log(rng)) - inf*forbidden) is an oracle of the model "
        "(objective, temperature, rng, float arithmetic are not modelled); theorems hold for every oracle",
        "target_overhead is compared as an exact rational (the code compares float quotients; the generated "
        "targets are dyadic and the costs small, so both agree)",
        "trees with at least two tensors (ContractionCosts of a single-tensor tree has no contraction)",
        "correspondence is executed, not proved (hand-written model)",
    ]
    ctx.trusted.append("builtins.max shadowed inside cotengra.slicer by a recording wrapper (harness process only)")


if __name__ == "__main__":
    main(PROP, run)

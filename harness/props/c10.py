"""C10 -- path formats convert into each other and into trees without loss."""
import warnings

from vlib import gen, oracle
from vlib.core import Raw, Some, Z, coq, main, standard_proof_steps, tree_lit

PROP = "C10"
IMPORTS = ["Paths", "PathsFacts"]


def path_lit(path):
    return coq([[int(i) for i in step] for step in path])


def pairs_lit(path):
    return coq([(int(a), int(b)) for a, b in path])


def trees_lit(ts):
    return "[" + "; ".join(tree_lit(t) for t in ts) + "]"


def order_lit(table):
    """Coq function tree -> nat from a list of (nested, score)"""
    return "(fun t => nm_get t [%s])" % "; ".join("(%s, %d)" % (tree_lit(t), s) for t, s in table)


def ranks(values):
    """floats -> small integers with the same order and the same ties"""
    u = sorted(set(values))
    return [u.index(v) for v in values]


def rand_general_path(rng, n, p_unary=0.15, p_nary=0.2):
    """random valid linear path with steps of 1, 2 or more positions"""
    path, m = [], n
    while m > 1:
        r = rng.random()
        k = 1 if r < p_unary else (rng.randint(3, m) if r < p_unary + p_nary and m >= 3 else 2)
        step = rng.sample(range(m), k)
        path.append(tuple(step))
        m = m - k + 1
        if len(path) > 3 * n:
            break
    return tuple(path)


def rand_pair_unary_path(rng, n, p_unary=0.2, stop_early=0.0):
    path, m = [], n
    while m > 1:
        if rng.random() < stop_early:
            break
        if rng.random() < p_unary:
            path.append((rng.randrange(m),))
        else:
            i, j = rng.sample(range(m), 2)        # unsorted on purpose
            path.append((i, j))
            m -= 1
        if len(path) > 3 * n:
            break
    return tuple(path)


def intermediates(tree):
    return {nd for nd in tree.children}


def children_first(tree, trav):
    seen = set()
    for p, l, r in trav:
        for c in (l, r):
            if len(c) > 1 and c not in seen:
                return False
        if p in seen or (l | r) != p:
            return False
        seen.add(p)
    return seen == set(tree.children)


def spec_edge_path(edge_path, inputs):
    """independent simulation: each step contracts exactly the current tensors carrying the index"""
    cur = {i: set(t) for i, t in enumerate(inputs)}
    nxt = len(inputs)
    steps = []
    for ix in edge_path:
        car = sorted(i for i, s in cur.items() if ix in s)
        if len(car) < 2:
            for i in car:           # the index is consumed: it never triggers a contraction again
                cur[i] = cur[i] - {ix}
            continue
        new = set()
        for i in car:
            new |= cur.pop(i)
        new.discard(ix)
        cur[nxt] = new
        steps.append(tuple(car))
        nxt += 1
    return tuple(steps)



def leaf_left_nodes(tree):
    """nodes stored as (leaf, intermediate): possible only when the stored child order is not heaviest-first"""
    return sum(1 for p, (l, r) in tree.children.items() if len(l) == 1 and len(r) > 1)


def variants_with_other_child_order(ctx, rng, inputs, output, size_dict, tree):
    """the same set of intermediates with a different stored (left, right) order at some nodes.
    route 1 (public): ContractionTreeMulti + reorder_contractions_for_peak_est(), which swaps children in place;
    route 2: the very assignment that method performs, tree.children[p] = (r, l), at random nodes of a copy
             (always including one (intermediate, leaf) node when the tree has one)"""
    import cotengra as ctg
    from cotengra.scoring import MultiObjectiveDense
    out = []
    # route 2
    t2 = tree.copy()
    cand = [p for p, (l, r) in t2.children.items() if len(l) > 1 and len(r) == 1]
    forced = rng.choice(cand) if cand else None
    for p, (l, r) in list(t2.children.items()):
        if p == forced or rng.random() < 0.5:
            t2.children[p] = (r, l)
    out.append(("swapped", t2))
    # route 1
    allix = sorted({ix for t in inputs for ix in t})
    if allix:
        var = rng.sample(allix, rng.randint(1, min(3, len(allix))))
        tm = ctg.ContractionTreeMulti(inputs, output, size_dict, var, MultiObjectiveDense(rng.choice([2, 10, 100])))
        nodes = dict(enumerate(tm.gen_leaves()))
        for k, (a, b) in enumerate(tree.get_ssa_path()):
            nodes[tm.N + k] = tm.contract_nodes_pair(nodes[a], nodes[b])
        if tm.reorder_contractions_for_peak_est():
            ctx.count("multi_reordered")
        out.append(("multi", tm))
    for tag, vt in out:
        k = leaf_left_nodes(vt)
        ctx.count("leaf_left_nodes_" + tag, k)
        if k:
            ctx.count("trees_with_leaf_left_node_" + tag)
        if set(vt.children) != set(tree.children):
            ctx.fail("re-ordering children changed the set of intermediates (%s)" % tag, {"inputs": inputs, "output": output})
    return out


def check_orders(ctx, rng, ci, tag, tree, mk, N, rec, add, bad, pb, surface):
    tl = tree_lit(gen.tree_nested(tree))
    nested_root = gen.tree_nested(tree)
    sc_ties = {nd: rng.randrange(3) for nd in tree.children}
    sc_rand = {nd: rng.randrange(50) for nd in tree.children}
    orders = [("dfs", None, None), ("ties", lambda nd: sc_ties[nd], sc_ties), ("random", lambda nd: sc_rand[nd], sc_rand)]
    if surface:
        surf = {nd: tree.surface_order(nd) for nd in tree.children}
        rk = dict(zip(surf, ranks([repr(v) if not isinstance(v, (int, float, tuple)) else v for v in surf.values()])))
        orders.append(("surface", "surface_order", rk))
    else:
        orders.append(("dfs_str", "dfs", None))
    for oname, order, scores in orders:
        ctx.count("order_" + oname + ("_" + tag if tag else ""))
        what = "%s%s" % (oname, " on the %s variant" % tag if tag else "")
        try:
            trav = list(tree.traverse(order))
        except Exception as e:
            bad.append("traverse(%s) raised %r" % (what, e))
            continue
        trav_nested = [gen.tree_nested(tree, p) for p, _, _ in trav]
        if not children_first(tree, trav):
            bad.append("traverse(%s) is not children-first / does not cover every node once: %r" % (
                what, [sorted(p) for p, _, _ in trav]))
        try:
            lp = tree.get_path(order)
            sp = tree.get_ssa_path(order)
            ft = tree.flat_tree(order)
        except Exception as e:
            bad.append("get_path / get_ssa_path / flat_tree (%s) raised %r" % (what, e))
            continue
        if scores is None:
            tmodel = "(post_sub %s)" % tl
        else:
            tab = [(gen.tree_nested(tree, nd), s) for nd, s in scores.items()]
            tmodel = "(traverse_ordered %s %s)" % (order_lit(tab), tl)
        orec = dict(rec, order=oname, scores=None if scores is None else sorted((sorted(k), v) for k, v in scores.items()))
        if oname != "dfs_str":      # the string "dfs" is the default order again: oracle only
          add("order_%s%s%d" % (oname, tag, ci),
            "(%s, (get_path %d %s, get_ssa_path %d %s))" % (tmodel, N, tmodel, N, tmodel),
            "(%s, (%s, %s))" % (trees_lit(trav_nested), pairs_lit(lp), pairs_lit(sp)),
            orec, "traverse(%s) / get_path / get_ssa_path" % what)
        # the emitted traversal and both paths, judged by the verified checkers (mine and C01's valid_order_b)
          add("checked_%s%s%d" % (oname, tag, ci),
            "(children_first_b %s && covers_b %s %s && roundtrip_ssa_b %d %s %s && roundtrip_lin_b %d %s %s && "
            "ExecOrderFacts.valid_order_b %s (map (fun p => (Paths.tree_eqb p %s, p)) %s))" % (
                trees_lit(trav_nested), tl, trees_lit(trav_nested), N, tl, path_lit(sp), N, tl, path_lit(lp),
                tl, tl, trees_lit(trav_nested)),
            "true", orec, "verified checkers on the real traversal / paths (%s)" % what)
        # ---- oracle ----
        if ft != nested_root:
            bad.append("flat_tree(%s) is not the tree: %r" % (what, ft))
        if not oracle.path_is_valid_linear(N, lp):
            bad.append("get_path(%s) is not a valid linear path: %r" % (what, lp))
        for kind, kw in (("path", {"path": lp}), ("ssa_path", {"ssa_path": sp})):
            t3 = mk(**kw)
            if intermediates(t3) != intermediates(tree):
                bad.append("tree -> %s (%s) -> tree changes the set of intermediates" % (kind, what))
        if [tuple(sorted(s)) for s in pb.linear_to_ssa(lp, N)] != [tuple(s) for s in sp]:
            bad.append("linear_to_ssa(get_path) != get_ssa_path (%s)" % what)
        if [tuple(s) for s in pb.ssa_to_linear(sp, N)] != [tuple(s) for s in lp]:
            bad.append("ssa_to_linear(get_ssa_path) != get_path (%s)" % what)


def one_network(ctx, rng, ci, add, holder):
    import cotengra as ctg
    from cotengra.pathfinders import path_basic as pb

    inputs, output, size_dict = gen.rand_net(rng, nmin=2, nmax=8 if ctx.quick else 10)
    N = len(inputs)
    path = gen.rand_path(rng, N)
    rec = {"inputs": inputs, "output": output, "size_dict": size_dict, "path": path}
    holder["rec"] = rec
    mk = lambda **kw: ctg.ContractionTree.from_path(inputs, output, size_dict, **kw)
    tree = mk(path=path)
    nested = gen.tree_nested(tree)
    tl = tree_lit(nested)
    bad = []

    # K1/K2: from_path (linear / ssa) builds the same tree, child order included
    add("from_path%d" % ci, "from_path %d %s" % (N, path_lit(path)), "Some [%s]" % tl, rec, "from_path(path=...)")
    ssa_rand = gen.rand_ssa_path(rng, N)
    tree2 = mk(ssa_path=ssa_rand)
    add("from_ssa%d" % ci, "from_ssa_path %d %s" % (N, path_lit(ssa_rand)),
        "Some [%s]" % tree_lit(gen.tree_nested(tree2)), dict(rec, ssa_path=ssa_rand), "from_path(ssa_path=...)")

    # orders, on the tree as built and on the same tree with other stored child orders
    check_orders(ctx, rng, ci, "", tree, mk, N, rec, add, bad, pb, surface=True)
    for tag, vt in variants_with_other_child_order(ctx, rng, inputs, output, size_dict, tree):
        check_orders(ctx, rng, ci, tag, vt, mk, N, dict(rec, variant=tag, children=[(sorted(p), sorted(l), sorted(r)) for p, (l, r) in vt.children.items()]),
                     add, bad, pb, surface=False)

    # K5: converters on general paths (unary, pairwise, n-ary steps, unsorted steps)
    gp = rand_general_path(rng, N)
    if any(len(s) == 1 for s in gp):
        ctx.count("unary_step")
    if any(len(s) > 2 for s in gp):
        ctx.count("nary_step")
    s_of = pb.linear_to_ssa(gp, N)
    l_of = pb.ssa_to_linear(s_of, N)
    s_again = pb.linear_to_ssa(l_of, N)
    add("conv%d" % ci,
        "(linear_to_ssa %s %d, (ssa_to_linear %s %d, inverse_ok_b %s %d))" % (path_lit(gp), N, path_lit(s_of), N, path_lit(gp), N),
        "(%s, (%s, true))" % (path_lit(s_of), path_lit(l_of)), dict(rec, general_path=gp),
        "linear_to_ssa / ssa_to_linear on a general path")
    if [sorted(s) for s in l_of] != [sorted(s) for s in gp]:
        bad.append("ssa_to_linear(linear_to_ssa(p)) != p: %r -> %r -> %r" % (gp, s_of, l_of))
    if [sorted(s) for s in s_again] != [sorted(s) for s in s_of]:
        bad.append("linear_to_ssa(ssa_to_linear(s)) != s")
    if not oracle.path_is_valid_linear(N, l_of):
        bad.append("ssa_to_linear gives an invalid path")

    # K7: unary steps + incomplete paths with autocomplete
    ip = rand_pair_unary_path(rng, N, stop_early=0.25)
    with warnings.catch_warnings():
        warnings.simplefilter("ignore")
        t4 = mk(path=ip, autocomplete=True)
    m_left = N - sum(1 for s in ip if len(s) == 2)
    ctx.count("incomplete_path" if m_left > 1 else "complete_path")
    if not oracle.tree_is_complete(t4):
        bad.append("from_path(autocomplete=True) is not complete for %r" % (ip,))
    if m_left <= 2:
        add("auto%d" % ci, "from_path %d %s" % (N, path_lit(ip)), "Some [%s]" % tree_lit(gen.tree_nested(t4)),
            dict(rec, partial_path=ip), "from_path with unary steps / autocomplete of <= 2 nodes")
    t5 = mk(path=ip, autocomplete=False)
    want_nodes = set()
    nodes = [frozenset([i]) for i in range(N)]
    for s in ip:
        mg = [nodes.pop(i) for i in sorted(s, reverse=True)]
        u = frozenset().union(*mg)
        nodes.append(u)
        if len(mg) > 1:
            want_nodes.add(u)
    if set(t5.children) != want_nodes:
        bad.append("from_path(autocomplete=False) intermediates differ from the path's for %r" % (ip,))

    # K6: edge paths over random permutations of (a subset of) the indices
    allix = sorted({ix for t in inputs for ix in t})
    if allix:
        ep = rng.sample(allix, rng.randint(1, len(allix)))
        ctx.count("edge_paths")
        es = pb.edge_path_to_ssa(ep, inputs)
        el = pb.edge_path_to_linear(ep, inputs)
        if any(len(s) > 2 for s in es):
            ctx.count("edge_nary_step")
        if len(es) < len(ep):
            ctx.count("edge_skipped_index")
        ins = coq([[gen.IDX[c] for c in t] for t in inputs])
        add("edge%d" % ci,
            "(edge_path_to_ssa %s %s, edge_path_to_linear %s %s)" % (coq([gen.IDX[c] for c in ep]), ins,
                                                                     coq([gen.IDX[c] for c in ep]), ins),
            "((%s, false), %s)" % (path_lit(es), path_lit(el)), dict(rec, edge_path=ep), "edge_path_to_ssa / edge_path_to_linear")
        spec = spec_edge_path(ep, inputs)
        if tuple(tuple(s) for s in es) != spec:
            bad.append("edge_path_to_ssa %r: steps %r, but the tensors carrying each index are %r" % (ep, es, spec))
        if not oracle.path_is_valid_linear(N, list(el) + ([tuple(range(N - sum(len(s) - 1 for s in el)))] if N - sum(len(s) - 1 for s in el) > 1 else [])):
            bad.append("edge_path_to_linear gives an invalid path %r" % (el,))
        with warnings.catch_warnings():
            warnings.simplefilter("ignore")
            t6 = mk(edge_path=ep, autocomplete=True, optimize="greedy")
        if not oracle.tree_is_complete(t6):
            bad.append("from_path(edge_path=...) is not complete")
        # every multi-tensor step of the edge path is an intermediate of the tree
        nodes = {i: frozenset([i]) for i in range(N)}
        nxt = N
        for s in es:
            u = frozenset().union(*[nodes.pop(i) for i in s])
            nodes[nxt] = u
            nxt += 1
            if len(u) > 1 and u not in t6.children:
                bad.append("edge path step %r is not an intermediate of the tree" % (s,))
    for b in bad:
        ctx.fail(b, rec)
    ctx.case((inputs, output, path), nontrivial=N >= 4, sample=rec if ci < 4 else None)
    for f in gen.net_features(inputs, output, size_dict):
        ctx.count(f)


def run(ctx):
    if not standard_proof_steps(ctx):
        return
    rng = ctx.rng
    ncases = ctx.n(250, 3000)
    cases, records = [], []

    def add(label, lhs, rhs, rec, what):
        cases.append((label, lhs, rhs))
        records.append((rec, what))

    for ci in range(ncases):
        holder = {}
        try:
            one_network(ctx, rng, ci, add, holder)
        except Exception as e:
            import traceback
            ctx.fail("implementation raised during a path conversion: %r" % (e,),
                     dict(holder.get("rec", {}), traceback=traceback.format_exc()[-2500:]))
    # generator floor: trees whose stored child order has a leaf on the left of an intermediate
    f = ctx.coverage["features"]
    floor = ncases // 4
    if f.get("trees_with_leaf_left_node_swapped", 0) < floor or f.get("trees_with_leaf_left_node_multi", 0) < max(1, ncases // 25):
        ctx.fail("generator floor missed: too few trees with a (leaf, intermediate) node: %r" % (
            {k: v for k, v in f.items() if "leaf_left" in k},), {"floor": floor}, found_input=False)
    ctx.log("generated %d correspondence cases over %d networks" % (len(cases), ncases))
    failing = ctx.coq_cases("c10", IMPORTS, cases, chunk=60, timeout=900, prelude="From Ctg Require ExecOrderFacts.")
    for idx, label, val in failing:
        rec, what = records[idx] if idx < len(records) else ({}, "?")
        rec = dict(rec, correspondence=what, case=label, model_value=val)
        ctx.fail("model and implementation disagree: " + what, rec, found_input=False)
    ctx.coverage["rule"] = (
        "random networks (2..8/10 tensors), uniform random trees; per tree: from_path (linear, ssa), four orders (dfs, callable "
        "with ties, random callable, surface_order) x traversal/get_path/get_ssa_path, converters on general paths (unary, "
        "pairwise, n-ary, unsorted steps), incomplete paths with and without autocomplete, edge paths over random index "
        "permutations; non-trivial = >= 4 tensors; distinct by (network, tree)")
    ctx.assumptions = [
        "a step contracting three or more tensors calls an optimizer in the real code; the model of from_path covers unary and "
        "pairwise steps (the converters are modelled for any step length); n-ary steps are judged by the oracle only",
        "order callables are modelled as arbitrary functions node -> nat; real float scores are replaced by their ranks",
        "correspondence is executed, not proved (hand-written model)"]


if __name__ == "__main__":
    main(PROP, run)

"""Worker process of the C20 check: runs the compressed pathfinders on a batch of
networks (JSON on stdin) and prints, per job, what they returned (JSON on stdout).
Run in a subprocess under a timeout by harness/props/c20.py, because a heuristic
search is the kind of call that may not return."""
import json
import sys
import warnings


def run_job(job):
    import cotengra as ctg
    from cotengra.pathfinders.path_compressed_greedy import GreedyCompressed, GreedySpan

    inputs = [tuple(t) for t in job["inputs"]]
    output = tuple(job["output"])
    size_dict = job["size_dict"]
    method, seed, chi = job["method"], job["seed"], job["chi"]
    if method == "direct-greedy-compressed":
        tree = GreedyCompressed(chi, seed=seed, temperature=0.3).search(inputs, output, size_dict)
    elif method == "direct-greedy-span":
        tree = GreedySpan(seed=seed, temperature=0.3).search(inputs, output, size_dict)
    elif method.startswith("hyper:"):
        opt = ctg.HyperCompressedOptimizer(methods=[method[6:]], max_repeats=3, optlib="random", parallel=False,
                                           progbar=False, minimize="peak-compressed-%d" % chi, seed=seed)
        tree = opt.search(inputs, output, size_dict)
    elif method in ("windowed", "windowed-default"):
        t0 = GreedyCompressed(chi, seed=seed).search(inputs, output, size_dict)
        kw = {"window_size": job["window_size"]} if method == "windowed" else {}
        tree = t0.windowed_reconfigure(minimize="peak-compressed-%d" % chi, max_iterations=3, seed=seed, **kw)
    elif method == "array_contract_tree":
        opt = ctg.HyperCompressedOptimizer(methods=["greedy-compressed", "greedy-span"], max_repeats=3,
                                           optlib="random", parallel=False, progbar=False,
                                           minimize="peak-compressed-%d" % chi, seed=seed)
        shapes = [tuple(size_dict[ix] for ix in t) for t in inputs]
        tree = ctg.array_contract_tree(inputs, output, shapes=shapes, optimize=opt, canonicalize=False)
    else:
        raise ValueError(method)
    trav = [(sorted(p), sorted(l), sorted(r)) for p, l, r in tree.traverse()]
    return {
        "cls": type(tree).__name__,
        "N": tree.N,
        "is_complete": bool(tree.is_complete()),
        "children": [[sorted(p), sorted(l), sorted(r)] for p, (l, r) in tree.children.items()],
        "traverse": trav,
        "ssa_surface": [list(map(int, s)) for s in tree.get_ssa_path_surface()],
        "ssa_default": [list(map(int, s)) for s in tree.get_ssa_path()],
        "inputs_kept": [list(t) for t in tree.inputs] == [list(t) for t in inputs],
    }


def main():
    warnings.simplefilter("ignore")
    jobs = json.load(sys.stdin)
    out = []
    for job in jobs:
        try:
            out.append(run_job(job))
        except Exception as e:  # reported by the parent as a failure of the finder
            out.append({"error": repr(e)})
        sys.stdout.write("")
    json.dump(out, sys.stdout)


if __name__ == "__main__":
    main()

"""Worker process of the C20 check: runs the compressed pathfinders on a batch of
networks (JSON on stdin) and prints, per job, what they returned (JSON on stdout).
Run in a subprocess under a timeout by harness/props/c20.py, because a heuristic
search is the kind of call that may not return."""
import json
import sys
import warnings


CHIS_W = (1, 2, 4, 16, 10 ** 18)


def stats(tree):
    out = []
    for chi in CHIS_W:
        for late in (False, True):
            t = tree.compressed_contract_stats(chi, compress_late=late)
            out.append((int(t.flops), int(t.max_size), int(t.write), int(t.peak_size)))
    return out


def twins(job, inputs, output, size_dict):
    """in-place refiners against their out-of-place twins, same start, same seed"""
    from cotengra.pathfinders.path_compressed_greedy import GreedyCompressed

    chi, seed, w = job["chi"], job["seed"], job["window_size"]
    mini = "peak-compressed-%d" % chi
    res = {"twins": []}
    for name, kw in (("windowed_reconfigure", {"max_iterations": 4, "window_size": w}),
                     ("simulated_anneal", {"tsteps": 3, "numiter": 3})):
        t_out0 = GreedyCompressed(chi, seed=seed).search(inputs, output, size_dict)
        t_in = GreedyCompressed(chi, seed=seed).search(inputs, output, size_dict)
        t_out = getattr(t_out0, name)(minimize=mini, seed=seed, **kw)
        ret = getattr(t_in, name + "_")(minimize=mini, seed=seed, **kw)
        res["twins"].append({
            "refiner": name,
            "returns_self": ret is t_in,
            "ssa_out": [list(map(int, s_)) for s_ in t_out.get_ssa_path()],
            "ssa_in": [list(map(int, s_)) for s_ in t_in.get_ssa_path()],
            "same_stats": stats(t_out) == stats(t_in),
            "complete_in": bool(t_in.is_complete()),
        })
    return res


def run_job(job):
    import cotengra as ctg
    from cotengra.pathfinders.path_compressed_greedy import GreedyCompressed, GreedySpan

    inputs = [tuple(t) for t in job["inputs"]]
    output = tuple(job["output"])
    size_dict = job["size_dict"]
    method, seed, chi = job["method"], job["seed"], job["chi"]
    if method == "direct-greedy-compressed":
        tree = GreedyCompressed(chi, seed=seed, temperature=0.3).search(inputs, output, size_dict)
    elif method == "direct-greedy-span":
        tree = GreedySpan(seed=seed, temperature=0.3).search(inputs, output, size_dict)
    elif method.startswith("hyper:"):
        opt = ctg.HyperCompressedOptimizer(methods=[method[6:]], max_repeats=3, optlib="random", parallel=False,
                                           progbar=False, minimize="peak-compressed-%d" % chi, seed=seed)
        tree = opt.search(inputs, output, size_dict)
    elif method in ("windowed", "windowed-default"):
        t0 = GreedyCompressed(chi, seed=seed).search(inputs, output, size_dict)
        kw = {"window_size": job["window_size"]} if method == "windowed" else {}
        tree = t0.windowed_reconfigure(minimize="peak-compressed-%d" % chi, max_iterations=3, seed=seed, **kw)
    elif method == "hyper-reconf":
        opt = ctg.HyperCompressedOptimizer(methods=["greedy-compressed", "greedy-span"], max_repeats=3, optlib="random",
                                           parallel=False, progbar=False, minimize="peak-compressed-%d" % chi, seed=seed,
                                           reconf_opts={"max_iterations": 3, "window_size": job["window_size"]})
        tree = opt.search(inputs, output, size_dict)
        # what the optimizer recorded for its best trial vs the same figure recomputed from an ORDERED rebuild
        rebuilt = type(tree).from_path(inputs, output, size_dict, ssa_path=tree.get_ssa_path(),
                                       objective="peak-compressed-%d" % chi)
        st = rebuilt.compressed_contract_stats(chi, compress_late=False)
        job["_best_score"] = [int(opt.best["size"]), int(opt.best["flops"]), int(opt.best["write"])]
        job["_rebuilt_score"] = [int(st.peak_size), int(st.flops), int(st.write)]
    elif method == "twins":
        tree = None
    elif method == "array_contract_tree":
        opt = ctg.HyperCompressedOptimizer(methods=["greedy-compressed", "greedy-span"], max_repeats=3,
                                           optlib="random", parallel=False, progbar=False,
                                           minimize="peak-compressed-%d" % chi, seed=seed)
        shapes = [tuple(size_dict[ix] for ix in t) for t in inputs]
        tree = ctg.array_contract_tree(inputs, output, shapes=shapes, optimize=opt, canonicalize=False)
    else:
        raise ValueError(method)
    if method == "twins":
        return twins(job, inputs, output, size_dict)
    trav = [(sorted(p), sorted(l), sorted(r)) for p, l, r in tree.traverse()]
    extra = {}
    if method == "hyper-reconf":
        extra["hyper_best_score"] = job["_best_score"]
        extra["hyper_rebuilt_score"] = job["_rebuilt_score"]
    # ---- the tree must survive a state transfer: copy() keeps the ORDERED tree ------------------
    tc = tree.copy()
    extra["copy_same_ssa"] = [tuple(p) for p in tc.get_ssa_path()] == [tuple(p) for p in tree.get_ssa_path()]
    extra["copy_same_traverse"] = [(sorted(p), sorted(l), sorted(r)) for p, l, r in tc.traverse()] == trav
    extra["copy_same_stats"] = stats(tc) == stats(tree)
    extra["copy_ssa"] = [list(map(int, s_)) for s_ in tc.get_ssa_path()]
    # ... and rebuilding it from its own path gives the same ordered tree
    tr = type(tree).from_path(inputs, output, size_dict, ssa_path=tree.get_ssa_path()) if hasattr(type(tree), "from_path") else tree
    extra["rebuilt_same_stats"] = stats(tr) == stats(tree)
    return dict(extra, **{
        "cls": type(tree).__name__,
        "N": tree.N,
        "is_complete": bool(tree.is_complete()),
        "children": [[sorted(p), sorted(l), sorted(r)] for p, (l, r) in tree.children.items()],
        "traverse": trav,
        "ssa_surface": [list(map(int, s)) for s in tree.get_ssa_path_surface()],
        "ssa_default": [list(map(int, s)) for s in tree.get_ssa_path()],
        "inputs_kept": [list(t) for t in tree.inputs] == [list(t) for t in inputs],
    })


def main():
    warnings.simplefilter("ignore")
    jobs = json.load(sys.stdin)
    out = []
    for job in jobs:
        try:
            out.append(run_job(job))
        except Exception as e:  # reported by the parent as a failure of the finder
            out.append({"error": repr(e)})
        sys.stdout.write("")
    json.dump(out, sys.stdout)


if __name__ == "__main__":
    main()

"""C01 -- contracting with any tree gives the einsum value, in the declared axis order."""
import itertools
import sys

from vlib import gen, oracle
from vlib.core import Raw, Some, Z, coq, main, standard_proof_steps, tree_lit

PROP = "C01"


def sym_list(s):
    return [gen.IDX[c] for c in s]


def canon_by(ref, xs):
    """renumber symbols by first appearance in ref"""
    seen = []
    for c in ref:
        if c not in seen:
            seen.append(c)
    return [seen.index(c) for c in xs]


def sl_lit(tree):
    return "[" + "; ".join("mkSl %d %s" % (gen.IDX[k], coq(None if si.project is None else Some(si.project)))
                           for k, si in tree.sliced_inds.items()) + "]"


def order_lit(tree, order):
    """traversal as the model's list of (isroot, subtree)"""
    items = []
    for p, l, r in tree.traverse(order):
        items.append("(%s, %s)" % ("true" if len(p) == tree.N else "false", tree_lit(gen.tree_nested(tree, p))))
    return "[" + "; ".join(items) + "]"


def impl_recipes(tree):
    rows = []
    for p, l, r in tree.traverse():
        isroot = len(p) == tree.N
        inds = sym_list(tree.get_inds(p))
        cd = bool(tree.get_can_dot(p))
        la, ra = tree.get_tensordot_axes(p)
        perm = tree.get_tensordot_perm(p)
        eq = tree.get_einsum_eq(p)
        lhs, out = eq.split("->")
        a, b = lhs.split(",")
        rows.append((gen.nested_leaves(gen.tree_nested(tree, p)), inds, cd, (list(la), list(ra)),
                     (None if perm is None else Some(list(perm))),
                     (sym_list(a), sym_list(b), sym_list(out))))
    return rows


def impl_program(tree, order, prefer_einsum):
    from cotengra.contract import extract_contractions
    prog = []
    pre = []
    for (p, l, r, tdot, arg, perm) in extract_contractions(tree, order, prefer_einsum):
        if l is None and r is None:
            (k,) = p
            lhs, out = arg.split("->")
            pre.append((k, sym_list(lhs), sym_list(out)))
            continue
        lv = lambda nd: gen.nested_leaves(gen.tree_nested(tree, nd))
        if tdot:
            prog.append(("T", lv(p), lv(l), lv(r), list(arg[0]), list(arg[1]), None if not perm else list(perm)))
        else:
            lhs, out = arg.split("->")
            a, b = lhs.split(",")
            prog.append(("E", lv(p), lv(l), lv(r), sym_list(a), sym_list(b), sym_list(out)))
    lorder = gen.nested_leaves(gen.tree_nested(tree))
    return sorted(pre, key=lambda x: lorder.index(x[0])), prog


MODEL_PROG = r"""
Definition canon1 (term : list ix) (j : ix) : nat :=
  match find_pos j (unique term) with Some p => p | None => 0 end.
Definition obs_instr (i : instr) : nat * (list nat * (list nat * (list nat * (list nat * (list nat * (list nat * option (list nat))))))) :=
  match i with
  | IPre k term kept => (0, ([k], ([], ([], (map (canon1 term) term, (map (canon1 term) kept, ([], None)))))))
  | IEinsum p l r li ri pi => (1, (p, (l, (r, (map (canon li ri) li, (map (canon li ri) ri, (map (canon li ri) pi, None)))))))
  | ITdot p l r la ra perm => (2, (p, (l, (r, (la, (ra, ([], perm)))))))
  end.
Definition recipe_row n sl (bt : bool * tree) :=
  (leaves (snd bt), (inds n sl (fst bt) (snd bt), (can_dot n sl (fst bt) (snd bt),
   (tensordot_axes n sl (snd bt), (tensordot_perm n sl (fst bt) (snd bt), einsum_eq n sl (fst bt) (snd bt)))))).
"""

HIST_KINDS = ("inspect", "contractor", "contract", "reconf", "forest", "sort", "sort_noreset", "slice", "unslice")


def life_before_contraction(ctx, rng, ctg, np):
    """'Any tree' includes a tree with a past: one that was inspected (which caches per-node recipes),
    compiled, contracted, restructured, re-sorted, sliced and unsliced before this contraction.
    Random histories of such steps, then the contraction under every option combination, judged by the
    dense einsum oracle only (the static model describes a fresh tree)."""
    for k in range(ctx.n(90, 1500)):
        nmax = (6, 8, 10, 12)[k % 4]
        inputs, output, size_dict = gen.rand_net(rng, nmin=nmax - 2, nmax=nmax, max_ix=nmax + 2, dmax=3)
        if k % 3 == 0:
            size_dict = {ix: (1 if d == 1 else 2) for ix, d in size_dict.items()}   # uniform sizes: silent errors
        path = gen.rand_path(rng, len(inputs))
        arrays = gen.rand_arrays(rng, inputs, size_dict)
        present = sorted({ix for t in inputs for ix in t})
        removed = {}
        hist = []
        rec = {"inputs": inputs, "output": output, "size_dict": size_dict, "path": path, "history": hist,
               "arrays": [a.tolist() for a in arrays]}
        try:
            tree = ctg.ContractionTree.from_path(inputs, output, size_dict, path=path)
            # mostly: something that caches per-node recipes, then something that changes part of the tree
            plan = []
            for _ in range(rng.randint(1, 2)):
                plan.append(rng.choice(("inspect", "contractor", "contract", "slice")))
                plan.append(rng.choice(("reconf", "forest", "sort_noreset", "sort", "slice", "unslice")))
            if rng.random() < 0.3:
                plan = [rng.choice(HIST_KINDS) for _ in range(rng.randint(1, 4))]
            for kind in plan:
                if kind == "inspect":
                    for p_, _, _ in tree.traverse():
                        tree.get_einsum_eq(p_)
                        if tree.get_can_dot(p_):
                            tree.get_tensordot_axes(p_)
                            tree.get_tensordot_perm(p_)
                    hist.append(["inspect"])
                elif kind == "contractor":
                    pe = rng.random() < 0.5
                    sys.modules["cotengra.contract"].make_contractor(tree, prefer_einsum=pe)
                    hist.append(["make_contractor", pe])
                elif kind == "contract":
                    pe = rng.random() < 0.5
                    tree.contract(arrays, prefer_einsum=pe)
                    hist.append(["contract", pe])
                elif kind == "reconf":
                    kw = dict(subtree_size=rng.randint(2, 5), maxiter=rng.choice((1, 2, 3, 12)), seed=rng.randrange(2**31),
                              select=rng.choice(["max", "min", "random"]))
                    tree.subtree_reconfigure_(**kw)
                    hist.append(["subtree_reconfigure_", kw])
                elif kind == "forest":
                    kw = dict(num_trees=2, num_restarts=rng.randint(1, 2), subtree_maxiter=rng.randint(1, 4), subtree_size=rng.randint(2, 5),
                              parallel=False, seed=rng.randrange(2**31))
                    tree.subtree_reconfigure_forest_(**kw)
                    hist.append(["subtree_reconfigure_forest_", kw])
                elif kind in ("sort", "sort_noreset"):
                    kw = dict(priority=rng.choice(["flops", "size", "root", "leaves"]),
                              make_output_contig=rng.random() < 0.5, make_contracted_contig=rng.random() < 0.5,
                              reset=(kind == "sort"))
                    tree.sort_contraction_indices(**kw)
                    hist.append(["sort_contraction_indices", kw])
                elif kind == "slice":
                    cand = [ix for ix in present if ix not in removed]
                    if cand:
                        ix = rng.choice(cand)
                        v = rng.randrange(size_dict[ix]) if rng.random() < 0.25 else None
                        if v is None:
                            tree.remove_ind_(ix)
                        else:
                            tree.remove_ind_(ix, project=v)
                        removed[ix] = v
                        hist.append(["remove_ind_", ix, v])
                elif kind == "unslice":
                    if removed:
                        ix = rng.choice(sorted(removed))
                        tree.restore_ind_(ix)
                        del removed[ix]
                        hist.append(["restore_ind_", ix])
            fixed = {ix: v for ix, v in removed.items() if v is not None}
            nassign = oracle.prod(size_dict[ix] for ix in present)
            if nassign <= 20000:
                ref = oracle.dense_reference(inputs, output, size_dict, arrays, projected=fixed)
                ctx.count("past:ref_dense")
            else:
                # too many index assignments to enumerate: exact int64 numpy.einsum on the (projected) operands
                sel = [a[tuple(slice(fixed[ix], fixed[ix] + 1) if ix in fixed else slice(None) for ix in t)]
                       for a, t in zip(arrays, inputs)]
                ref = np.asarray(np.einsum(ctg.utils.inputs_output_to_eq(inputs, output), *sel, optimize="greedy")).astype(object)
                ctx.count("past:ref_numpy")
            scores = {}
            for order in (None, lambda nd: scores.setdefault(nd, rng.random())):
                for pe in (False, True):
                    impl = rng.choice(["auto", "cotengra", "autoray"])
                    got = tree.contract(arrays, order=order, prefer_einsum=pe, implementation=impl)
                    if not oracle.arrays_equal_exact(got, ref):
                        ctx.fail("a tree with a past (inspected / compiled / restructured / re-sorted / sliced before this "
                                 "contraction) contracts to something else than the dense einsum",
                                 dict(rec, removed=sorted(removed.items()), prefer_einsum=pe, implementation=impl,
                                      order="dfs" if order is None else "random-callable",
                                      got=np.asarray(got).tolist(), want=ref.tolist()))
                        raise StopIteration
        except StopIteration:
            pass
        except Exception as e:
            ctx.fail("a tree with a past raised %r" % (e,), dict(rec, removed=sorted(removed.items())))
        for h in hist:
            ctx.count("past:" + h[0])
        if len({h[0] for h in hist}) >= 2:
            ctx.count("past:mixed")
        ctx.case(("past", tuple(inputs), output, tuple(sorted(size_dict.items())), tuple(map(tuple, path)), repr(hist)),
                 nontrivial=len(hist) >= 2)


def run(ctx):
    if not standard_proof_steps(ctx, targets=["Model/Arrays.vo"]):
        return
    import cotengra as ctg
    import numpy as np

    rng = ctx.rng
    ncases = ctx.n(240, 4000)
    cases, records = [], []
    ecases, erecords = [], []
    ocases, orecords = [], []
    for ci in range(ncases):
        small = ci % 2 == 0
        inputs, output, size_dict = gen.rand_net(rng, nmin=2, nmax=5 if small else 8,
                                                 max_ix=5 if small else 8, dmax=2 if small else 3)
        path = gen.rand_path(rng, len(inputs))
        tree = ctg.ContractionTree.from_path(inputs, output, size_dict, path=path)
        feats = gen.net_features(inputs, output, size_dict)
        for f in feats:
            ctx.count(f)
        present = sorted({ix for t in inputs for ix in t})
        removed = []
        if present and rng.random() < 0.4:
            for ix in rng.sample(present, rng.randint(1, min(2, len(present)))):
                if rng.random() < 0.3:
                    v = rng.randrange(size_dict[ix])
                    tree.remove_ind_(ix, project=v)
                    removed.append((ix, v))
                else:
                    tree.remove_ind_(ix)
                    removed.append((ix, None))
            ctx.count("sliced")
        opts = {}
        if rng.random() < 0.3:
            opts = dict(priority=rng.choice(["flops", "size", "root", "leaves"]),
                        make_output_contig=rng.random() < 0.5, make_contracted_contig=rng.random() < 0.5)
        prefer_einsum = rng.random() < 0.4
        scores = {}
        order = None if rng.random() < 0.5 else (lambda nd: scores.setdefault(nd, rng.random()))
        rec = {"inputs": inputs, "output": output, "size_dict": size_dict, "path": path, "removed": removed,
               "prefer_einsum": prefer_einsum, "order": "dfs" if order is None else "random-callable",
               "sort": opts}
        nontrivial = len(inputs) >= 3 and bool(feats & {"hyper", "repeat", "out_shared", "leaf_only", "scalar"})
        ctx.case((inputs, output, tuple(sorted(size_dict.items())), path, tuple(removed), prefer_einsum,
                  order is None, tuple(sorted(opts.items()))), nontrivial=nontrivial, sample=rec if ci < 3 else None)

        netl = gen.net_lit(inputs, output, size_dict)
        sll = sl_lit(tree)
        nested = gen.tree_nested(tree)
        tl = tree_lit(nested)
        arrays = gen.rand_arrays(rng, inputs, size_dict)

        # ---------- oracle: the implementation against the dense einsum ----------
        try:
            if opts:
                tree.sort_contraction_indices(**opts)
                ctx.count("sorted_inds")
            impl = rng.choice(["auto", "cotengra", "autoray"])
            got = tree.contract(arrays, order=order, prefer_einsum=prefer_einsum, implementation=impl)
            fixed = {ix: v for ix, v in removed if v is not None}
            ref = oracle.dense_reference(inputs, output, size_dict, arrays, projected=fixed)
            if not oracle.arrays_equal_exact(got, ref):
                ctx.fail("tree.contract differs from the dense einsum (value or axis order)",
                         dict(rec, implementation=impl, got=np.asarray(got).tolist(), want=ref.tolist()))
                continue
        except Exception as e:
            ctx.fail("tree.contract raised %r" % (e,), dict(rec))
            continue
        if opts:
            # the axis orders chosen by sort_contraction_indices must be admissible (verified
            # checker, evaluated inside Coq) and the model's program with those orders must
            # reproduce the implementation's result
            try:
                if small and len(inputs) >= 2:
                    tbl = []
                    for p_, l_, r_ in tree.traverse():
                        if len(p_) != tree.N:
                            tbl.append((gen.nested_leaves(gen.tree_nested(tree, p_)), sym_list(tree.get_inds(p_))))
                    i = rng.randrange(tree.nslices) if tree.sliced_inds else 0
                    key = tree.slice_key(i) if tree.sliced_inds else {}
                    gots = tree.contract_slice(arrays, i, prefer_einsum=True) if tree.sliced_inds else \
                        tree.contract_core(arrays, prefer_einsum=True)
                    gots = np.asarray(gots)
                    out_ix = [ix for ix in output if ix not in tree.sliced_inds]
                    pts = "[" + "; ".join("mk_pt %s %s" % (coq(list(a.shape)), coq([Z(int(v)) for v in a.reshape(-1)]))
                                           for a in arrays) + "]"
                    e0 = "(env_of (fun _ => 0) %s %s)" % (coq([gen.IDX[k] for k in key]), coq([int(v) for v in key.values()]))
                    lhsg = ("(admissible_b {n} {s} (io_tbl {tb}) {tl_} && admissible_b {n} {s} (io_tbl {tb}) {tr_}, flatten_pt {sh} (run_root_g {n} {s} (arr_of {a}) {e} "
                            "(io_tbl {tb}) {t}))").format(n=netl, s=sll, tb=coq(tbl), t=tl, a=pts, e=e0,
                                                        tl_=tree_lit(nested[0]), tr_=tree_lit(nested[1]),
                                                        sh=coq([size_dict[ix] for ix in out_ix]))
                    rhsg = coq((True, [Z(int(v)) for v in gots.reshape(-1)]))
                    ecases.append(("sorted%d" % ci, lhsg, rhsg))
                    erecords.append(dict(rec, slice=i, arrays=[a.tolist() for a in arrays], interpreter="run_root_g",
                                         axis_orders=tbl))
                    ctx.count("sorted_exec")
            except Exception as e:
                ctx.fail("contract after sort_contraction_indices raised %r" % (e,), dict(rec))
                continue
            # the static model below describes the default index order
            tree.reset_contraction_indices()

        # ---------- correspondence 1: recipes and program (default index order) ----------
        try:
            rows = impl_recipes(tree)
            pre, prog = impl_program(tree, order, prefer_einsum)
        except Exception as e:
            ctx.fail("recipe extraction raised %r" % (e,), dict(rec))
            continue
        lhs = "(map (recipe_row {n} {s}) (traverse_dfs {t}), map obs_instr (program {n} {s} {pe} {t} {o}))".format(
            n=netl, s=sll, t=tl, pe="true" if prefer_einsum else "false", o=order_lit(tree, order))
        rrows = [(lv, inds, cd, ax, perm, eq) for (lv, inds, cd, ax, perm, eq) in rows]
        obs = []
        for (k, lhs_s, out_s) in pre:
            obs.append((0, [k], [], [], canon_by(lhs_s, lhs_s), canon_by(lhs_s, out_s), [], None))
        for it in prog:
            if it[0] == "E":
                _, p, l, r, a, b, o = it
                obs.append((1, p, l, r, a, b, o, None))
            else:
                _, p, l, r, la, ra, perm = it
                obs.append((2, p, l, r, la, ra, [], None if perm is None else Some(perm)))
        # model lists pre-steps in leaf (tree) order; sort both sides the same way in the model term
        rhs = coq((rrows, obs))
        lhs = lhs.replace("map obs_instr (program", "sort_pre (map obs_instr (program").replace("{o}))", "{o})))") \
            if False else lhs
        cases.append(("recipes%d" % ci, lhs, rhs))
        records.append(rec)
        # the traversal order actually produced is a children-first enumeration (verified checker
        # valid_order_b, Proofs/ExecOrderFacts.v): the premise of the linear-execution theorem
        if len(inputs) >= 2:
            ocases.append(("order%d" % ci, "valid_order_b %s %s" % (tl, order_lit(tree, order)), "true"))
            orecords.append(rec)
        if prog and any(i[0] == "T" for i in prog):
            ctx.count("tensordot_steps")
        if pre:
            ctx.count("preprocessing")

        # ---------- correspondence 2: positional interpreter on the same integer arrays ----------
        if small and len(ecases) < ctx.n(60, 600):
            try:
                i = rng.randrange(tree.nslices) if tree.sliced_inds else 0
                key = tree.slice_key(i) if tree.sliced_inds else {}
                got = tree.contract_slice(arrays, i, prefer_einsum=True) if tree.sliced_inds else \
                    tree.contract_core(arrays, prefer_einsum=True)
                got = np.asarray(got)
                out_ix = [ix for ix in output if ix not in tree.sliced_inds]
                shape = [size_dict[ix] for ix in out_ix]
                pts = "[" + "; ".join("mk_pt %s %s" % (coq(list(a.shape)), coq([Z(int(v)) for v in a.reshape(-1)]))
                                       for a in arrays) + "]"
                e0 = "(env_of (fun _ => 0) %s %s)" % (coq([gen.IDX[k] for k in key]), coq([int(v) for v in key.values()]))
                lhs2 = "flatten_pt %s (run_root %s %s (arr_of %s) %s %s)" % (coq(shape), netl, sll, pts, e0, tl)
                rhs2 = coq([Z(int(v)) for v in got.reshape(-1)])
                ecases.append(("exec%d" % ci, lhs2, rhs2))
                erecords.append(dict(rec, slice=i, arrays=[a.tolist() for a in arrays]))
                # the full interpreter on the program in the requested order, tensordot path included
                got3 = tree.contract_slice(arrays, i, prefer_einsum=prefer_einsum, order=order) if tree.sliced_inds \
                    else tree.contract_core(arrays, prefer_einsum=prefer_einsum, order=order)
                got3 = np.asarray(got3)
                lhs3 = ("let r := exec_program {n} {s} (arr_of {a}) {e} (program {n} {s} {pe} {t} {o}) {t} in "
                        "(fst r, flatten_pt (fst r) (snd r))").format(
                    n=netl, s=sll, a=pts, e=e0, pe="true" if prefer_einsum else "false", t=tl, o=order_lit(tree, order))
                rhs3 = coq((list(got3.shape), [Z(int(v)) for v in got3.reshape(-1)]))
                ecases.append(("execprog%d" % ci, lhs3, rhs3))
                erecords.append(dict(rec, slice=i, arrays=[a.tolist() for a in arrays], interpreter="exec_program"))
            except Exception as e:
                ctx.fail("contract_slice raised %r" % (e,), dict(rec))

    # ---------- oracle on LARGE networks (more than 52 distinct indices: labels beyond a-zA-Z) ----------
    # matrix chains (optionally with a hyper index carried by every tensor and the output), random
    # trees, all option combinations; reference = exact integer matrix products.  (No Coq case: the
    # dense oracle and the case literals are only used for small networks.)
    for k in range(ctx.n(8, 60)):
        nmat = rng.randint(54, 60)
        hyper = rng.random() < 0.5
        sym = [ctg.get_symbol(i) for i in range(nmat + 2)]
        h = sym[nmat + 1]
        inputs = [(sym[i], sym[i + 1]) + ((h,) if hyper else ()) for i in range(nmat)]
        output = (sym[0], sym[nmat]) + ((h,) if hyper else ())
        size_dict = {c: 2 for c in sym}
        arrays = [np.array([rng.choice([-1, 0, 1, 1]) for _ in range(8 if hyper else 4)], dtype=np.int64).reshape(
            (2, 2, 2) if hyper else (2, 2)) for _ in range(nmat)]
        # random tree that only merges neighbouring segments (keeps intermediates small):
        # an ssa path over neighbouring segments
        live = [(i, i) for i in range(nmat)]       # (ssa id, position) sorted by position
        nxt = nmat
        ssa_path = []
        while len(live) > 1:
            i = rng.randrange(len(live) - 1)
            a, b = live[i], live[i + 1]
            ssa_path.append((a[0], b[0]))
            live[i:i + 2] = [(nxt, a[1])]
            nxt += 1
        try:
            tree = ctg.ContractionTree.from_path(inputs, output, size_dict, ssa_path=ssa_path)
            pe = rng.random() < 0.6
            impl = rng.choice(["auto", "cotengra", "autoray"])
            got = np.asarray(tree.contract(arrays, prefer_einsum=pe, implementation=impl))
            if hyper:
                ref = np.zeros((2, 2, 2), dtype=object)
                for hv in range(2):
                    m = np.eye(2, dtype=object)
                    for a in arrays:
                        m = m.dot(a[:, :, hv].astype(object))
                    ref[:, :, hv] = m
            else:
                ref = np.eye(2, dtype=object)
                for a in arrays:
                    ref = ref.dot(a.astype(object))
            ctx.count("large_chain")
            ctx.case(("chain", nmat, hyper, tuple(ssa_path), pe, impl), nontrivial=True)
            if not oracle.arrays_equal_exact(got, ref):
                ctx.fail("tree.contract on a network with more than 52 indices differs from the exact matrix-chain product",
                         {"chain_length": nmat, "hyper_index": hyper, "ssa_path": ssa_path, "prefer_einsum": pe,
                          "implementation": impl, "arrays": [a.tolist() for a in arrays],
                          "got": got.tolist(), "want": ref.tolist()})
        except Exception as e:
            ctx.fail("tree.contract on a network with more than 52 indices raised %r" % (e,),
                     {"chain_length": nmat, "hyper_index": hyper, "ssa_path": ssa_path, "prefer_einsum": pe,
                      "implementation": impl})

    life_before_contraction(ctx, rng, ctg, np)

    # pre-steps: the real program lists them in dict order of tree.preprocessing; compare as sorted
    prelude = MODEL_PROG + r"""
Definition is_pre (o : nat * (list nat * (list nat * (list nat * (list nat * (list nat * (list nat * option (list nat)))))))) := Nat.eqb (fst o) 0.
"""
    failing = ctx.coq_cases("c01rec", ["Net", "Einsum", "Program"], cases, prelude=prelude, chunk=120)
    for idx, label, val in failing:
        rec = dict(records[idx]) if idx < len(records) else {}
        rec["model_value"] = val
        rec["impl_value"] = cases[idx][2]
        rec["correspondence"] = "Model/Program.v recipes/program vs get_inds/get_can_dot/get_tensordot_*/get_einsum_eq/extract_contractions"
        ctx.fail("model and implementation disagree on the contraction recipes/program", rec, found_input=False)
    failing = ctx.coq_cases("c01order", ["Net", "Einsum", "Program", "ExecOrderFacts"], ocases, chunk=120)
    for idx, label, val in failing:
        rec = dict(orecords[idx]) if idx < len(orecords) else {}
        rec["model_value"] = val
        ctx.fail("the traversal order produced by tree.traverse is not a children-first enumeration of the tree "
                 "(parents before children, or a node missing/duplicated)", rec, found_input=True)
    failing = ctx.coq_cases("c01exec", ["Net", "Einsum", "Program", "Arrays"], ecases, chunk=20, timeout=900)
    for idx, label, val in failing:
        rec = dict(erecords[idx]) if idx < len(erecords) else {}
        rec["model_value"] = val
        rec["correspondence"] = "Model/Program.v run_root (positional einsum interpreter) vs tree.contract_core on the same integer arrays"
        ctx.fail("positional interpreter of the model and the implementation disagree on a result", rec, found_input=False)
    ctx.coverage["rule"] = ("random networks (2..8 tensors; hyper / repeated / scalar / disconnected / size-1 / shared-output features), "
                            "uniform random paths, optional removed indices, order in {dfs, random callable}, prefer_einsum, "
                            "implementation in {auto, cotengra, autoray}, optional sort_contraction_indices; trees with a past "
                            "(random histories of inspect / make_contractor / contract / subtree_reconfigure(_forest) / "
                            "sort_contraction_indices(reset or not) / remove_ind / restore_ind, then contracted under all "
                            "order x prefer_einsum combinations); "
                            "non-trivial = >=3 tensors with a perverse feature; distinct by full configuration")
    ctx.assumptions = ["numpy kernels (einsum, tensordot, transpose) are modelled by the positional semantics of Model/Program.v, "
                       "validated each run on integer arrays; they are not verified"]


if __name__ == "__main__":
    main(PROP, run)

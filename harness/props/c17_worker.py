"""c17_worker.py -- runs seeded cotengra APIs in THIS (fresh) interpreter.

usage: python c17_worker.py jobs.json out.json
  jobs.json = {"repo": ..., "mode": {...}, "jobs": [{"id", "api", "variant", "net", "seed"}, ...]}
Before every job the global `random` / `numpy.random` generators are re-seeded from
os.urandom and advanced by a random number of draws, and (mode.history) a random decoy
call that itself uses randomness is made, so that "what was called before" differs between
interpreters.  The job order is shuffled too (mode.shuffle).  While a job runs, every use of
the module-level generators from inside cotengra is recorded with the cotengra call stack.
The canonical result of each job is written to out.json.
"""
import json
import os
import signal
import sys
import traceback

JOBS = json.load(open(sys.argv[1]))
REPO = JOBS["repo"]
sys.path.insert(0, REPO)

import random  # noqa: E402

import numpy as np  # noqa: E402

_orig_seed = random.seed
_orig_random = random.random
_np_seed = np.random.seed
_np_rand = np.random.rand

import cotengra as ctg  # noqa: E402
from cotengra import core as ccore  # noqa: E402
from cotengra import utils as cutils  # noqa: E402

COT = os.path.join(os.path.realpath(REPO), "cotengra") + os.sep

# ---------------------------------------------------------------------------
# tracing of the global generators
TRACE = {"on": False, "hits": []}
RANDOM_FUNCS = ["random", "uniform", "triangular", "randint", "choice", "randrange", "sample", "shuffle",
                "choices", "normalvariate", "lognormvariate", "expovariate", "vonmisesvariate",
                "gammavariate", "gauss", "betavariate", "paretovariate", "weibullvariate", "getrandbits",
                "randbytes", "seed", "getstate", "setstate", "binomialvariate"]
NP_FUNCS = ["seed", "rand", "randn", "randint", "random", "random_sample", "choice", "shuffle",
            "permutation", "normal", "uniform", "bytes", "get_state", "set_state", "exponential"]


def cot_stack():
    out = []
    f = sys._getframe(2)
    while f is not None:
        fn = os.path.realpath(f.f_code.co_filename)
        if fn.startswith(COT):
            mod = fn[len(COT):-3].replace(os.sep, ".")
            q = getattr(f.f_code, "co_qualname", f.f_code.co_name)
            q = q.split(".<locals>")[0]
            out.append(mod + "." + q)
        f = f.f_back
    return out


def wrap(modname, mod, name):
    orig = getattr(mod, name, None)
    if orig is None:
        return

    def w(*a, **k):
        if TRACE["on"]:
            st = cot_stack()
            if st:
                TRACE["hits"].append({"fn": modname + "." + name, "stack": st})
        return orig(*a, **k)
    w.__name__ = name
    setattr(mod, name, w)


for _n in RANDOM_FUNCS:
    wrap("random", random, _n)
for _n in NP_FUNCS:
    wrap("numpy.random", np.random, _n)
_orig_default_rng = np.random.default_rng


def _default_rng(seed=None, *a, **k):
    if TRACE["on"] and seed is None:
        st = cot_stack()
        if st:
            TRACE["hits"].append({"fn": "numpy.random.default_rng(None)", "stack": st})
    return _orig_default_rng(seed, *a, **k)


np.random.default_rng = _default_rng


# ---------------------------------------------------------------------------
RAW = {"on": False}


def canon(x):
    """JSON-able canonical form; floats exactly (hex), sets sorted, arrays as bytes"""
    if RAW["on"]:
        return x
    return canon_real(x)


def canon_real(x):
    if isinstance(x, bool) or x is None or isinstance(x, (int, str)):
        return x
    if isinstance(x, float):
        return x.hex()
    if isinstance(x, (np.floating,)):
        return float(x).hex()
    if isinstance(x, (np.integer,)):
        return int(x)
    if isinstance(x, np.ndarray):
        return {"shape": list(x.shape), "dtype": str(x.dtype), "bytes": x.tobytes().hex()}
    if isinstance(x, (frozenset, set)):
        return {"set": sorted((canon_real(v) for v in x), key=repr)}
    if isinstance(x, dict):
        return {"dict": [[canon_real(k), canon_real(v)] for k, v in x.items()]}   # insertion order is observable
    if isinstance(x, (list, tuple)):
        return [canon_real(v) for v in x]
    return repr(x)


def tree_obs(tree):
    if RAW["on"]:
        return tree
    return {"path": canon(tree.get_path()), "sliced": canon(tuple(tree.sliced_inds))}


def base_tree(net):
    """a deterministic starting tree (no randomness involved)"""
    inputs, output, size_dict = net["inputs"], net["output"], net["size_dict"]
    n = len(inputs)
    path = [(0, 1)] * (n - 1) if n > 1 else []
    # a fixed, unbalanced but not trivial path: contract (0, n-1-k) alternately
    path = []
    rem = n
    k = 0
    while rem > 1:
        path.append((0, rem - 1) if k % 2 else (0, min(1, rem - 1)))
        rem -= 1
        k += 1
    return ctg.ContractionTree.from_path(inputs, output, size_dict, path=path)


def det_partition(inputs, output, size_dict, weight_nodes="const", weight_edges="log", parts=2, seed=None, **kw):
    """a partition function without randomness (for the generic PartitionTreeBuilder)"""
    n = len(inputs)
    return [min(parts - 1, (i * parts) // max(n, 1)) for i in range(n)]


SPACE = {
    "m1": {"a": {"type": "BOOL"}, "b": {"type": "INT", "min": 1, "max": 9},
           "c": {"type": "STRING", "options": ["x", "y", "z"]}, "d": {"type": "FLOAT", "min": 0.0, "max": 1.0},
           "e": {"type": "FLOAT_EXP", "min": 0.01, "max": 10.0}},
    "m2": {"a": {"type": "INT", "min": -5, "max": 5}},
}


def run_api(api, variant, net, seed):
    inputs = [tuple(t) for t in net["inputs"]] if net else None
    output = tuple(net["output"]) if net else None
    size_dict = dict(net["size_dict"]) if net else None
    if net:
        net = {"inputs": inputs, "output": output, "size_dict": size_dict}
    short = api.split(".")[-1]
    # ---- core
    if api == "core.jitter_dict":
        return canon(ccore.jitter_dict(size_dict, 0.5, seed))
    if api == "core.ContractionTree.get_subtree":
        t = base_tree(net)
        return canon(t.get_subtree(t.root, 4, search="random", seed=seed))
    if api == "core.ContractionTree.slice":
        t = base_tree(net)
        return tree_obs(t.slice(target_slices=4, temperature=1.0, max_repeats=4, seed=seed))
    if api == "core.ContractionTree.subtree_reconfigure":
        t = base_tree(net)
        kw = {"default": {}, "select_random": {"select": "random"},
              "search_random": {"subtree_search": "random"}}[variant]
        return tree_obs(t.subtree_reconfigure(subtree_size=4, maxiter=6, seed=seed, **kw))
    if api == "core.ContractionTree.subtree_reconfigure_forest":
        t = base_tree(net)
        kw = {"default": {}, "select_max_bfs": {"subtree_search": ("bfs",), "subtree_select": ("max", "min")}}[variant]
        return tree_obs(t.subtree_reconfigure_forest(num_trees=3, num_restarts=2, subtree_size=4, subtree_maxiter=4,
                                                     parallel=False, seed=seed, **kw))
    if api == "core.ContractionTree.unslice_rand":
        t = base_tree(net)
        inds = [ix for ix in dict.fromkeys(ix for term in inputs for ix in term)][:3]
        for ix in inds:
            t.remove_ind_(ix)
        return tree_obs(t.unslice_rand(seed=seed))
    if api == "core.ContractionTree.windowed_reconfigure":
        t = base_tree(net)
        return tree_obs(t.windowed_reconfigure(minimize="peak-compressed-4", window_size=4, max_iterations=5,
                                               max_window_tries=20, score_temperature=0.5, seed=seed))
    if api in ("core.ContractionTree.simulated_anneal", "pathfinders.path_simulated_annealing.simulated_anneal_tree"):
        t = base_tree(net)
        kw = {"default": {}, "sliced": {"target_size": 2 ** 6, "slice_mode": "drift"}}[variant]
        if api.startswith("core."):
            r = t.simulated_anneal(tsteps=3, numiter=4, seed=seed, **kw)
        else:
            from cotengra.pathfinders.path_simulated_annealing import simulated_anneal_tree
            r = simulated_anneal_tree(t, tsteps=3, numiter=4, seed=seed, **kw)
        return tree_obs(r)
    if api in ("core.ContractionTree.parallel_temper", "pathfinders.path_simulated_annealing.parallel_temper_tree"):
        t = base_tree(net)
        if api.startswith("core."):
            r = t.parallel_temper(tsteps=3, numiter=3, num_trees=3, max_time=None, parallel=False, seed=seed)
        else:
            from cotengra.pathfinders.path_simulated_annealing import parallel_temper_tree
            r = parallel_temper_tree(t, tsteps=3, numiter=3, num_trees=3, max_time=None, parallel=False, seed=seed)
        return tree_obs(r)
    if api == "core.ContractionTreeCompressed.simulated_anneal":
        t = ccore.ContractionTreeCompressed.from_path(inputs, output, size_dict, path=base_tree(net).get_path())
        r = t.simulated_anneal(minimize="peak-compressed-4", tsteps=3, numiter=4, seed=seed)
        return tree_obs(r)
    if api == "core.PartitionTreeBuilder.build_agglom":
        b = ccore.PartitionTreeBuilder(det_partition)
        return tree_obs(b.build_agglom(inputs, output, size_dict, random_strength=0.3, groupsize=3, seed=seed))
    if api == "core.PartitionTreeBuilder.build_divide":
        b = ccore.PartitionTreeBuilder(det_partition)
        return tree_obs(b.build_divide(inputs, output, size_dict, random_strength=0.3, cutoff=3, seed=seed))
    # ---- hyper
    if api == "hyperoptimizers.hyper.ComputeScore":
        from cotengra.hyperoptimizers.hyper import ComputeScore
        cs = ComputeScore(lambda **k: {"flops": 100.0, "score": 0.0}, lambda trial: 3.5, score_smudge=0.1, seed=seed)
        return canon([cs()["score"] for _ in range(3)])
    if api == "hyperoptimizers.hyper_cmaes.LCBOptimizer":
        from cotengra.hyperoptimizers.hyper_cmaes import LCBOptimizer
        o = LCBOptimizer(["a", "b", "c"], seed=seed)
        out = []
        for k in range(8):
            x = o.ask()
            out.append(x)
            o.tell(x, float((k * 7) % 5))
        return out
    if api == "hyperoptimizers.hyper_random.random_init_optimizers":
        from cotengra.hyperoptimizers import hyper_random as hr

        class Obj:
            pass
        o = Obj()
        hr.random_init_optimizers(o, ["m1", "m2"], SPACE, seed=seed)
        return canon([hr.random_get_setting(o) for _ in range(4)])
    if api == "hyperoptimizers.hyper_random.RandomSampler":
        from cotengra.hyperoptimizers.hyper_random import RandomSampler
        s = RandomSampler(["m1", "m2"], SPACE, seed=seed)
        return canon([s.ask() for _ in range(4)])
    if api == "hyperoptimizers.hyper_random.RandomSpace":
        from cotengra.hyperoptimizers.hyper_random import RandomSpace
        s = RandomSpace(SPACE["m1"], seed=seed)
        return canon([s.sample() for _ in range(3)])
    # ---- path_basic
    if api == "pathfinders.path_basic.optimize_random_greedy_track_flops":
        from cotengra.pathfinders.path_basic import optimize_random_greedy_track_flops
        return canon(optimize_random_greedy_track_flops(inputs, output, size_dict, ntrials=4, costmod=(0.1, 4.0),
                                                        temperature=(0.001, 1.0), seed=seed))
    if api == "pathfinders.path_basic.ContractionProcessor.optimize_greedy":
        from cotengra.pathfinders.path_basic import ContractionProcessor
        cp = ContractionProcessor(inputs, output, size_dict)
        cp.optimize_greedy(costmod=1.0, temperature=0.7, seed=seed)
        return canon(cp.ssa_path)
    if api == "pathfinders.path_basic.RandomGreedyOptimizer":
        o = ctg.RandomGreedyOptimizer(max_repeats=6, seed=seed, parallel=False, accel=False)
        a = o(inputs, output, size_dict)
        b = o.search(inputs, output, size_dict).get_path()
        return canon([a, b])
    if api == "pathfinders.path_compressed.WindowedOptimizer":
        from cotengra.pathfinders.path_compressed import WindowedOptimizer
        wo = WindowedOptimizer(inputs, output, size_dict, "peak-compressed-4", base_tree(net).get_ssa_path(), seed=seed)
        if variant == "anneal":
            wo.simulated_anneal(tsteps=3, numiter=4)
        else:
            wo.refine(window_size=4, max_iterations=5, max_window_tries=20, score_temperature=0.5)
        return canon(wo.get_ssa_path())
    if api == "pathfinders.path_compressed_greedy.GreedyCompressed":
        from cotengra.pathfinders.path_compressed_greedy import GreedyCompressed
        g = GreedyCompressed(4, temperature=0.5, seed=seed)
        return canon([g.get_ssa_path(inputs, output, size_dict), g(inputs, output, size_dict)])
    if api == "pathfinders.path_compressed_greedy.GreedySpan":
        from cotengra.pathfinders.path_compressed_greedy import GreedySpan
        g = GreedySpan(temperature=0.5, seed=seed)
        return canon([g.get_ssa_path(inputs, output, size_dict), g(inputs, output, size_dict)])
    # ---- partition builders
    if api == "pathfinders.path_kahypar.kahypar_subgraph_find_membership":
        from cotengra.pathfinders.path_kahypar import kahypar_subgraph_find_membership
        return canon(kahypar_subgraph_find_membership(inputs, output, size_dict, parts=2, seed=seed))
    if api == "pathfinders.path_labels.labels_partition":
        from cotengra.pathfinders.path_labels import labels_partition
        return canon(labels_partition(inputs, output, size_dict, parts=2, seed=seed))
    if api.startswith("pathfinders.path_kahypar.kahypar_to_tree.") or api.startswith("pathfinders.path_labels.labels_to_tree."):
        if "kahypar" in api:
            from cotengra.pathfinders.path_kahypar import kahypar_to_tree as b
        else:
            from cotengra.pathfinders.path_labels import labels_to_tree as b
        if short == "build_agglom":
            return tree_obs(b.build_agglom(inputs, output, size_dict, random_strength=0.3, groupsize=3, seed=seed))
        return tree_obs(b.build_divide(inputs, output, size_dict, random_strength=0.3, cutoff=3, seed=seed))
    if api == "pathfinders.path_random.RandomOptimizer":
        o = ctg.RandomOptimizer(seed=seed)
        return canon([o(inputs, output, size_dict), o.search(inputs, output, size_dict).get_path()])
    if api == "slicer.SliceFinder":
        t = base_tree(net)
        sf = ctg.SliceFinder(t, target_slices=4, temperature=1.0, seed=seed)
        ix_sl, cost = sf.search(4)
        return canon([frozenset(ix_sl), sorted(map(sorted, sf.costs))])
    # ---- generators
    if api == "utils.lattice_equation":
        return canon(cutils.lattice_equation([3, 2], cyclic=True, d_min=2, d_max=5, seed=seed))
    if api == "utils.make_arrays_from_eq":
        return canon(cutils.make_arrays_from_eq("ab,bcd,de->ace", d_max=4, seed=seed))
    if api == "utils.make_arrays_from_inputs":
        return canon(cutils.make_arrays_from_inputs(inputs[:3], size_dict, seed=seed, dtype="complex128"))
    if api == "utils.make_rand_size_dict_from_inputs":
        return canon(cutils.make_rand_size_dict_from_inputs(inputs, d_min=2, d_max=9, seed=seed))
    if api == "utils.networkx_graph_to_equation":
        import networkx as nx
        return canon(cutils.networkx_graph_to_equation(nx.cycle_graph(6), d_min=2, d_max=7, seed=seed))
    if api == "utils.perverse_equation":
        return canon(cutils.perverse_equation(7, num_indices=5, seed=seed))
    if api == "utils.rand_equation":
        return canon(cutils.rand_equation(8, 3, n_out=2, n_hyper_in=1, n_hyper_out=1, d_max=4, seed=seed))
    if api == "utils.rand_tree":
        return tree_obs(cutils.rand_tree(8, 3, n_out=1, seed=seed, optimize="greedy"))
    if api == "utils.randreg_equation":
        return canon(cutils.randreg_equation(8, 3, d_max=5, seed=seed))
    if api == "utils.tree_equation":
        return canon(cutils.tree_equation(7, d_max=5, n_outer=2, seed=seed))
    if api == "utils.GumbelBatchedGenerator":
        g = cutils.GumbelBatchedGenerator(seed)
        return canon([g() for _ in range(3)])
    raise KeyError("no runner for API %s" % api)


# ---------------------------------------------------------------------------
# "regardless of what was called before": the seeded NON-inplace operations on trees, called twice (and once
# more after different seeded calls) on the SAME object, on a fresh tree and on a tree with history, and once
# on an independent rebuild of the same tree state
TREE_APIS = {
    "core.ContractionTree.subtree_reconfigure": ["default", "select_random", "search_random"],
    "core.ContractionTree.subtree_reconfigure_forest": ["default", "select_max_bfs"],
    "core.ContractionTree.slice": ["default"],
    "core.ContractionTree.unslice_rand": ["default"],
    "core.ContractionTree.simulated_anneal": ["default", "sliced"],
    "pathfinders.path_simulated_annealing.simulated_anneal_tree": ["default"],
    "core.ContractionTree.parallel_temper": ["default"],
    "pathfinders.path_simulated_annealing.parallel_temper_tree": ["default"],
    "core.ContractionTree.get_subtree": ["default"],
    "core.ContractionTree.windowed_reconfigure": ["default"],
    "core.ContractionTreeCompressed.simulated_anneal": ["default"],
}
COMPRESSED_APIS = ("core.ContractionTree.windowed_reconfigure", "core.ContractionTreeCompressed.simulated_anneal")


def tree_obs_full(tree):
    d = tree_obs(tree)
    try:
        st = tree.contract_stats()
        d["costs"] = canon([st["flops"], st["write"], st["size"]])
    except Exception as e:
        d["costs"] = "raised %s" % type(e).__name__
    return d


def build_state(api, net, hist):
    """a tree in a given state, built from scratch without any hidden randomness: a fixed path, then
    (history) one short in-place seeded step of each requested kind"""
    inputs, output, size_dict = net["inputs"], net["output"], net["size_dict"]
    t = base_tree(net)
    if api == "core.ContractionTreeCompressed.simulated_anneal":
        t = ccore.ContractionTreeCompressed.from_path(inputs, output, size_dict, path=t.get_path())
    if "slice" in hist and api not in COMPRESSED_APIS:
        t.slice_(target_slices=2, max_repeats=2, seed=3)
    if api == "core.ContractionTree.unslice_rand":
        for ix in [ix for ix in dict.fromkeys(ix for term in inputs for ix in term)][:3]:
            if ix not in t.sliced_inds:
                t.remove_ind_(ix)
    if "reconf" in hist and api not in COMPRESSED_APIS:
        t.subtree_reconfigure_(subtree_size=3, maxiter=2, seed=11)
        t.subtree_reconfigure_(subtree_size=4, maxiter=1, select="random", seed=12)
    if "anneal" in hist and api not in COMPRESSED_APIS:
        t.simulated_anneal_(tsteps=2, numiter=2, seed=13)
    return t


def tree_call(api, variant, t, seed):
    """one NON-inplace seeded call on the object t"""
    if api == "core.ContractionTree.get_subtree":
        return canon(t.get_subtree(t.root, 4, search="random", seed=seed))
    if api == "core.ContractionTree.slice":
        return tree_obs_full(t.slice(target_slices=4, temperature=1.0, max_repeats=4, seed=seed))
    if api == "core.ContractionTree.subtree_reconfigure":
        kw = {"default": {}, "select_random": {"select": "random"}, "search_random": {"subtree_search": "random"}}[variant]
        return tree_obs_full(t.subtree_reconfigure(subtree_size=4, maxiter=6, seed=seed, **kw))
    if api == "core.ContractionTree.subtree_reconfigure_forest":
        kw = {"default": {}, "select_max_bfs": {"subtree_search": ("bfs",), "subtree_select": ("max", "min")}}[variant]
        return tree_obs_full(t.subtree_reconfigure_forest(num_trees=3, num_restarts=2, subtree_size=4, subtree_maxiter=4,
                                                          parallel=False, seed=seed, **kw))
    if api == "core.ContractionTree.unslice_rand":
        return tree_obs_full(t.unslice_rand(seed=seed))
    if api == "core.ContractionTree.windowed_reconfigure":
        return tree_obs(t.windowed_reconfigure(minimize="peak-compressed-4", window_size=4, max_iterations=5,
                                               max_window_tries=20, score_temperature=0.5, seed=seed))
    if api == "core.ContractionTreeCompressed.simulated_anneal":
        return tree_obs(t.simulated_anneal(minimize="peak-compressed-4", tsteps=3, numiter=4, seed=seed))
    if api in ("core.ContractionTree.simulated_anneal", "pathfinders.path_simulated_annealing.simulated_anneal_tree"):
        kw = {"default": {}, "sliced": {"target_size": 2 ** 6, "slice_mode": "drift"}}[variant]
        if api.startswith("core."):
            return tree_obs_full(t.simulated_anneal(tsteps=3, numiter=4, seed=seed, **kw))
        from cotengra.pathfinders.path_simulated_annealing import simulated_anneal_tree
        return tree_obs_full(simulated_anneal_tree(t, tsteps=3, numiter=4, seed=seed, **kw))
    if api in ("core.ContractionTree.parallel_temper", "pathfinders.path_simulated_annealing.parallel_temper_tree"):
        if api.startswith("core."):
            return tree_obs_full(t.parallel_temper(tsteps=3, numiter=3, num_trees=3, max_time=None, parallel=False, seed=seed))
        from cotengra.pathfinders.path_simulated_annealing import parallel_temper_tree
        return tree_obs_full(parallel_temper_tree(t, tsteps=3, numiter=3, num_trees=3, max_time=None, parallel=False, seed=seed))
    raise KeyError("no tree runner for %s" % api)


def state_obs(t):
    """what a NON-inplace call must leave alone: path, sliced indices and the reconfiguration record"""
    d = tree_obs(t)
    rec = getattr(t, "already_optimized", None)
    if isinstance(rec, dict):
        d["already_optimized"] = sorted(canon(sorted(sorted(x) for x in v)) for v in rec.values())
    return d


# ---------------------------------------------------------------------------
# seeded operations that accept a pool: the result must not depend on the ORDER in which the pool runs the tasks.
# Two deterministic in-line executors (no threads): tasks are queued on submit and all pending ones run, in FIFO
# resp. LIFO order, as soon as any result / done() is asked for.
class _SchedFuture:
    def __init__(self, ex, fn, args, kwargs):
        self._ex = ex
        self._task = (fn, args, kwargs)
        self._set = False
        self._res = None
        self._exc = None

    def _run(self):
        fn, args, kwargs = self._task
        self._ex.running_with = max(self._ex.running_with, len(self._ex.pending))
        self._ex.pending.remove(self)
        try:
            self._res = fn(*args, **kwargs)
        except BaseException as e:     # noqa: BLE001
            self._exc = e
        self._set = True
        self._ex.completed.append(self)

    def result(self, timeout=None):
        # blocking: everything the schedule puts before this task completes first
        while not self._set:
            self._ex.next_task()._run()
        if self._exc is not None:
            raise self._exc
        return self._res

    def done(self):
        """True only once every task that the schedule puts before this one has completed; the task that is next in
        the schedule runs inside this call"""
        if self._set:
            return True
        ex = self._ex
        if ex.next_task() is self:
            self._run()
            ex.starved = 0
            return True
        ex.starved += 1
        if ex.starved > 10000:          # a caller that never polls the next task must not hang
            ex.next_task()._run()
            ex.starved = 0
        return self._set

    def cancel(self):
        return False


class OrderedExecutor:
    """a deterministic in-line pool (no threads): tasks are queued on submit; they COMPLETE in a controlled order --
    submission order (lifo=False) or reverse submission order among the pending ones (lifo=True) -- both for
    callers that block on result() and for callers that poll done() / iterate in completion order"""

    def __init__(self, lifo, workers=2):
        self.lifo = lifo
        self._max_workers = workers
        self.pending = []
        self.completed = []
        self.running_with = 0
        self.starved = 0

    def submit(self, fn, *args, **kwargs):
        fut = _SchedFuture(self, fn, args, kwargs)
        self.pending.append(fut)
        return fut

    def next_task(self):
        return self.pending[-1] if self.lifo else self.pending[0]

    def shutdown(self, *a, **k):
        while self.pending:
            self.next_task()._run()

    @property
    def batches(self):
        return [self.running_with]


POOL_APIS = {
    "core.ContractionTree.parallel_temper": ["default"],
    "pathfinders.path_simulated_annealing.parallel_temper_tree": ["default"],
    "core.ContractionTree.subtree_reconfigure_forest": ["default", "select_max_bfs"],
    "pathfinders.path_basic.RandomGreedyOptimizer": ["default", "tied-lattice", "tied-ring"],
}


def pool_call(api, variant, net, seed, parallel):
    t = base_tree(net)
    inputs, output, size_dict = net["inputs"], net["output"], net["size_dict"]
    if api == "core.ContractionTree.parallel_temper":
        return tree_obs_full(t.parallel_temper(tsteps=3, numiter=3, num_trees=4, max_time=None, parallel=parallel, seed=seed))
    if api == "pathfinders.path_simulated_annealing.parallel_temper_tree":
        from cotengra.pathfinders.path_simulated_annealing import parallel_temper_tree
        return tree_obs_full(parallel_temper_tree(t, tsteps=3, numiter=3, num_trees=4, max_time=None, parallel=parallel, seed=seed))
    if api == "core.ContractionTree.subtree_reconfigure_forest":
        kw = {"default": {}, "select_max_bfs": {"subtree_search": ("bfs",), "subtree_select": ("max", "min")}}[variant]
        return tree_obs_full(t.subtree_reconfigure_forest(num_trees=4, num_restarts=2, subtree_size=4, subtree_maxiter=4,
                                                          parallel=parallel, seed=seed, **kw))
    if api == "pathfinders.path_basic.RandomGreedyOptimizer":
        if variant.startswith("tied"):
            # uniform small lattice / ring: many different paths share the minimal cost, so several batches tie at
            # the best flops with different paths and the tie-break of the reduction over batches is exercised
            if variant == "tied-lattice":
                inputs, output, _, size_dict = cutils.lattice_equation([3, 3], d_min=2, seed=0)
            else:
                n = 8
                inputs = [("r%d" % i, "r%d" % ((i + 1) % n)) for i in range(n)]
                output, size_dict = (), {"r%d" % i: 2 for i in range(n)}
            o = ctg.RandomGreedyOptimizer(max_repeats=8, temperature=(0.5, 1.0), seed=seed, parallel=parallel, accel=False)
            return canon([o(inputs, output, size_dict), o.best_flops])
        o = ctg.RandomGreedyOptimizer(max_repeats=6, seed=seed, parallel=parallel, accel=False)
        return canon([o(inputs, output, size_dict), o.search(inputs, output, size_dict).get_path()])
    raise KeyError("no pool runner for %s" % api)


def canon_key(x):
    return json.dumps(canon(x))


def run_pool(api, variant, net, seed):
    inputs = [tuple(t) for t in net["inputs"]]
    net = {"inputs": inputs, "output": tuple(net["output"]), "size_dict": dict(net["size_dict"])}
    nw = 4 if variant.startswith("tied") else 2
    fifo, lifo = OrderedExecutor(False, nw), OrderedExecutor(True, nw)
    r_fifo = pool_call(api, variant, net, seed, fifo)
    r_lifo = pool_call(api, variant, net, seed, lifo)
    r_fifo2 = pool_call(api, variant, net, seed, OrderedExecutor(False, nw))
    out = {"pool_used": bool(fifo.batches and max(fifo.batches) > 1)}
    if variant.startswith("tied"):
        # generator floor: did >= 2 batches tie at the best cost with different paths?
        res = [f._res for f in fifo.completed if f._exc is None and isinstance(f._res, tuple) and len(f._res) == 2]
        if res:
            best = min(r[1] for r in res)
            out["tied_best_batches_with_different_paths"] = len({canon_key(r[0]) for r in res if r[1] == best}) >= 2
    # the serial run: same result required where the operation does not document a dependence on the pool
    # (RandomGreedyOptimizer splits its trials over the workers: only the two orders are compared there)
    if api != "pathfinders.path_basic.RandomGreedyOptimizer":
        r_serial = pool_call(api, variant, net, seed, False)
    else:
        r_serial = r_fifo
    if r_fifo == r_lifo == r_fifo2 == r_serial:
        out["result"] = r_fifo
    else:
        out.update({"POOL_ORDER_MATTERS": True, "fifo": r_fifo, "lifo": r_lifo, "fifo_again": r_fifo2,
                    "parallel_False": r_serial})
    return out


# ---------------------------------------------------------------------------
# "a function of its arguments and its seed": call, snapshot the result, DAMAGE the returned object in place (lists
# appended / popped, dict entries changed and added, arrays overwritten, trees sliced), call again with identical
# arguments -- the second result must equal the snapshot of the first (a memoised return value shared between callers
# comes back damaged)
def snapshot_result(x):
    if isinstance(x, ccore.ContractionTree):
        return {"tree": canon_real(x.get_path()), "sliced": canon_real(tuple(x.sliced_inds)),
                "inputs": canon_real(x.inputs), "output": canon_real(x.output), "size_dict": canon_real(dict(x.size_dict))}
    if isinstance(x, dict):
        return {"dict": [[snapshot_result(k), snapshot_result(v)] for k, v in x.items()]}
    if isinstance(x, (list, tuple)):
        return [snapshot_result(v) for v in x]
    return canon_real(x)


def damage(x, depth=0):
    """mutate x in place wherever it is mutable; returns the number of edits made"""
    n = 0
    if depth > 6:
        return 0
    if isinstance(x, ccore.ContractionTree):
        try:
            ix = next(iter(x.size_dict))
            x.remove_ind_(ix)
            n += 1
        except Exception:
            pass
        return n
    if isinstance(x, np.ndarray):
        if x.size and x.flags.writeable:
            x.flat[0] = x.flat[0] + 1
            n += 1
        return n
    if isinstance(x, dict):
        for v in list(x.values()):
            n += damage(v, depth + 1)
        for k in list(x)[:1]:
            x[k] = 1 if not isinstance(x[k], (list, dict, set, np.ndarray)) else x[k]
            n += 1
        x["__damaged__"] = 1
        return n + 1
    if isinstance(x, list):
        for v in x:
            n += damage(v, depth + 1)
        if x:
            x.pop()
        x.append("__damaged__")
        return n + 1
    if isinstance(x, set):
        x.add("__damaged__")
        return 1
    if isinstance(x, tuple):
        for v in x:
            n += damage(v, depth + 1)
        return n
    return 0


def run_mutate(api, variant, net, seed):
    RAW["on"] = True
    try:
        first = run_api(api, variant, net, seed)
        ref = snapshot_result(first)
        edits = damage(first)
        second = run_api(api, variant, net, seed)
        got = snapshot_result(second)
        third = snapshot_result(run_api(api, variant, net, seed))
    finally:
        RAW["on"] = False
    out = {"result": ref, "edits": edits}
    if got != ref or third != ref:
        out.update({"RESULT_DEPENDS_ON_EARLIER_CALLERS": True, "second_call_after_the_first_result_was_edited": got,
                    "third": third})
    return out


def run_repeat(api, variant, net, seed, hist, single_only):
    inputs = [tuple(t) for t in net["inputs"]]
    net = {"inputs": inputs, "output": tuple(net["output"]), "size_dict": dict(net["size_dict"])}
    # the reference: ONE call on an independent rebuild of the state
    ref = tree_call(api, variant, build_state(api, net, hist), seed)
    if single_only:
        return ref
    t = build_state(api, net, hist)
    before = state_obs(t)
    r1 = tree_call(api, variant, t, seed)
    r2 = tree_call(api, variant, t, seed)
    # different seeded calls in between (same operation with another seed, and another operation)
    tree_call(api, variant, t, (seed * 31 + 7) % (2 ** 31))
    if api not in COMPRESSED_APIS:
        t.subtree_reconfigure(subtree_size=3, maxiter=3, select="random", seed=(seed + 1) % (2 ** 31))
    r3 = tree_call(api, variant, t, seed)
    after = state_obs(t)
    if r1 == r2 == r3 == ref and before == after:
        return ref
    return {"REPEATED_CALLS_DIFFER": True, "rebuilt_state_single_call": ref, "first": r1, "second": r2,
            "third_after_other_seeded_calls": r3, "object_changed_by_non_inplace_calls": before != after}


RUNNERS_SELFTEST = None


def perturb():
    _orig_seed(os.urandom(8))
    for _ in range(os.urandom(1)[0] % 7):
        _orig_random()
    _np_seed(int.from_bytes(os.urandom(4), "little"))
    _np_rand(os.urandom(1)[0] % 5 + 1)


def decoy():
    k = os.urandom(1)[0] % 5
    try:
        if k == 0:
            cutils.rand_equation(5, 3, seed=None)
        elif k == 1:
            inputs, output, _, sd = cutils.rand_equation(6, 3, seed=int.from_bytes(os.urandom(2), "little"))
            ctg.RandomGreedyOptimizer(max_repeats=2, seed=None, parallel=False, accel=False)(inputs, output, sd)
        elif k == 2:
            inputs, output, _, sd = cutils.rand_equation(6, 3, seed=int.from_bytes(os.urandom(2), "little"))
            ctg.RandomOptimizer(seed=int.from_bytes(os.urandom(2), "little"))(inputs, output, sd)
        elif k == 3:
            ccore.jitter_dict({"a": 2, "b": 3}, 0.1)
    except Exception:
        pass


class JobTimeout(Exception):
    pass


def _alarm(signum, frame):
    raise JobTimeout()


def main():
    mode = JOBS.get("mode", {})
    jobs = list(JOBS["jobs"])
    if mode.get("shuffle"):
        order = sorted(range(len(jobs)), key=lambda i: os.urandom(4))
        jobs = [jobs[i] for i in order]
    signal.signal(signal.SIGALRM, _alarm)
    results = {}
    import warnings
    warnings.simplefilter("ignore")
    for job in jobs:
        if mode.get("perturb", True):
            perturb()
        if mode.get("history"):
            decoy()
            perturb()
        TRACE["hits"] = []
        rec = {}
        signal.alarm(int(mode.get("job_timeout", 40)))
        try:
            TRACE["on"] = True
            if job.get("mutate"):
                rec["result"] = run_mutate(job["api"], job.get("variant", "default"), job.get("net"), job["seed"])
            elif job.get("pool"):
                rec["result"] = run_pool(job["api"], job.get("variant", "default"), job["net"], job["seed"])
            elif job.get("repeat"):
                rec["result"] = run_repeat(job["api"], job.get("variant", "default"), job["net"], job["seed"],
                                           job["repeat"], bool(mode.get("single_only")))
            else:
                rec["result"] = run_api(job["api"], job.get("variant", "default"), job.get("net"), job["seed"])
        except JobTimeout:
            rec["error"] = "timeout"
        except Exception as e:
            rec["error"] = "%s: %s" % (type(e).__name__, e)
            rec["tb"] = traceback.format_exc()[-1500:]
        finally:
            TRACE["on"] = False
            signal.alarm(0)
        rec["global_draws"] = TRACE["hits"][:50]
        rec["n_global_draws"] = len(TRACE["hits"])
        results[job["id"]] = rec
    with open(sys.argv[2], "w") as f:
        json.dump({"hashseed": os.environ.get("PYTHONHASHSEED"), "results": results}, f)


if __name__ == "__main__":
    main()

"""C05 -- every pathfinder returns a complete, well-formed contraction of its network.

Every call into cotengra runs in a worker process (a reused pool) under a wall-clock
limit: a call that does not return is a violation of "returns ... a contraction".
Every returned path / tree is judged twice: by the independent Python oracle
(vlib.oracle.path_is_valid_linear / tree_is_complete) and, INSIDE Coq, by the verified
checkers linear_path_valid / ssa_path_valid / tree_complete_b (Props/C05.v soundness).
The deterministic code (from_path incl. multi-way steps, simplify passes,
optimize_remaining_by_size, greedy at temperature 0, ssa_to_linear, linear_to_ssa,
build_divide / build_agglom with the recorded partitions) is compared output-for-output
with the Gallina model."""
import multiprocessing as mp
import os
import random
import sys
import time
import traceback

from vlib import gen, oracle
from vlib.core import Raw, coq, main, standard_proof_steps

os.environ.setdefault("PYTHONWARNINGS", "ignore")
PROP = "C05"
TIMEOUT = float(os.environ.get("C05_TIMEOUT", "20"))

PRESETS_CORE = ["greedy", "eager", "opportunistic", "optimal", "dp", "dynamic-programming",
                "optimal-outer", "auto", "auto-hq", "random", "random-greedy"]
PRESETS_HYPER = ["hyper-greedy", "hyper-labels", "hyper-kahypar", "hyper-balanced", "random-greedy-128", "hyper"]
# not exact-contraction finders or need absent binaries / libraries: compressed presets,
# flowcutter-*, quickbb-*, hyper-spinglass, hyper-betweenness, hyper-256 (hyper x2)
HYPER_METHODS = ["greedy", "random-greedy", "labels", "labels-agglom", "kahypar", "kahypar-balanced",
                 "kahypar-agglom", "random"]


# ===========================================================================
# worker side
def _children_list(tree):
    return [(sorted(k), (sorted(l), sorted(r))) for k, (l, r) in tree.children.items()]


def _tree_obs(tree):
    return {"N": tree.N, "children": _children_list(tree), "oracle_complete": bool(oracle.tree_is_complete(tree)),
            "ninfo": len(tree.info)}


def _plain_path(path):
    return [[int(i) for i in step] for step in path]


def _exc_info(e):
    tb = traceback.extract_tb(e.__traceback__)
    return {"exc": type(e).__name__, "msg": str(e)[:300],
            "frames": [(os.path.basename(f.filename), f.name, f.lineno) for f in tb][-8:]}


def _sample_space(rng, space, extreme=False):
    params = {}
    for k, p in space.items():
        t = p["type"]
        if t == "BOOL":
            params[k] = rng.choice([False, True])
        elif t == "INT":
            params[k] = rng.choice([p["min"], p["max"]]) if extreme else rng.randint(p["min"], p["max"])
        elif t == "STRING":
            params[k] = rng.choice(p["options"])
        elif t == "FLOAT":
            params[k] = rng.choice([p["min"], p["max"]]) if extreme else rng.uniform(p["min"], p["max"])
        elif t == "FLOAT_EXP":
            import math
            params[k] = rng.choice([p["min"], p["max"]]) if extreme else \
                2 ** rng.uniform(math.log2(p["min"]), math.log2(p["max"]))
        else:
            raise ValueError(p)
    return params


def w_preset(task):
    import cotengra as ctg
    inputs, output, sd, preset = task["inputs"], task["output"], task["size_dict"], task["preset"]
    random.seed(task["seed"])
    res = {}
    path = ctg.array_contract_path(inputs, output, sd, optimize=preset, cache=False)
    res["path"] = _plain_path(path)
    from cotengra.interface import find_tree, find_path
    random.seed(task["seed"] + 1)
    # find_tree is what array_contract_tree dispatches to for N >= 3 (it pre-empts N <= 2)
    tree = find_tree(inputs, output, sd, preset)
    res["tree"] = _tree_obs(tree)
    res["tree_path"] = _plain_path(tree.get_path())
    try:
        tree2 = ctg.array_contract_tree(inputs, output, sd, optimize=preset)
        res["tree_pub"] = _tree_obs(tree2)
    except Exception as e:  # reported by the parent as a failed call of its own
        res["errors"] = [("array_contract_tree(optimize=%r)" % preset, _exc_info(e))]
    return res


def w_hyper(task):
    import cotengra as ctg
    inputs, output, sd, m = task["inputs"], task["output"], task["size_dict"], task["method"]
    random.seed(task["seed"])
    kw = dict(methods=[m], max_repeats=task["repeats"], optlib=task.get("optlib", "random"), parallel=False,
              on_trial_error="raise")
    if kw["optlib"] == "random":
        kw["seed"] = task["seed"]
    opt = ctg.HyperOptimizer(**kw)
    tree = opt.search(inputs, output, sd)
    res = {"tree": _tree_obs(tree), "tree_path": _plain_path(tree.get_path())}
    opt2 = ctg.HyperOptimizer(**kw)
    res["path"] = _plain_path(opt2(inputs, output, sd))
    return res


def w_trial(task):
    import cotengra as ctg
    from cotengra.hyperoptimizers import hyper
    inputs, output, sd, m = task["inputs"], task["output"], task["size_dict"], task["method"]
    random.seed(task["seed"])
    params = dict(task["params"])
    params.update(hyper.get_hyper_constants()[m])
    tree = hyper._PATH_FNS[m](inputs, output, sd, **params)
    return {"tree": _tree_obs(tree), "tree_path": _plain_path(tree.get_path()), "ssa_path": _plain_path(tree.get_ssa_path())}


def w_space(task):
    """the registered search space of each method (read in a worker: importing is a call too)"""
    from cotengra.hyperoptimizers import hyper
    from cotengra.interface import _PRESETS_PATH, _PRESETS_TREE
    sp = hyper.get_hyper_space()
    return {"space": {m: sp[m] for m in hyper.list_hyper_functions()},
            "constants": {m: hyper.get_hyper_constants()[m] for m in hyper.list_hyper_functions()},
            "presets_path": sorted(_PRESETS_PATH), "presets_tree": sorted(_PRESETS_TREE)}


def w_rgreedy(task):
    import cotengra as ctg
    inputs, output, sd = task["inputs"], task["output"], task["size_dict"]
    opt = ctg.RandomGreedyOptimizer(max_repeats=task["repeats"], seed=task["seed"], parallel=False,
                                    simplify=task.get("simplify", True))
    path = opt(inputs, output, sd)
    res = {"path": _plain_path(path), "ssa_path": _plain_path(opt.best_ssa_path)}
    opt = ctg.RandomGreedyOptimizer(max_repeats=task["repeats"], seed=task["seed"], parallel=False)
    tree = opt.search(inputs, output, sd)
    res["tree"] = _tree_obs(tree)
    res["tree_path"] = _plain_path(tree.get_path())
    return res


def w_explicit(task):
    """explicit linear / ssa / edge paths through the public interface, recording the
    sub-paths find_path hands to contract_nodes for multi-way steps"""
    import warnings

    import cotengra as ctg
    import cotengra.interface as itf
    from cotengra.core import ContractionTree
    inputs, output, sd, kind, p = task["inputs"], task["output"], task["size_dict"], task["kind"], task["path"]
    recorded = []
    orig = itf.find_path
    current = {}

    def rec_find_path(inp, out, size_dict, optimize="auto", **kw):
        path = orig(inp, out, size_dict, optimize=optimize, **kw)
        recorded.append({"k": len(inp), "path": _plain_path(path)})
        return path

    orig_cn = ContractionTree.contract_nodes

    def rec_contract_nodes(self, nodes, *a, **kw):
        nodes = list(nodes)
        n0 = len(recorded)
        out = orig_cn(self, nodes, *a, **kw)
        if len(nodes) >= 3 and len(recorded) > n0:
            recorded[n0]["nodes"] = [sorted(x) for x in nodes]
        return out

    itf.find_path = rec_find_path
    ContractionTree.contract_nodes = rec_contract_nodes
    res = {}
    try:
        with warnings.catch_warnings():
            warnings.simplefilter("ignore")
            tp = tuple(tuple(s) for s in p) if kind != "edge" else tuple(p)
            if kind == "linear":
                tree = ContractionTree.from_path(inputs, output, sd, path=tp, autocomplete=True)
            elif kind == "ssa":
                tree = ContractionTree.from_path(inputs, output, sd, ssa_path=tp, autocomplete=True)
            elif kind == "edge":
                tree = ContractionTree.from_path(inputs, output, sd, edge_path=tp, autocomplete=True)
                from cotengra.pathfinders.path_basic import edge_path_to_ssa, edge_path_to_linear
                res["edge_ssa"] = _plain_path(edge_path_to_ssa(tp, inputs))
                res["edge_linear"] = _plain_path(edge_path_to_linear(tp, inputs))
            res["tree"] = _tree_obs(tree)
            res["nested"] = gen.tree_nested(tree) if tree.N > 1 else 0
            res["subs"] = list(recorded)
            res["tree_path"] = _plain_path(tree.get_path())
            res["tree_ssa_path"] = _plain_path(tree.get_ssa_path())
    finally:
        itf.find_path = orig
        ContractionTree.contract_nodes = orig_cn
    # the same path through the array_* interface (complete paths only)
    if task.get("public"):
        with warnings.catch_warnings():
            warnings.simplefilter("ignore")
            opt = [tuple(s) for s in p] if kind == "linear" else list(p)
            try:
                res["pub_path"] = _plain_path(ctg.array_contract_path(inputs, output, sd, optimize=opt,
                                                                      canonicalize=False, cache=False))
                t2 = ctg.array_contract_tree(inputs, output, sd, optimize=opt, canonicalize=False)
                res["pub_tree"] = _tree_obs(t2)
            except Exception as e:
                res.pop("pub_path", None)
                res["errors"] = [("array_contract_path/tree(optimize=<explicit %s path>)" % kind, _exc_info(e))]
    return res


def _legs_out(legs):
    return [[int(ix), int(c)] for ix, c in legs]


def w_processor(task):
    """deterministic parts of ContractionProcessor, with the iteration order of the
    `hadamards` set (a hash order) recorded so that the model can replay it"""
    from cotengra.pathfinders import path_basic as pb
    inputs, output, sd = task["inputs"], task["output"], task["size_dict"]
    orders = []

    class Rec(pb.ContractionProcessor):
        __slots__ = ()

        def simplify_hadamard(self):
            groups = {}
            hadamards = set()
            for i, legs in self.nodes.items():
                key = frozenset(ix for ix, _ in legs)
                if key in groups:
                    groups[key].append(i)
                    hadamards.add(key)
                else:
                    groups[key] = [i]
            orders.append([sorted(k) for k in hadamards])   # same construction => same iteration order
            return pb.ContractionProcessor.simplify_hadamard(self)

    res = {}
    cp = Rec(inputs, output, sd)
    res["init_nodes"] = [[int(i), _legs_out(l)] for i, l in cp.nodes.items()]
    res["init_edges"] = [[int(ix), [int(j) for j in ns]] for ix, ns in cp.edges.items()]
    res["appearances"] = [int(a) for a in cp.appearances]
    res["sizes"] = [int(s) for s in cp.sizes]
    cp.simplify()
    res["simp_ssa"] = _plain_path(cp.ssa_path)
    res["simp_nodes"] = [[int(i), _legs_out(l)] for i, l in cp.nodes.items()]
    res["orders"] = orders
    res["simp_public"] = _plain_path(pb.optimize_simplify(inputs, output, sd, use_ssa=True))
    n_h = len(orders)
    # greedy at temperature 0 (deterministic) + leftovers by size
    if task.get("greedy"):
        cp.optimize_greedy(costmod=1.0, temperature=0.0)
        res["greedy_ssa"] = _plain_path(cp.ssa_path)
        res["greedy_nodes"] = [int(i) for i in cp.nodes]
    cp.optimize_remaining_by_size()
    res["full_ssa"] = _plain_path(cp.ssa_path)
    res["full_linear"] = _plain_path(pb.ssa_to_linear(cp.ssa_path, len(inputs)))
    res["full_linear_noN"] = _plain_path(pb.ssa_to_linear(cp.ssa_path))
    res["back_ssa"] = _plain_path(pb.linear_to_ssa(res["full_linear"], len(inputs)))
    res["public_greedy_ssa"] = _plain_path(pb.optimize_greedy(inputs, output, sd, use_ssa=True))
    res["public_greedy"] = _plain_path(pb.optimize_greedy(inputs, output, sd))
    # leftovers only (no greedy): simplify + optimize_remaining_by_size
    cp2 = Rec(inputs, output, sd)
    if task.get("simplify_first", True):
        cp2.simplify()
    cp2.optimize_remaining_by_size()
    res["rem_ssa"] = _plain_path(cp2.ssa_path)
    res["rem_orders"] = orders[n_h:]
    res["rem_simplified"] = bool(task.get("simplify_first", True))
    for name, kw in (("optimal", {}), ("optimal_outer", {"search_outer": True}),
                     ("optimal_nosimp", {"simplify": False})):
        if len(inputs) <= 8:
            res[name + "_ssa"] = _plain_path(pb.optimize_optimal(inputs, output, sd, use_ssa=True, **kw))
            res[name] = _plain_path(pb.optimize_optimal(inputs, output, sd, **kw))
    # the inputs / output in the numbering of self.indmap (first appearance) for the model's cp_init
    im = cp.indmap
    res["ix_inputs"] = [[int(im[ix]) for ix in t] for t in inputs]
    res["ix_output"] = [int(im[ix]) for ix in output]
    # optimal pipeline: simplify; per component the DP's contractions (re-assembled into the tree
    # over the positions of `where` that the bit path describes); leftovers by size
    if len(inputs) <= 8:
        n_o = len(orders)
        cp3 = Rec(inputs, output, sd)
        simp3 = bool(task.get("simplify_first", True))
        if simp3:
            cp3.simplify()
        groups = cp3.subgraphs()
        n0, ssa0 = len(cp3.ssa_path), cp3.ssa
        cp3.optimize_optimal(search_outer=bool(task.get("search_outer")))
        steps = [tuple(int(x) for x in st) for st in cp3.ssa_path[n0:]]
        comps, pos, nxt = [], 0, ssa0
        for where in groups:
            trees = {int(node): int(p) for p, node in enumerate(where)}
            root = trees[int(where[0])] if len(where) == 1 else None
            for (i, j) in steps[pos: pos + len(where) - 1]:
                root = trees[nxt] = (trees.pop(i), trees.pop(j))
                nxt += 1
            pos += len(where) - 1
            comps.append([[int(x) for x in where], root])
        cp3.optimize_remaining_by_size()
        res["opt_comps"] = comps
        res["opt_orders"] = orders[n_o:]
        res["opt_simplified"] = simp3
        res["opt_full_ssa"] = _plain_path(cp3.ssa_path)
        res["opt_steps_consumed"] = pos == len(steps)
    return res


def w_random(task):
    """RandomOptimizer with its random numbers recorded"""
    from cotengra.pathfinders.path_random import RandomOptimizer
    inputs, output, sd = task["inputs"], task["output"], task["size_dict"]
    draws = []

    class RecRng(random.Random):
        def randint(self, a, b):
            v = random.Random.randint(self, a, b)
            draws.append((int(a), int(b), int(v)))
            return v

    opt = RandomOptimizer(seed=RecRng(task["seed"]))
    path = opt(inputs, output, sd)
    res = {"path": _plain_path(path), "draws": draws}
    tree = RandomOptimizer(seed=task["seed"]).search(inputs, output, sd)
    res["tree"] = _tree_obs(tree)
    res["tree_path"] = _plain_path(tree.get_path())
    return res


class NoProgress(Exception):
    pass


def w_builder(task):
    """PartitionTreeBuilder with the partition function wrapped to record every
    (subgraph, membership) pair; `detect` raises when an agglomerative round merges nothing"""
    import warnings

    from cotengra.core import ContractionTree, PartitionTreeBuilder
    import cotengra.interface as itf
    inputs, output, sd = task["inputs"], task["output"], task["size_dict"]
    which, fn_name = task["which"], task["fn"]
    if fn_name == "labels":
        from cotengra.pathfinders.path_labels import labels_partition as fn
    else:
        from cotengra.pathfinders.path_kahypar import kahypar_subgraph_find_membership as fn
    calls = []
    subs = []
    orig = itf.find_path

    def rec_find_path(inp, out, size_dict, optimize="auto", **kw):
        path = orig(inp, out, size_dict, optimize=optimize, **kw)
        subs.append({"k": len(inp), "path": _plain_path(path)})
        return path

    orig_cn = ContractionTree.contract_nodes

    def rec_contract_nodes(self, nodes, *a, **kw):
        nodes = list(nodes)
        n0 = len(subs)
        out = orig_cn(self, nodes, *a, **kw)
        if len(nodes) >= 3 and len(subs) > n0:
            subs[n0]["nodes"] = [sorted(x) for x in nodes]
        return out

    def rec_fn(inp, out, size_dict, **kw):
        mem = fn(inp, out, size_dict, **kw)
        mem = [int(x) for x in mem]
        calls.append({"n": len(inp), "membership": mem})
        if task.get("detect") and which == "agglom" and len(set(mem[:len(inp)])) >= len(inp):
            raise NoProgress("round with %d groups for %d leaves" % (len(set(mem)), len(inp)))
        return mem

    import cotengra.core as core
    seps = []
    orig_sep = core.separate

    def rec_separate(xs, blocks):
        xs = list(xs)
        out = orig_sep(xs, blocks)
        pos = {id(x): k for k, x in enumerate(xs)} if xs and not isinstance(xs[0], int) else None
        seps.append({"k": len(xs), "blocks": [int(b) for b in blocks],
                     "xs": [sorted(x) if not isinstance(x, int) else int(x) for x in xs],
                     "groups": [[(pos[id(x)] if pos is not None else xs.index(x)) for x in g] for g in out]})
        return out

    core.separate = rec_separate
    b = PartitionTreeBuilder(rec_fn)
    itf.find_path = rec_find_path
    ContractionTree.contract_nodes = rec_contract_nodes
    random.seed(task["seed"])
    try:
        with warnings.catch_warnings():
            warnings.simplefilter("ignore")
            try:
                if which == "divide":
                    tree = b.build_divide(inputs, output, sd, seed=task["seed"], **task["opts"])
                else:
                    tree = b.build_agglom(inputs, output, sd, seed=task["seed"], **task["opts"])
            except NoProgress as e:
                return {"no_progress": str(e), "calls": calls}
    finally:
        itf.find_path = orig
        ContractionTree.contract_nodes = orig_cn
        core.separate = orig_sep
    return {"tree": _tree_obs(tree), "nested": gen.tree_nested(tree) if tree.N > 1 else 0, "calls": calls,
            "subs": subs, "seps": seps, "tree_path": _plain_path(tree.get_path())}


WORKER_FNS = {"preset": w_preset, "hyper": w_hyper, "trial": w_trial, "space": w_space, "rgreedy": w_rgreedy,
              "explicit": w_explicit, "processor": w_processor, "builder": w_builder, "random": w_random}


def _worker_main(conn):
    import warnings
    warnings.simplefilter("ignore")
    try:
        import cotengra  # noqa: F401
    except Exception as e:  # pragma: no cover
        conn.send(("fatal", repr(e)))
        return
    while True:
        try:
            msg = conn.recv()
        except EOFError:
            return
        if msg is None:
            return
        tid, task = msg
        try:
            out = WORKER_FNS[task["fn_kind"]](task)
            conn.send((tid, {"ok": out}))
        except BaseException as e:  # noqa: BLE001 - everything the implementation raises is an observation
            try:
                conn.send((tid, {"err": _exc_info(e)}))
            except Exception:
                return


# ===========================================================================
# pool with per-task wall-clock limit and respawn
class Pool:
    def __init__(self, nproc, timeout):
        # the parent imports the library once so that forked (and re-spawned) workers start
        # instantly; no cotengra function is ever CALLED in the parent
        import cotengra  # noqa: F401
        import cotengra.pathfinders.path_kahypar  # noqa: F401
        self.ctx = mp.get_context("fork")
        self.timeout = timeout
        self.workers = [self._spawn() for _ in range(nproc)]

    def _spawn(self):
        a, b = self.ctx.Pipe()
        p = self.ctx.Process(target=_worker_main, args=(b,), daemon=False)
        p.start()
        b.close()
        return {"proc": p, "conn": a, "task": None, "t0": None}

    def run(self, tasks, progress=None):
        """tasks: list of dicts; returns list of results in order:
        {'ok': ...} | {'err': {...}} | {'timeout': seconds} | {'died': ...}"""
        results = [None] * len(tasks)
        nxt = 0
        done = 0
        while done < len(tasks):
            for wi, w in enumerate(self.workers):
                if w["task"] is None and nxt < len(tasks):
                    try:
                        w["conn"].send((nxt, tasks[nxt]))
                        w["task"], w["t0"] = nxt, time.time()
                        nxt += 1
                    except (BrokenPipeError, OSError):
                        self._kill(wi)
            progressed = False
            for wi, w in enumerate(self.workers):
                if w["task"] is None:
                    continue
                try:
                    ready = w["conn"].poll(0)
                except (OSError, EOFError):
                    ready = False
                if ready:
                    try:
                        tid, res = w["conn"].recv()
                        results[tid] = res
                    except (EOFError, OSError):
                        results[w["task"]] = {"died": "worker process died"}
                        self._kill(wi)
                    else:
                        w["task"] = None
                    done += 1
                    progressed = True
                elif not w["proc"].is_alive():
                    results[w["task"]] = {"died": "worker process died (exit code %r)" % (w["proc"].exitcode,)}
                    self._kill(wi)
                    done += 1
                    progressed = True
                elif time.time() - w["t0"] > tasks[w["task"]].get("timeout", self.timeout):
                    results[w["task"]] = {"timeout": round(time.time() - w["t0"], 1)}
                    self._kill(wi)
                    done += 1
                    progressed = True
            if not progressed:
                time.sleep(0.002)
        return results

    def _kill(self, wi):
        w = self.workers[wi]
        try:
            w["proc"].kill()
            w["proc"].join(2)
            w["conn"].close()
        except Exception:
            pass
        self.workers[wi] = self._spawn()

    def close(self):
        for w in self.workers:
            try:
                w["conn"].send(None)
            except Exception:
                pass
        for w in self.workers:
            w["proc"].join(0.5)
            if w["proc"].is_alive():
                w["proc"].kill()


# ===========================================================================
# generators
def special_nets(rng):
    """the corner networks the property names explicitly"""
    nets = []
    nets.append(([("a", "b")], ("a",), {"a": 2, "b": 3}))                       # 1 tensor
    nets.append(([()], (), {}))                                                 # 1 scalar
    nets.append(([("a", "a", "b")], ("a",), {"a": 2, "b": 3}))                  # 1 tensor, repeated index
    nets.append(([("a", "b"), ("b", "c")], ("a", "c"), {"a": 2, "b": 3, "c": 2}))  # 2 tensors
    nets.append(([("a",), ("b",)], (), {"a": 2, "b": 3}))                       # 2 disconnected
    nets.append(([(), ()], (), {}))                                             # 2 scalars
    nets.append(([(), (), ()], (), {}))                                         # all scalar
    nets.append(([()] * 6, (), {}))
    nets.append(([("a",), ("b",), ("c",), ("d",), ("e",)], ("a",), dict.fromkeys("abcde", 2)))  # no shared index
    nets.append(([("a", "b"), ("b", "c"), ("d", "e"), ("e", "f"), ()], ("a", "f"), dict.fromkeys("abcdef", 2)))
    nets.append(([("x", "a"), ("x", "b"), ("x", "c"), ("x", "d")], ("x",), dict.fromkeys("xabcd", 2)))  # batch index
    nets.append(([("a", "b"), ("a", "b"), ("a", "b"), ("b", "c")], ("c",), dict.fromkeys("abc", 2)))   # hadamard groups
    # finding 17's input
    nets.append(([("e", "d", "e"), ("c", "e"), ("d",), (), ("c", "c", "g", "b")], ("e",),
                 {"b": 2, "c": 3, "d": 1, "e": 2, "g": 3}))
    return nets


def scalar_heavy(rng, n):
    """index-free or almost index-free networks (finding 18's class)"""
    k = rng.randint(0, 2)
    syms = list(gen.SYMS[:k])
    inputs = [()] * n
    inputs = list(inputs)
    for s in syms:
        for w in rng.sample(range(n), min(n, rng.randint(1, 2))):
            inputs[w] = inputs[w] + (s,)
    out = tuple(s for s in syms if rng.random() < 0.3 and any(s in t for t in inputs))
    return inputs, out, {s: rng.randint(1, 3) for s in syms}


def big_net(rng, lo, hi):
    n = rng.randint(lo, hi)
    return gen.rand_net(rng, nmin=n, nmax=n, max_ix=min(50, 2 * n + 4), max_rank=4, dmax=3,
                        p_scalar=0.15, p_disconnected=0.25)


def draw_net(rng, ctx, small=True):
    r = rng.random()
    if r < 0.08:
        return rng.choice(special_nets(rng))
    if r < 0.16:
        return scalar_heavy(rng, rng.randint(1, 7 if small else 14))
    if r < 0.30:
        return gen.rand_net(rng, nmin=1, nmax=3, max_ix=4)
    if small:
        return gen.rand_net(rng, nmin=3, nmax=ctx.n(8, 9), max_ix=9)
    return big_net(rng, 9, ctx.n(26, 44))


def netkey(net):
    return (tuple(net[0]), tuple(net[1]), tuple(sorted(net[2].items())))


def net_rec(net):
    return {"inputs": [list(t) for t in net[0]], "output": list(net[1]), "size_dict": dict(net[2])}


def feats(ctx, net):
    f = gen.net_features(*net)
    n = len(net[0])
    f.add("N=%d" % n if n <= 3 else ("N=4..8" if n <= 8 else "N>8"))
    if all(len(t) == 0 for t in net[0]):
        f.add("all_scalar")
    for x in f:
        ctx.count(x)
    return f


# ===========================================================================
# judging
def children_complete(N, ch):
    """the property on plain data (independent of tree.is_complete): binary, every input a
    leaf exactly once, nothing else in the map"""
    d = {tuple(k): (tuple(l), tuple(r)) for k, (l, r) in ch}
    if len(d) != len(ch):
        return False
    if N == 1:
        return len(ch) == 0
    leaves, stack, count = [], [tuple(range(N))], 0
    while stack:
        x = stack.pop()
        if len(x) == 1:
            leaves.append(x[0])
            continue
        if x not in d:
            return False
        l, r = d[x]
        if not l or not r or set(l) & set(r) or sorted(set(l) | set(r)) != list(x):
            return False
        count += 1
        stack += [l, r]
    return sorted(leaves) == list(range(N)) and count == N - 1 and len(ch) == N - 1


def ch_lit(ch):
    return coq([(list(k), (list(l), list(r))) for k, (l, r) in ch])


def path_lit(p):
    return coq([list(s) for s in p])


def nested_lit(t):
    if isinstance(t, int):
        return "(Leaf %d)" % t
    return "(Node %s %s)" % (nested_lit(t[0]), nested_lit(t[1]))


def subs_table_lit(subs):
    items = []
    for s in subs:
        if "nodes" in s:
            items.append("(%s, %s)" % (coq([list(x) for x in s["nodes"]]), path_lit(s["path"])))
    return "[" + "; ".join(items) + "]"


class Judge:
    """collects Coq cases and applies the Python oracle; one place where failures are classified"""

    def __init__(self, ctx):
        self.ctx = ctx
        self.checker_cases = []   # (label, lhs, rhs)
        self.checker_recs = []
        self.model_cases = []
        self.model_recs = []

    def classify(self, err, rec=None):
        """known-finding keys (precise: exception type + innermost frame + message)"""
        if not err:
            return None
        n = len((rec or {}).get("inputs", [0, 0]))
        fr = err.get("frames") or []
        inner = fr[-1][1] if fr else ""
        names = [f[1] for f in fr]
        if n == 1 and err["exc"] == "ValueError" and "math domain error" in err["msg"]:
            return "single_tensor:log_of_zero_flops"
        if n == 1 and err["exc"] == "KeyError" and "tree" in err["msg"] and fr and fr[-1][0] == "hyper.py" \
                and fr[-1][1] == "tree":
            # the hyper presets swallow the trial errors above (on_trial_error='warn'): no trial succeeds
            return "single_tensor:log_of_zero_flops"
        if err["exc"] == "AssertionError" and (rec or {}).get("method") == "random" and (
                ("dimension of mean" in err["msg"] and "cmaes_init_optimizers" in names)
                or any(f[0] == "hyper_skopt.py" for f in fr)):
            return "hyper_optlib:empty_search_space"
        if err["exc"] == "ValueError" and inner == "labels_partition" and "max()" in err["msg"]:
            return "labels_partition:empty_edge_weights"
        if err["exc"] == "ValueError" and inner in ("greedy_compressed", "trial_greedy_compressed") and "max()" in err["msg"] \
                and not (rec or {}).get("size_dict", {1: 1}):
            return "greedy_compressed:empty_size_dict"
        if err["exc"] == "IndexError" and inner in ("_find_tree_explicit", "_find_path_explicit_path") \
                and "tuple index out of range" in err["msg"]:
            return "interface:empty_explicit_path"
        return None

    def timeout_key(self, rec, confirm):
        key = confirm(rec) if confirm else None
        if key is None and len(rec.get("inputs", [0, 0])) == 1 and (
                rec.get("method") in ("labels", "kahypar", "kahypar-balanced") or rec.get("which") == "divide"
                or rec.get("preset") in ("hyper", "hyper-labels", "hyper-kahypar", "hyper-balanced", "hyper-256")):
            # PartitionTreeBuilder.build_divide: the root of a 1-tensor tree is a leaf, yet it is put in
            # tree.childless and never leaves it (the hyper presets run labels / kahypar trials)
            key = "build_divide:single_tensor_hang"
        return key

    def path(self, what, rec, n, path, ssa=False):
        ok = oracle.path_is_valid_linear(n, path) if not ssa else ssa_valid_py(n, path)
        if not ok:
            self.ctx.fail("%s: returned %s path is not a valid complete contraction path" % (
                what, "SSA" if ssa else "linear"), dict(rec, returned_path=path, N=n))
        fn = "ssa_path_valid" if ssa else "linear_path_valid"
        self.checker_cases.append(("%s path" % what, "%s %d %s" % (fn, n, path_lit(path)), "true"))
        self.checker_recs.append(dict(rec, what=what, returned_path=path, N=n, python_oracle=ok))
        self.ctx.count("paths_judged")

    def tree(self, what, rec, obs):
        n, ch = obs["N"], obs["children"]
        ok = children_complete(n, ch) and obs["oracle_complete"]
        if not ok:
            self.ctx.fail("%s: returned tree is not a complete contraction tree" % what,
                          dict(rec, children=ch, N=n, oracle_complete=obs["oracle_complete"]))
        self.checker_cases.append(("%s tree" % what, "tree_complete_b %d %s" % (n, ch_lit(ch)), "true"))
        self.checker_recs.append(dict(rec, what=what, children=ch, N=n, python_oracle=ok))
        self.ctx.count("trees_judged")

    def model(self, label, lhs, rhs, rec):
        self.model_cases.append((label, lhs, rhs))
        self.model_recs.append(rec)

    def failed_call(self, what, rec, res, confirm=None):
        """a call that raised, timed out or killed its worker"""
        ctx = self.ctx
        if "err" in res:
            key = self.classify(res["err"], rec)
            ctx.count("raised:" + res["err"]["exc"])
            ctx.fail("%s raised %s: %s" % (what, res["err"]["exc"], res["err"]["msg"]),
                     dict(rec, error=res["err"]), key=key)
        elif "timeout" in res:
            ctx.count("timeouts")
            key = res.get("key") if "key" in res else self.timeout_key(rec, confirm)
            ctx.fail("%s did not return within %.0fs (a call that does not return is not a contraction)" % (
                what, res["timeout"]), dict(rec, timeout_s=res["timeout"]), key=key)
        else:
            ctx.fail("%s killed its worker: %s" % (what, res.get("died")), dict(rec, died=res.get("died")))


def prefix_valid_py(n, path):
    m = n
    for s in path:
        s = list(s)
        if not s or len(set(s)) != len(s) or any(i < 0 or i >= m for i in s):
            return False
        m = m - len(s) + 1
    return True


def ssa_valid_py(n, path):
    avail = set(range(n))
    nxt = n
    for s in path:
        s = list(s)
        if not s or len(set(s)) != len(s) or any(i not in avail for i in s):
            return False
        avail -= set(s)
        avail.add(nxt)
        nxt += 1
    return len(avail) == 1


# ===========================================================================
def run(ctx):
    if not standard_proof_steps(ctx, targets=["Model/Processor.vo"]):
        return
    rng = ctx.rng
    pool = Pool(int(os.environ.get("C05_PROCS", "14")), TIMEOUT)
    J = Judge(ctx)
    try:
        _run(ctx, rng, pool, J)
    finally:
        pool.close()


def _run(ctx, rng, pool, J):
    sp = pool.run([{"fn_kind": "space"}])[0]
    if "ok" not in sp:
        ctx.fail("cannot read the registered search spaces", {"result": sp}, found_input=False)
        return
    space, consts = sp["ok"]["space"], sp["ok"]["constants"]
    ctx.meta["registered_presets"] = sp["ok"]["presets_path"]
    ctx.meta["registered_hyper"] = sorted(space)
    missing = [m for m in HYPER_METHODS if m not in space] + \
              [p for p in PRESETS_CORE + PRESETS_HYPER if p not in sp["ok"]["presets_path"]]
    if missing:
        ctx.fail("registered optimizers named by the property are gone: %r" % (missing,), {"missing": missing},
                 found_input=False)

    # the agglomerative hang is confirmed (not guessed) by re-running the builder with a
    # partition function that raises as soon as a round merges nothing
    def confirm_agglom(rec):
        if rec.get("method") not in ("labels-agglom", "kahypar-agglom"):
            return None
        fnname = "labels" if rec["method"].startswith("labels") else "kahypar"
        base = {k: rec[k] for k in ("inputs", "output", "size_dict")}
        ts = []
        for attempt in range(16):
            if rec.get("params") is not None:
                opts = dict(rec["params"])
            else:   # HyperOptimizer sampled them: sample the registered space the same way
                opts = _sample_space(random.Random(rec.get("seed", 0) + attempt), space[rec["method"]])
            opts.pop("random_strength", None)
            ts.append(dict(fn_kind="builder", which="agglom", fn=fnname, detect=True, seed=rec.get("seed", 0) + attempt,
                           opts=opts, timeout=TIMEOUT, **base))
        for r in pool.run(ts):
            if "ok" in r and "no_progress" in r["ok"]:
                rec["confirmed_mechanism"] = r["ok"]["no_progress"]
                return "build_agglom:no_progress_hang"
        return None

    tasks, meta = [], []

    def add(fkind, net, what, confirm=None, **kw):
        t = dict(fn_kind=fkind, inputs=[tuple(x) for x in net[0]], output=tuple(net[1]), size_dict=dict(net[2]),
                 seed=rng.randrange(2 ** 30), **kw)
        if "timeout" not in kw and len(net[0]) <= 9 and fkind in ("trial", "builder", "hyper") and \
                kw.get("optlib", "random") == "random":
            t["timeout"] = TIMEOUT / 4 if len(net[0]) == 1 else TIMEOUT / 2
        tasks.append(t)
        rec = dict(net_rec(net), call=what, seed=t["seed"], **{k: v for k, v in kw.items() if k != "timeout"})
        meta.append((fkind, what, rec, net, confirm))

    # ---- 0. known-finding probes (run every time) -------------------------------
    f17 = special_nets(rng)[-1]
    add("hyper", f17, "HyperOptimizer(methods=['labels-agglom'])", confirm=confirm_agglom, method="labels-agglom",
        repeats=8, timeout=min(TIMEOUT, 12))
    add("trial", f17, "trial labels-agglom", confirm=confirm_agglom, method="labels-agglom",
        params={"weight_edges": "log", "memory": -2, "pop_small_bias": 0.0, "pop_big_bias": 2.0,
                "pop_decay": 0.0, "con_pow": 0.0, "final_sweep": False}, timeout=min(TIMEOUT, 12))
    add("trial", ([()] * 12, (), {}), "trial labels (all scalar)", method="labels",
        params=_sample_space(random.Random(1), space["labels"]))
    add("trial", ([()] * 6, (), {}), "trial labels-agglom (all scalar)", confirm=confirm_agglom, method="labels-agglom",
        params=_sample_space(random.Random(1), space["labels-agglom"]))
    add("trial", ([()] * 13, (), {}), "trial kahypar-agglom(sub_optimize='greedy-compressed'), no index", method="kahypar-agglom",
        params={"weight_edges": "const", "imbalance": 0.01, "mode": "direct", "objective": "cut", "groupsize": 4,
                "fix_output_nodes": "", "compress": 0, "sub_optimize": "greedy-compressed"})
    add("hyper", special_nets(rng)[3], "HyperOptimizer(methods=['random'], optlib='cmaes')", method="random", repeats=2,
        optlib="cmaes")
    one = ([("a", "b")], ("a",), {"a": 2, "b": 3})
    add("trial", one, "trial labels, 1 tensor", method="labels", params=_sample_space(random.Random(2), space["labels"]))
    add("trial", one, "trial kahypar, 1 tensor", method="kahypar", params=_sample_space(random.Random(2), space["kahypar"]))
    add("rgreedy", one, "RandomGreedyOptimizer, 1 tensor", repeats=2)
    add("hyper", one, "HyperOptimizer(methods=['greedy']), 1 tensor", method="greedy", repeats=2)
    add("preset", ([("a", "b")], ("a",), {"a": 2, "b": 3}), "preset auto, 1 tensor", preset="auto")
    add("explicit", ([("a", "b")], ("a",), {"a": 2, "b": 3}), "explicit empty path, 1 tensor", kind="linear", path=[],
        public=True)

    # ---- 1. presets -------------------------------------------------------------
    nsmall = ctx.n(36, 400)
    for i in range(nsmall):
        net = draw_net(rng, ctx, small=True)
        for preset in PRESETS_CORE:
            add("preset", net, "preset %s" % preset, preset=preset)
    for i in range(ctx.n(6, 60)):
        net = draw_net(rng, ctx, small=rng.random() < 0.5)
        for preset in (["auto", "auto-hq", "greedy", "random", "random-greedy"] +
                       rng.sample(PRESETS_HYPER, ctx.n(1, 3))):
            add("preset", net, "preset %s" % preset, preset=preset, timeout=max(TIMEOUT, 60))

    # ---- 2. hyper methods: HyperOptimizer and direct trial functions ---------------
    for i in range(ctx.n(14, 150)):
        net = draw_net(rng, ctx, small=rng.random() < 0.45)
        for m in HYPER_METHODS:
            add("hyper", net, "HyperOptimizer(methods=[%r])" % m, confirm=confirm_agglom, method=m,
                repeats=rng.randint(1, 4), optlib="random")
    for i in range(ctx.n(3, 30)):
        net = draw_net(rng, ctx, small=False)
        m = rng.choice(HYPER_METHODS)
        add("hyper", net, "HyperOptimizer(methods=[%r], optlib=%s)" % (m, "cmaes"), confirm=confirm_agglom, method=m,
            repeats=4, optlib=rng.choice(["cmaes", "nevergrad", "skopt"]), timeout=max(TIMEOUT, 60))
    for i in range(ctx.n(40, 500)):
        net = draw_net(rng, ctx, small=rng.random() < 0.4)
        for m in HYPER_METHODS:
            params = _sample_space(rng, space[m], extreme=rng.random() < 0.3)
            add("trial", net, "trial %s" % m, confirm=confirm_agglom, method=m, params=params)

    # ---- 3. RandomGreedyOptimizer ------------------------------------------------------
    for i in range(ctx.n(30, 300)):
        net = draw_net(rng, ctx, small=rng.random() < 0.7)
        add("rgreedy", net, "RandomGreedyOptimizer", repeats=rng.randint(1, 6), simplify=rng.random() < 0.8)

    for i in range(ctx.n(40, 600)):
        net = draw_net(rng, ctx, small=rng.random() < 0.8)
        add("random", net, "RandomOptimizer")

    # ---- 4. explicit paths ----------------------------------------------------------------
    for i in range(ctx.n(120, 1500)):
        net = draw_net(rng, ctx, small=True)
        n = len(net[0])
        kind = rng.choice(["linear", "linear", "ssa", "ssa", "edge"])
        if kind == "edge":
            ixs = sorted({ix for t in net[0] for ix in t})
            rng.shuffle(ixs)
            p = ixs[: rng.randint(0, len(ixs))] if rng.random() < 0.5 else ixs
            add("explicit", net, "explicit edge path", kind="edge", path=p, public=bool(p) and n >= 1)
        else:
            p, complete = rand_multi_path(rng, n, kind == "ssa")
            add("explicit", net, "explicit %s path" % kind, kind=kind, path=p,
                public=(kind == "linear" and complete and (len(p) > 0)))

    # ---- 5. deterministic processor parts ---------------------------------------------------
    for i in range(ctx.n(150, 2500)):
        net = draw_net(rng, ctx, small=rng.random() < 0.85)
        add("processor", net, "ContractionProcessor", greedy=True, simplify_first=rng.random() < 0.7,
            search_outer=rng.random() < 0.3)

    # ---- 6. partition builders with recorded partitions ------------------------------------------
    for i in range(ctx.n(60, 800)):
        net = draw_net(rng, ctx, small=rng.random() < 0.5)
        fn = rng.choice(["labels", "kahypar"])
        if rng.random() < 0.55:
            opts = {"cutoff": rng.choice([1, 2, 3, 4, 10]), "parts": rng.choice([2, 2, 3, 5, 16]),
                    "parts_decay": rng.choice([0.0, 0.5, 1.0]), "random_strength": rng.choice([0.0, 0.01, 1.0])}
            if fn == "kahypar" and rng.random() < 0.5:
                opts.update(imbalance=rng.uniform(0.01, 1.0), imbalance_decay=rng.uniform(-5, 5))
            if fn == "kahypar" and rng.random() < 0.4:
                opts["fix_output_nodes"] = rng.choice(["auto", ""])
            add("builder", net, "build_divide(%s)" % fn, which="divide", fn=fn, opts=opts,
                method=fn if fn == "labels" else "kahypar", params=opts)
        else:
            opts = {"groupsize": rng.choice([2, 3, 4, 8])}
            add("builder", net, "build_agglom(%s)" % fn, confirm=confirm_agglom, which="agglom", fn=fn, opts=opts,
                method=fn + "-agglom", params=opts)

    ctx.log("running %d implementation calls in worker processes" % len(tasks))
    results = pool.run(tasks)
    ctx.log("calls done")

    # a wall-clock limit can be exceeded on a loaded machine: a timeout that is not explained by a known
    # hang is re-run once, alone, with three times the limit before it is reported
    for ti, ((kind, what, rec, net, confirm), res) in enumerate(zip(meta, results)):
        if "timeout" in res:
            key = J.timeout_key(rec, confirm)
            if key is None:
                ctx.count("timeout_retries")
                res2 = pool.run([dict(tasks[ti], timeout=3 * tasks[ti].get("timeout", TIMEOUT))])[0]
                if "timeout" not in res2:
                    results[ti] = res2
                    ctx.count("timeout_retry_returned")
                    continue
                res = res2
            res["key"] = key
            results[ti] = res

    for (kind, what, rec, net, confirm), res in zip(meta, results):
        f = feats(ctx, net)
        n = len(net[0])
        ctx.count("call:" + kind)
        ctx.case((kind, what, netkey(net), repr(sorted((k, repr(v)) for k, v in rec.items() if k not in
                                                          ("inputs", "output", "size_dict", "seed")))),
                 nontrivial=n >= 3 or bool(f & {"all_scalar", "disconnected", "scalar"}),
                 sample=dict(rec) if len(ctx.coverage["samples"]) < 6 and n >= 3 else None)
        if "ok" not in res:
            J.failed_call(what, rec, res, confirm)
            continue
        o = res["ok"]
        for sub_what, err in o.get("errors", []):
            J.failed_call("%s: %s" % (what, sub_what), rec, {"err": err}, confirm)
        if kind in ("preset", "hyper", "rgreedy"):
            J.path(what, rec, n, o["path"])
        if kind == "rgreedy":
            J.path(what + " best_ssa_path", rec, n, o["ssa_path"], ssa=True)
        if kind in ("preset", "hyper", "trial", "rgreedy", "builder", "explicit") and "tree" in o:
            J.tree(what, rec, o["tree"])
            J.path(what + " tree.get_path()", rec, n, o["tree_path"])
        if kind == "preset" and "tree_pub" in o:
            J.tree(what + " (array_contract_tree)", rec, o["tree_pub"])
        if kind == "trial":
            J.path(what + " tree.get_ssa_path()", rec, n, o["ssa_path"], ssa=True)
        if kind == "explicit":
            judge_explicit(ctx, J, what, rec, net, o)
        if kind == "processor":
            judge_processor(ctx, J, what, rec, net, o)
        if kind == "random":
            J.path(what, rec, n, o["path"])
            J.tree(what, rec, o["tree"])
            J.path(what + " tree.get_path()", rec, n, o["tree_path"])
            J.model("RandomOptimizer.__call__ replayed with its recorded random numbers",
                    "random_optimizer_path %d %s" % (n, coq([v for _, _, v in o["draws"]])), "(Some %s)" % path_lit(o["path"]),
                    dict(rec, draws=o["draws"], impl=o["path"]))
            if any(not (a == 0 and a <= v <= b) for a, b, v in o["draws"]):
                ctx.fail("RandomOptimizer drew outside randint(0, Nrem)", dict(rec, draws=o["draws"]), found_input=False)
            ctx.count("random_optimizer_replayed")
        if kind == "builder":
            judge_builder(ctx, J, what, rec, net, o, confirm)

    # ---- exhaustive small spaces (thorough) / a slice of them (quick): every linear path of
    # pairwise steps for n <= 4 (5), the checker must accept exactly the executable ones
    exhaustive_paths(ctx, J)

    ctx.log("evaluating %d checker cases and %d model cases inside Coq" % (len(J.checker_cases), len(J.model_cases)))
    failing = ctx.coq_cases("c05_checkers", ["PathValid"], J.checker_cases, chunk=400)
    for idx, label, val in failing:
        rec = dict(J.checker_recs[idx]) if idx < len(J.checker_recs) else {}
        rec["coq_value"] = val
        # the verified checker rejected an object the implementation returned: by the soundness
        # direction this alone is not a proof of a violation, but the Python oracle judged the
        # same object; a disagreement between the two is reported without failing input
        ctx.fail("verified checker (Coq) rejects a returned object: %s" % label, rec,
                 found_input=not rec.get("python_oracle", True))
    failing = ctx.coq_cases("c05_model", ["PathValid", "Processor"], J.model_cases, chunk=150)
    for idx, label, val in failing:
        rec = dict(J.model_recs[idx]) if idx < len(J.model_recs) else {}
        rec["model_value"] = val
        rec["correspondence"] = label
        ctx.fail("model and implementation disagree: %s" % label, rec, found_input=False)

    ctx.coverage["rule"] = (
        "networks: the corner cases the property names (1/2 tensors, all-scalar, index-free, disconnected, batch index, "
        "hadamard groups, finding-17 input), scalar-heavy nets, rand_net N=1..9 (hyper/repeated/scalar/disconnected/size-1) "
        "and N=9..26/44 nets for the partition builders; x every core preset, a sample of the hyper presets, every "
        "registered exact hyper method through HyperOptimizer (optlib random + cmaes/nevergrad/skopt) and through its "
        "trial function with parameters sampled from the registered space (30% at the range ends); explicit linear/SSA "
        "paths with 1-, 2- and multi-way steps (complete and partial) and edge paths; non-trivial = N>=3 or a "
        "scalar/disconnected feature; distinct by (call, network, parameters)")
    ctx.assumptions = [
        "kahypar and the optimizer libraries (cmaes, nevergrad, skopt) are oracles: their outputs are judged, not modelled",
        "from_path_complete assumes find_path returns a valid pairwise path for a >=3-way contraction (checked on every "
        "recorded call by the table oracle)",
        "partition_builder theorems quantify over membership functions of the subgraph (each subgraph is partitioned "
        "at most once per run) of the right length",
        "correspondence is executed, not proved (hand-written model)",
    ]
    ctx.trusted.append("worker-process pool with wall-clock limit (harness/props/c05.py)")


def rand_multi_path(rng, n, ssa):
    """random valid path with 1-, 2- and multi-way steps; maybe stops early (partial)"""
    if ssa:
        live = list(range(n))
        nxt = n
    m = n
    p = []
    stop_at = 1 if rng.random() < 0.7 else rng.randint(1, max(1, n))
    while m > stop_at:
        r = rng.random()
        k = 2 if r < 0.7 else (1 if r < 0.78 else rng.randint(3, max(3, min(m, 5))))
        k = min(k, m)
        if ssa:
            s = rng.sample(live, k)
            for i in s:
                live.remove(i)
            live.append(nxt)
            nxt += 1
        else:
            s = rng.sample(range(m), k)
        p.append(s)
        m = m - k + 1
        if k == 1 and rng.random() < 0.5:
            break
    return p, m == 1


def judge_explicit(ctx, J, what, rec, net, o):
    n = len(net[0])
    kind, p = rec["kind"], rec["path"]
    tbl = subs_table_lit(o["subs"])
    want = "(Some %s)" % nested_lit(o["nested"])
    if kind == "linear":
        J.model("from_path(path=) vs from_path_linear", "from_path_linear (sub_of_table %s) %d %s" % (tbl, n, path_lit(p)),
                want, dict(rec, impl_nested=o["nested"], subs=o["subs"]))
        ctx.count("explicit_linear")
    elif kind == "ssa":
        J.model("from_path(ssa_path=) vs from_path_ssa", "from_path_ssa (sub_of_table %s) %d %s" % (tbl, n, path_lit(p)),
                want, dict(rec, impl_nested=o["nested"], subs=o["subs"]))
        ctx.count("explicit_ssa")
    else:
        # edge paths: the derived SSA path must be a valid prefix, and the tree is from_path_ssa of it
        J.model("from_path(edge_path=) vs from_path_ssa(edge_path_to_ssa)",
                "from_path_ssa (sub_of_table %s) %d %s" % (tbl, n, path_lit(o["edge_ssa"])), want,
                dict(rec, impl_nested=o["nested"], subs=o["subs"], edge_ssa=o["edge_ssa"]))
        J.model("edge_path_to_linear = ssa_to_linear(edge_path_to_ssa)",
                "ssa_to_linear %d %s" % (n, path_lit(o["edge_ssa"])), "(Some %s)" % path_lit(o["edge_linear"]),
                dict(rec, edge_ssa=o["edge_ssa"], edge_linear=o["edge_linear"]))
        J.checker_cases.append(("edge path: derived ssa path is a valid prefix",
                                "ssa_path_prefix_valid %d %s" % (n, path_lit(o["edge_ssa"])), "true"))
        J.checker_recs.append(dict(rec, edge_ssa=o["edge_ssa"], python_oracle=True))
        ctx.count("explicit_edge")
    if any(len(s) >= 3 for s in (p if kind != "edge" else o["edge_ssa"])):
        ctx.count("explicit_multiway")
    if any(len(s) == 1 for s in (p if kind != "edge" else [])):
        ctx.count("explicit_single_step")
    for s in o["subs"]:
        J.checker_cases.append(("find_path inside contract_nodes returns a valid pairwise path",
                                "binary_path_valid %d %s" % (s["k"], path_lit(s["path"])), "true"))
        J.checker_recs.append(dict(rec, sub=s, python_oracle=oracle.path_is_valid_linear(s["k"], s["path"])))
    J.path(what + " tree.get_ssa_path()", rec, n, o["tree_ssa_path"], ssa=True)
    if "pub_path" in o:
        if kind == "edge":
            # an edge path cannot join disconnected components: the returned linear path is judged as a
            # valid prefix (positions exist), the tree (which autocompletes) as a complete contraction
            J.checker_cases.append(("edge path: returned linear path is a valid prefix",
                                    "linear_path_prefix_valid %d %s" % (n, path_lit(o["pub_path"])), "true"))
            J.checker_recs.append(dict(rec, returned_path=o["pub_path"], python_oracle=prefix_valid_py(n, o["pub_path"])))
            if not prefix_valid_py(n, o["pub_path"]):
                ctx.fail("%s: array_contract_path returned a path referencing positions that do not exist" % what,
                         dict(rec, returned_path=o["pub_path"]))
        else:
            J.path(what + " array_contract_path", rec, n, o["pub_path"])
        J.tree(what + " array_contract_tree", rec, o["pub_tree"])


def legs_lit(legs):
    return coq([(int(ix), int(c)) for ix, c in legs])


def cp_lit(o):
    """the model's own __init__ (proved well formed) on the indmap-numbered network"""
    from vlib.core import Z
    return "(cp_init %s %s %s)" % (coq([list(t) for t in o["ix_inputs"]]), coq(list(o["ix_output"])),
                                    coq([Z(s) for s in o["sizes"]]))


def cp_real_fields(o):
    nodes = "[" + "; ".join("(%d, %s)" % (i, legs_lit(l)) for i, l in o["init_nodes"]) + "]"
    edges = "[" + "; ".join("(%d, %s)" % (ix, coq(list(ns))) for ix, ns in o["init_edges"]) + "]"
    return "(%s, (%s, %s))" % (nodes, edges, coq(list(o["appearances"])))


def nested_pos_lit(t):
    if isinstance(t, int):
        return "(Leaf %d)" % t
    return "(Node %s %s)" % (nested_pos_lit(t[0]), nested_pos_lit(t[1]))


def orders_lit(orders):
    return coq([[list(k) for k in rnd] for rnd in orders])


def judge_processor(ctx, J, what, rec, net, o):
    n = len(net[0])
    cp = cp_lit(o)
    ords = orders_lit(o["orders"])
    J.model("ContractionProcessor.__init__: nodes, edges, appearances", "let c := %s in (cp_nodes c, (cp_edges c, cp_app c))" % cp,
            cp_real_fields(o), dict(rec, ix_inputs=o["ix_inputs"], ix_output=o["ix_output"]))
    for rnd in o["orders"] + o["rem_orders"] + o.get("opt_orders", []):
        if len({tuple(k) for k in rnd}) != len(rnd):      # hypothesis orders_ok of the pipeline theorems
            ctx.fail("the recorded iteration of the `hadamards` set repeats a key", dict(rec, order=rnd), found_input=False)
    if "opt_comps" in o:
        comps = "[" + "; ".join("(%s, %s)" % (coq(list(wh)), nested_pos_lit(t)) for wh, t in o["opt_comps"]) + "]"
        base = ("cp_simplify %s %s" % (orders_lit(o["opt_orders"]), cp)) if o["opt_simplified"] else cp
        J.model("(simplify +) optimize_optimal replayed from the DP's trees + optimize_remaining_by_size: ssa_path, ok, one node; "
                "hypothesis comps_ok (each tree covers the positions of its component)",
                "let c := cp_remaining (cp_optimal %s (%s)) in (cp_path c, (cp_ok c, (length (cp_nodes c), "
                "forallb (fun wt => perm_seq_b (leaves (snd wt)) (length (fst wt))) %s)))" % (comps, base, comps),
                "(%s, (true, (1, true)))" % path_lit(o["opt_full_ssa"]),
                dict(rec, impl=o["opt_full_ssa"], comps=o["opt_comps"], orders=o["opt_orders"]))
        J.path("%s optimal pipeline ssa" % what, rec, n, o["opt_full_ssa"], ssa=True)
        if not o["opt_steps_consumed"]:
            ctx.fail("optimize_optimal made a number of contractions that is not sum(len(component) - 1)", dict(rec), found_input=False)
        ctx.count("optimal_pipeline_replayed")
    nodes_want = "[" + "; ".join("(%d, %s)" % (i, legs_lit(l)) for i, l in o["simp_nodes"]) + "]"
    J.model("ContractionProcessor.simplify: ssa_path and nodes",
            "let c := cp_simplify %s %s in (cp_path c, cp_nodes c)" % (ords, cp),
            "(%s, %s)" % (path_lit(o["simp_ssa"]), nodes_want), dict(rec, impl=o["simp_ssa"], orders=o["orders"]))
    if o["simp_public"] != o["simp_ssa"]:
        ctx.fail("optimize_simplify differs from ContractionProcessor.simplify", dict(rec, a=o["simp_public"], b=o["simp_ssa"]),
                 found_input=False)
    if "greedy_ssa" in o:
        J.model("simplify + optimize_greedy(costmod=1, temperature=0): ssa_path",
                "cp_path (cp_greedy (cp_simplify %s %s))" % (ords, cp), path_lit(o["greedy_ssa"]),
                dict(rec, impl=o["greedy_ssa"], orders=o["orders"]))
        # also the run-time hypotheses of C05_pipeline_valid: fresh processor, no KeyError flagged, one node left
        J.model("simplify + greedy + optimize_remaining_by_size: ssa_path, ok flag, one node left, fresh start",
                "let c0 := %s in let c := cp_remaining (cp_greedy (cp_simplify %s c0)) in "
                "(cp_path c, (cp_ok c, (length (cp_nodes c), (map fst (cp_nodes c0), cp_ssa c0))))" % (cp, ords),
                "(%s, (true, (1, (seq 0 %d, %d))))" % (path_lit(o["full_ssa"]), n, n),
                dict(rec, impl=o["full_ssa"], orders=o["orders"]))
        if o["public_greedy_ssa"] != o["full_ssa"]:
            ctx.fail("optimize_greedy(use_ssa=True) differs from the processor passes it is made of",
                     dict(rec, a=o["public_greedy_ssa"], b=o["full_ssa"]), found_input=False)
    J.model("(simplify +) optimize_remaining_by_size: ssa_path",
            "cp_path (cp_remaining (%s))" % (("cp_simplify %s %s" % (orders_lit(o["rem_orders"]), cp))
                                             if o["rem_simplified"] else cp),
            path_lit(o["rem_ssa"]), dict(rec, impl=o["rem_ssa"], orders=o["rem_orders"]))
    J.model("ssa_to_linear", "ssa_to_linear %d %s" % (n, path_lit(o["full_ssa"])), "(Some %s)" % path_lit(o["full_linear"]),
            dict(rec, ssa=o["full_ssa"], impl=o["full_linear"]))
    J.model("linear_to_ssa", "linear_to_ssa %d %s" % (n, path_lit(o["full_linear"])), "(Some %s)" % path_lit(o["back_ssa"]),
            dict(rec, linear=o["full_linear"], impl=o["back_ssa"]))
    if o["full_linear_noN"] != o["full_linear"]:
        ctx.fail("ssa_to_linear(ssa_path) without N differs from ssa_to_linear(ssa_path, N)",
                 dict(rec, a=o["full_linear_noN"], b=o["full_linear"]))
    for name, ssa in (("full", True), ("rem", True), ("public_greedy", False), ("optimal", False), ("optimal_outer", False),
                      ("optimal_nosimp", False)):
        if name in ("full", "rem"):
            J.path("%s %s_ssa" % (what, name), rec, n, o[name + "_ssa"], ssa=True)
        elif name in o:
            J.path("%s %s" % (what, name), rec, n, o[name])
            if name + "_ssa" in o:
                J.path("%s %s_ssa" % (what, name), rec, n, o[name + "_ssa"], ssa=True)
    if any(len(s) == 1 for s in o["simp_ssa"]):
        ctx.count("simplify_single_term_steps")
    if any(o["orders"]) and any(len(r) for r in o["orders"]):
        ctx.count("hadamard_groups")
    if len(o.get("greedy_nodes", [0])) > 1:
        ctx.count("greedy_leftovers")


def judge_builder(ctx, J, what, rec, net, o, confirm):
    n = len(net[0])
    if "no_progress" in o:
        return
    which = rec["which"]
    tbl = subs_table_lit(o["subs"])
    want = "(Some %s)" % nested_lit(o["nested"])
    if which == "divide":
        ctx.count("divide_partition_calls", len(o["calls"]))
        if any(len(set(c["membership"])) == 1 for c in o["calls"]):
            ctx.count("divide_one_community")
        if any(len(set(c["membership"])) >= c["n"] for c in o["calls"]):
            ctx.count("divide_parts_ge_nodes")
    else:
        ctx.count("agglom_partition_calls", len(o["calls"]))
    for sp in o["seps"]:
        J.model("core.separate", "separate (seq 0 %d) %s" % (sp["k"], coq(list(sp["blocks"]))),
                coq([list(g) for g in sp["groups"]]), dict(rec, separate=sp))
    if which == "agglom":
        # the whole loop, replayed with the recorded partition of each round
        mt = "[" + "; ".join("(%s, %s)" % (coq([list(x) for x in sp["xs"]]), coq(list(sp["blocks"])))
                             for sp in o["seps"]) + "]"
        term = "build_agglom (sub_of_table %s) (memb_of_table %s) %d %d" % (tbl, mt, rec["opts"]["groupsize"], n)
        if any(len(sp["groups"]) >= sp["k"] for sp in o["seps"]):
            ctx.count("agglom_no_progress_round_break")
        J.model("build_agglom with the recorded partitions vs the tree built", term, want,
                dict(rec, impl_nested=o["nested"], seps=o["seps"], subs=o["subs"]))
        ctx.count("agglom_replayed")
    for s in o["subs"]:
        J.checker_cases.append(("find_path inside contract_nodes returns a valid pairwise path",
                                "binary_path_valid %d %s" % (s["k"], path_lit(s["path"])), "true"))
        J.checker_recs.append(dict(rec, sub=s, python_oracle=oracle.path_is_valid_linear(s["k"], s["path"])))
    for c in o["calls"]:
        if len(c["membership"]) != c["n"]:
            ctx.fail("partition function returned a membership of the wrong length (assumption of partition_builder_complete)",
                     dict(rec, call=c), found_input=False)


def exhaustive_paths(ctx, J):
    """all pairwise linear paths over n <= 4 (quick) / 5 (thorough) tensors incl. invalid ones:
    the Coq checker, the Python oracle and the real from_path (in-process: pure data) agree"""
    import itertools
    nmax = ctx.n(4, 5)
    cnt = 0
    for n in range(1, nmax + 1):
        def rec(m, acc):
            nonlocal cnt
            if len(acc) == n - 1:
                ok = oracle.path_is_valid_linear(n, acc)
                J.checker_cases.append(("exhaustive checker agreement n=%d" % n,
                                        "linear_path_valid %d %s" % (n, path_lit(acc)), "true" if ok else "false"))
                J.checker_recs.append({"N": n, "path": list(acc), "python_oracle": True, "what": "exhaustive"})
                cnt += 1
                return
            # positions 0..m (one out of range on purpose)
            for i, j in itertools.product(range(m + 1), repeat=2):
                if len(acc) == 0 or (i <= j):
                    rec(max(m - 1, 1), acc + [[i, j]])
        if n >= 2:
            rec(n, [])
        else:
            J.checker_cases.append(("exhaustive n=1", "linear_path_valid 1 []", "true"))
            J.checker_recs.append({"N": 1, "path": [], "python_oracle": True})
    ctx.count("exhaustive_checker_paths", cnt)


if __name__ == "__main__":
    main(PROP, run)

"""C19 -- exponent stripping preserves the value and survives scales that overflow floats.

Three layers, every run:
  oracle          the real float contraction with strip_exponent=True (tree.contract on networks x
                  paths x sliced index sets x per-tensor decimal scales 10^s, s in [-100, 100];
                  einsum / array_contract; single-tensor networks; gen_output_chunks) against an
                  EXACT reference (vlib.oracle.dense_einsum on the integer parts, times 10^(sum s)),
                  compared in 60-digit Decimal arithmetic: finite, and equal to 1e-9 relative.
  exact run       the SAME real code (Contractor, add_maybe_exponent_stripped, gather_slices, the bmm
                  kernels) run on numpy object arrays of `X` = exact rationals + IEEE specials, with the
                  exponent carried as an exact antilog (`L`): no rounding at all.
  correspondence  Model/Exponent.v's exact-IEEE instance evaluated inside Coq (vm_compute) on the same
                  program (kernels as index tables built here from the einsum / tensordot recipes) and
                  the same slices must reproduce the exact run's per-step factors, per-step max|mantissa|
                  and final (mantissa, exponent) EXACTLY; and the float run's per-step factors, mantissas
                  and exponent must agree with the exact run to 1e-9 (the IEEE-754 residue).
"""
import itertools
import math
import sys
import warnings
from decimal import Decimal, getcontext
from fractions import Fraction

from vlib import gen, oracle
from vlib.core import main, standard_proof_steps

PROP = "C19"
getcontext().prec = 60
RTOL = Decimal("1e-9")


# ---------------------------------------------------------------------------
# exact numbers with IEEE-754 special values (mirror of Model/Exponent.v `xq`)
class X:
    __slots__ = ("k", "q")

    def __init__(self, k, q=None):
        self.k = k
        self.q = q

    # -- helpers
    def sign(self):
        if self.k == "f":
            return (self.q > 0) - (self.q < 0)
        return {"pinf": 1, "ninf": -1}.get(self.k)

    def __repr__(self):
        return "X(%s)" % (self.q if self.k == "f" else self.k)

    # -- arithmetic
    def __add__(self, o):
        if getattr(o, "ndim", 0):
            return NotImplemented      # let the ndarray broadcast
        o = tox(o)
        if self.k == "nan" or o.k == "nan":
            return NAN
        if self.k == "f" and o.k == "f":
            return X("f", self.q + o.q)
        if {self.k, o.k} == {"pinf", "ninf"}:
            return NAN
        if "pinf" in (self.k, o.k):
            return PINF
        return NINF

    __radd__ = __add__

    def __mul__(self, o):
        if getattr(o, "ndim", 0):
            return NotImplemented      # let the ndarray broadcast
        o = tox(o)
        if self.k == "nan" or o.k == "nan":
            return NAN
        if self.k == "f" and o.k == "f":
            return X("f", self.q * o.q)
        return inf_of_sign(self.sign() * o.sign())

    __rmul__ = __mul__

    def __neg__(self):
        return self * X("f", Fraction(-1))

    def __sub__(self, o):
        if getattr(o, "ndim", 0):
            return NotImplemented
        return self + (-tox(o))

    def __rsub__(self, o):
        return tox(o) + (-self)

    def __truediv__(self, o):
        if getattr(o, "ndim", 0):
            return NotImplemented      # let the ndarray broadcast
        o = tox(o)
        if self.k == "nan" or o.k == "nan":
            return NAN
        if self.k == "f" and o.k == "f":
            if o.q == 0:
                return inf_of_sign(self.sign())
            return X("f", self.q / o.q)
        if self.k == "f":
            return X("f", Fraction(0))
        if o.k == "f":
            return inf_of_sign(self.sign() * (1 if o.q == 0 else o.sign()))
        return NAN

    def __rtruediv__(self, o):
        return tox(o) / self

    def __abs__(self):
        if self.k == "f":
            return X("f", abs(self.q))
        if self.k == "nan":
            return NAN
        return PINF

    # -- comparisons: IEEE for > and <;  >= is what numpy's object `maximum` loop uses
    # (a if a >= b else b), made NaN-propagating like np.max on floats
    def gt(self, o):
        if self.k == "nan" or o.k == "nan":
            return False
        if self.k == "f" and o.k == "f":
            return self.q > o.q
        if self.k == "pinf":
            return o.k != "pinf"
        if o.k == "pinf":
            return False
        if self.k == "ninf":
            return False
        return o.k == "ninf"

    def __gt__(self, o):
        return self.gt(tox(o))

    def __lt__(self, o):
        return tox(o).gt(self)

    def __ge__(self, o):
        o = tox(o)
        if self.k == "nan":
            return True
        if o.k == "nan":
            return False
        return not o.gt(self)

    def __eq__(self, o):
        try:
            o = tox(o)
        except TypeError:
            return NotImplemented
        if self.k == "nan" or o.k == "nan":
            return False
        return self.k == o.k and self.q == o.q

    def __hash__(self):
        return hash((self.k, self.q))

    def same(self, o):
        return self.k == o.k and self.q == o.q

    def __float__(self):
        if self.k == "f":
            try:
                return float(self.q)
            except OverflowError:
                return math.inf if self.q > 0 else -math.inf
        return {"nan": math.nan, "pinf": math.inf, "ninf": -math.inf}[self.k]

    # numpy's object loop of np.log10 calls this method
    def log10(self):
        if self.k == "f":
            return L(self if self.q >= 0 else NAN)
        if self.k == "ninf":
            return L(NAN)
        return L(self)

    def coq(self):
        if self.k == "f":
            n, d = self.q.numerator, self.q.denominator
            a = b = 0
            if n:
                sn, sd = str(abs(n)), str(d)
                a, b = len(sn) - len(sn.rstrip("0")), len(sd) - len(sd.rstrip("0"))
                n, d = n // 10 ** a, d // 10 ** b
            if a == 0 and b == 0:
                return "(q (%d)%%Z %d%%positive)" % (n, d)
            return "(qe (%d)%%Z (%d)%%Z %d%%positive (%d)%%Z)" % (n, a, d, b)
        return {"nan": "XNaN", "pinf": "XPInf", "ninf": "XNInf"}[self.k]


# autoray picks the backend from the module of an operand's class; a bare X (0-d result inside the bmm kernels)
# must dispatch to numpy like the object arrays that hold it
X.__module__ = "numpy"
NAN, PINF, NINF = X("nan"), X("pinf"), X("ninf")


def inf_of_sign(s):
    return NAN if s == 0 else (PINF if s > 0 else NINF)


def tox(v):
    if isinstance(v, X):
        return v
    if isinstance(v, (bool,)) or (hasattr(v, "dtype") and getattr(v.dtype, "kind", "") == "b"):
        return X("f", Fraction(int(bool(v))))
    if isinstance(v, (int, Fraction)):
        return X("f", Fraction(v))
    if hasattr(v, "dtype") and getattr(v, "shape", None) == () and v.dtype == object:
        return tox(v.item())
    if isinstance(v, float) or hasattr(v, "dtype"):
        v = float(v)
        if math.isnan(v):
            return NAN
        if math.isinf(v):
            return PINF if v > 0 else NINF
        return X("f", Fraction(v))
    raise TypeError("no exact value for %r" % (v,))


class L:
    """an exponent, carried as its exact antilog 10^e (an X >= 0): e + log10 f is E*f,
    10 ** (a - b) is A/B, -inf is 0, max is max"""
    __slots__ = ("a",)

    def __init__(self, a):
        self.a = a

    def __repr__(self):
        return "L(%r)" % (self.a,)

    def __add__(self, o):
        return L(self.a * tol(o).a)

    __radd__ = __add__

    def __sub__(self, o):
        return L(self.a / tol(o).a)

    def __rsub__(self, o):
        return L(tol(o).a / self.a)

    def __gt__(self, o):
        return self.a.gt(tol(o).a)

    def __lt__(self, o):
        return tol(o).a.gt(self.a)

    def __rpow__(self, base):
        assert base == 10
        return self.a

    def __eq__(self, o):
        try:
            return self.a == tol(o).a
        except TypeError:
            return NotImplemented

    def __hash__(self):
        return hash(self.a)

    def log10_float(self):
        """the float exponent this stands for"""
        a = self.a
        if a.k == "f":
            if a.q == 0:
                return -math.inf
            return float(Decimal(a.q.numerator).log10() - Decimal(a.q.denominator).log10())
        return float(a)


def tol(v):
    if isinstance(v, L):
        return v
    v = float(v)
    if v == 0.0:
        return L(X("f", Fraction(1)))
    if v == -math.inf:
        return L(X("f", Fraction(0)))
    if v == math.inf:
        return L(PINF)
    if math.isnan(v):
        return L(NAN)
    raise TypeError("float exponent %r in the exact run" % (v,))


# ---------------------------------------------------------------------------
# kernels as index tables (independent reading of the einsum / tensordot recipes)
def flat(idx, shape):
    r = 0
    for i, d in zip(idx, shape):
        r = r * d + i
    return r


def prod(xs):
    p = 1
    for x in xs:
        p *= x
    return p


def table_einsum(eq, shapes):
    """eq 'ab,bc->ac' (or single term 'aab->b'); returns (rows, out_shape);
    rows[k] = list of (i, j) (or of i) flat positions whose products are summed into out[k]"""
    lhs, out = eq.split("->")
    terms = lhs.split(",")
    size = {}
    for t, sh in zip(terms, shapes):
        assert len(t) == len(sh), (eq, shapes)
        for c, d in zip(t, sh):
            assert size.setdefault(c, d) == d
    inner = [c for c in dict.fromkeys("".join(terms)) if c not in out]
    out_shape = tuple(size[c] for c in out)
    rows = []
    for ov in itertools.product(*[range(size[c]) for c in out]):
        env = dict(zip(out, ov))
        row = []
        for iv in itertools.product(*[range(size[c]) for c in inner]):
            env.update(zip(inner, iv))
            pos = tuple(flat([env[c] for c in t], sh) for t, sh in zip(terms, shapes))
            row.append(pos if len(pos) == 2 else pos[0])
        rows.append(row)
    return rows, out_shape


def table_tensordot(axes, perm, shl, shr):
    syms = iter(gen.SYMS)
    tl = [next(syms) for _ in shl]
    tr = [next(syms) for _ in shr]
    al, ar = axes
    for i, j in zip(al, ar):
        tr[j] = tl[i]
    out = [c for k, c in enumerate(tl) if k not in al] + [c for k, c in enumerate(tr) if k not in ar]
    if perm:
        out = [out[k] for k in perm]
    return table_einsum("%s,%s->%s" % ("".join(tl), "".join(tr), "".join(out)), [shl, shr])


def coq_rows(rows):
    def one(r):
        if r and isinstance(r[0], tuple):
            return "[" + ";".join("(%d,%d)" % ij for ij in r) + "]"
        return "[" + ";".join("%d" % i for i in r) + "]"
    return "[" + ";".join(one(r) for r in rows) + "]%N"


def coq_vec(arr):
    import numpy as np
    a = np.asarray(arr, dtype=object).reshape(-1)
    return "[" + "; ".join(tox(v).coq() for v in a) + "]"


def build_program(tree, contractions, leaf_shapes):
    """-> (coq literal of the program, node ids, list of (p,l,r) ids of the pair steps, kmax)"""
    N = tree.N
    ids = {frozenset([i]): i for i in range(N)}
    shapes = {frozenset([i]): tuple(leaf_shapes[i]) for i in range(N)}
    steps, pairs = [], []
    kmax = 1
    nxt = N
    for p, l, r, tdot, arg, perm in contractions:
        if l is None and r is None:
            rows, osh = table_einsum(arg, [shapes[p]])
            shapes[p] = osh
            steps.append("pre_step %d %s" % (ids[p], coq_rows(rows)))
            continue
        if tdot:
            rows, osh = table_tensordot(arg, perm, shapes[l], shapes[r])
        else:
            rows, osh = table_einsum(arg, [shapes[l], shapes[r]])
        kmax = max([kmax] + [len(x) for x in rows])
        ids[p] = nxt
        nxt += 1
        shapes[p] = osh
        steps.append("pair_step %d %d %d %s" % (ids[p], ids[l], ids[r], coq_rows(rows)))
        pairs.append((ids[p], ids[l], ids[r]))
    return "[" + "; ".join(steps) + "]", ids, pairs, kmax


# ---------------------------------------------------------------------------
class Recorder:
    """an (einsum, tensordot) implementation pair that records, for every pairwise call,
    max|left operand|, max|right operand| and max|raw result| (= the factor)"""

    def __init__(self):
        self.calls = []

    def _mx(self, a):
        import numpy as np
        a = np.asarray(a)
        if a.dtype == object:
            return tox(np.max(np.abs(a.reshape(-1))))
        with warnings.catch_warnings():
            warnings.simplefilter("ignore")
            return float(np.max(np.abs(a)))

    @staticmethod
    def _arr(a):
        # a fully sliced / fully contracted exact operand is a bare X: hand numpy a 0-d object array
        import numpy as np
        if isinstance(a, X):
            o = np.empty((), dtype=object)
            o[()] = a
            return o
        return a

    def einsum(self, eq, *xs):
        from cotengra.contract import einsum
        xs = tuple(self._arr(a) for a in xs)
        with warnings.catch_warnings():
            warnings.simplefilter("ignore")
            y = einsum(eq, *xs)
        if len(xs) == 2:
            self.calls.append((self._mx(xs[0]), self._mx(xs[1]), self._mx(y)))
        return y

    def tensordot(self, a, b, axes):
        from cotengra.contract import tensordot
        a, b = self._arr(a), self._arr(b)
        with warnings.catch_warnings():
            warnings.simplefilter("ignore")
            y = tensordot(a, b, axes)
        self.calls.append((self._mx(a), self._mx(b), self._mx(y)))
        return y

    @property
    def pair(self):
        return (self.einsum, self.tensordot)


def dec_of_fraction(fr):
    return Decimal(fr.numerator) / Decimal(fr.denominator)


def judge_value(m, e, ref, absmax):
    """float (m, e) against exact ref (dict flat position -> Fraction); returns None or a complaint.
    ref/absmax are Fractions; the comparison is done in Decimal(60) so nothing overflows."""
    import numpy as np
    m = np.asarray(m, dtype=float).reshape(-1)
    try:
        ef = float(e)
    except Exception as ex:  # noqa
        return "exponent is not a number: %r" % (e,)
    if not math.isfinite(ef):
        return "exponent not finite: %r" % (ef,)
    if not np.all(np.isfinite(m)):
        return "mantissa not finite: %r" % (m.tolist()[:8],)
    if len(m) != len(ref):
        return "result has %d entries, reference %d" % (len(m), len(ref))
    p10 = Decimal(10) ** Decimal(ef)
    tolabs = RTOL * dec_of_fraction(absmax)
    for k in range(len(m)):
        val = Decimal(float(m[k])) * p10
        rf = dec_of_fraction(ref[k])
        if abs(val - rf) > tolabs:
            return "entry %d: mantissa*10^exponent = %s, exact = %s (tolerance %s)" % (
                k, format(val, ".12E"), format(rf, ".12E"), format(tolabs, ".3E"))
    return None


def exact_reference(inputs, output, size_dict, ints, scales, fixed=None):
    """(ref list in C order of the output, max over entries of the einsum of |arrays|) as Fractions"""
    res = oracle.dense_einsum(inputs, output, size_dict, ints, fixed=fixed)
    import numpy as np
    absres = oracle.dense_einsum(inputs, output, size_dict,
                                 [np.array(np.abs(a), dtype=object).reshape(a.shape) for a in ints], fixed=fixed)
    out = [ix for ix in output if not fixed or ix not in fixed]
    sc = Fraction(10) ** sum(scales)
    ref, amax = [], Fraction(0)
    for ov in itertools.product(*[range(size_dict[ix]) for ix in out]):
        ref.append(Fraction(res.get(ov, 0)) * sc)
        amax = max(amax, Fraction(absres.get(ov, 0)) * sc)
    return ref, amax


def has_zero_slice(inputs, output, size_dict, ints, sliced):
    """some slice of the contraction (sliced indices pinned) is exactly zero -- judged by the oracle"""
    sliced = list(sliced)
    for vals in itertools.product(*[range(size_dict[ix]) for ix in sliced]):
        res = oracle.dense_einsum(inputs, output, size_dict, ints, fixed=dict(zip(sliced, vals)))
        if all(v == 0 for v in res.values()):
            return True
    return False


def draw_scales(rng, n):
    mode = rng.random()
    if mode < 0.2:
        return [rng.choice([100, 99, 90]) for _ in range(n)]
    if mode < 0.4:
        return [-rng.choice([100, 99, 90]) for _ in range(n)]
    if mode < 0.6:
        return [rng.choice([-100, 100]) for _ in range(n)]
    if mode < 0.7:
        return [rng.randint(-3, 3) for _ in range(n)]
    return [rng.randint(-100, 100) for _ in range(n)]


def draw_ints(rng, inputs, size_dict, zero_mode):
    """integer parts.  positive-only arrays in most cases (then the reference has no cancellation
    and the tolerance is exactly 1e-9 of the largest entry); zero_mode plants an all-zero
    hyperplane on one tensor (the way a slice / chunk becomes exactly zero)"""
    import numpy as np
    positive = rng.random() < 0.6
    arrs = []
    for t in inputs:
        shape = tuple(size_dict[ix] for ix in t)
        n = prod(shape)
        if positive:
            vals = [rng.randint(1, 4) for _ in range(n)]
        else:
            vals = [rng.choice([-3, -2, -1, 1, 2, 3] + ([0] if rng.random() < 0.15 else [])) for _ in range(n)]
        arrs.append(np.array(vals, dtype=object).reshape(shape))
    if zero_mode:
        cands = [(i, k) for i, t in enumerate(inputs) for k, ix in enumerate(t) if ix in zero_mode and size_dict[ix] > 1]
        if cands:
            i, k = rng.choice(cands)
            sel = [slice(None)] * len(inputs[i])
            sel[k] = rng.randrange(size_dict[inputs[i][k]])
            # repeated index on the same tensor: zero the whole hyperplane for that label
            for k2, ix in enumerate(inputs[i]):
                if ix == inputs[i][k]:
                    sel[k2] = sel[k]
            arrs[i][tuple(sel)] = 0
    return arrs, positive


def to_float_arrays(ints, scales):
    import numpy as np
    out = []
    for a, s in zip(ints, scales):
        f = np.array([float(Fraction(int(v)) * Fraction(10) ** s) for v in a.reshape(-1)], dtype=float)
        out.append(f.reshape(a.shape))
    return out


def to_exact_arrays(ints, scales):
    import numpy as np
    out = []
    for a, s in zip(ints, scales):
        o = np.empty(a.size, dtype=object)
        for k, v in enumerate(a.reshape(-1)):
            o[k] = X("f", Fraction(int(v)) * Fraction(10) ** s)
        out.append(o.reshape(a.shape))
    return out


def mant_lit(m):
    """a mantissa of the exact run -> Coq `mant xq` literal"""
    import numpy as np
    if isinstance(m, (float, int)):
        return "(MScal %s)" % tox(m).coq()
    return "(MArr %s)" % coq_vec(m)


def exp_lit(e):
    return tol(e).a.coq()


def run_case(ctx, ci, rng, cases, records, spec=None):
    PT = "true" if ctx.meta.get("patched") else "false"
    import cotengra as ctg
    import numpy as np
    from cotengra.contract import extract_contractions

    quick = ctx.quick
    # ---- the network, the tree, the sliced indices -----------------------------------
    if spec is not None:
        # a directed case (see DIRECTED): everything is given
        inputs = [tuple(t) for t in spec["inputs"]]
        output = tuple(spec["output"])
        size_dict = dict(spec["size_dict"])
        N = len(inputs)
        path = tuple(tuple(p) for p in spec["path"])
        tree = ctg.ContractionTree.from_path(inputs, output, size_dict, path=path)
        sliced = list(spec["sliced"])
        for ix in sliced:
            tree.remove_ind_(ix)
        scales = list(spec["scales"])
        ints = [np.array(a, dtype=object) for a in spec["int_arrays"]]
        positive = all(int(v) >= 0 for a in ints for v in a.reshape(-1))
        cz = bool(spec.get("check_zero", False))
        prefer_einsum = bool(spec.get("prefer_einsum", False))
        ctx.count("directed")
    else:
        while True:
            inputs, output, size_dict = gen.rand_net(rng, nmin=2, nmax=5 if quick else 6, max_ix=6, max_rank=3, dmax=3)
            if prod(size_dict[ix] for ix in {ix for t in inputs for ix in t}) <= 2500:
                break
        N = len(inputs)
        path = gen.rand_path(rng, N)
        tree = ctg.ContractionTree.from_path(inputs, output, size_dict, path=path)
        present = sorted({ix for t in inputs for ix in t})
        sliced = []
        cand = [ix for ix in present if size_dict[ix] > 1]
        if cand and rng.random() < 0.75:
            for ix in rng.sample(cand, rng.randint(1, min(3, len(cand)))):
                tree.remove_ind_(ix)
                sliced.append(ix)
        zero_mode = None
        zr = rng.random()
        if sliced and zr < 0.3:
            zero_mode = set(sliced)
        elif zr < 0.35:
            zero_mode = set(present)
        scales = draw_scales(rng, N)
        ints, positive = draw_ints(rng, inputs, size_dict, zero_mode)
        cz = rng.random() < 0.25
        prefer_einsum = rng.random() < 0.4
    out_sliced = [ix for ix in output if ix in tree.sliced_inds]
    inner_sliced = [ix for ix in tree.sliced_inds if ix not in output]
    rec = {"inputs": inputs, "output": output, "size_dict": size_dict, "path": path,
           "sliced": list(tree.sliced_inds), "scales": scales, "check_zero": cz,
           "prefer_einsum": prefer_einsum, "int_arrays": [a.tolist() for a in ints]}
    for f in gen.net_features(inputs, output, size_dict):
        ctx.count(f)
    ctx.count("sliced_inner" if inner_sliced else "no_inner_slice")
    if out_sliced:
        ctx.count("sliced_output")
    if cz:
        ctx.count("check_zero")
    ctx.count("positive_arrays" if positive else "mixed_sign_arrays")
    if abs(sum(scales)) > 300:
        ctx.count("sum_of_scales_beyond_float64")
        if out_sliced:
            # total magnitude outside 1e+-308 AND a sliced output index: the rescaling `mi * 10**(ei - emax)` must
            # use the difference of exponents (a hoisted 10**-emax overflows / underflows here)
            ctx.count("beyond_float64_with_sliced_output")
    # the first pairwise steps that contract two leaves directly: |s_l + s_r| > 154 makes the squares of the raw
    # product leave the float64 range (a norm-based factor would overflow / underflow; max|.| does not)
    for p_, l_, r_ in tree.traverse():
        if len(l_) == 1 and len(r_) == 1:
            (il,), (ir,) = tuple(l_), tuple(r_)
            if abs(scales[il] + scales[ir]) > 154:
                ctx.count("leaf_pair_scales_beyond_154")
                break

    farrs = to_float_arrays(ints, scales)
    xarrs = to_exact_arrays(ints, scales)
    ref, amax = exact_reference(inputs, output, size_dict, ints, scales)
    result_zero = all(v == 0 for v in ref)

    # plain float contraction: does it leave the float64 range?
    with warnings.catch_warnings():
        warnings.simplefilter("ignore")
        try:
            plain = np.asarray(tree.contract(farrs), dtype=float).reshape(-1)
            if not np.all(np.isfinite(plain)):
                ctx.count("plain_overflows")
            elif not result_zero and any(p == 0.0 and r != 0 for p, r in zip(plain, ref)):
                ctx.count("plain_underflows")
        except Exception:  # not this property's subject
            ctx.count("plain_raised")

    # ---- the exact run of the real code (object arrays of X) ----------------------------
    contractions = extract_contractions(tree, None, prefer_einsum)
    nslices = tree.multiplicity
    xrec = Recorder()
    exact_out, exact_err = None, None
    # slicing away every axis of an object array returns the bare element: keep 0-d arrays instead
    # (instance attribute shadowing ContractionTree.slice_arrays; tree.contract itself is untouched)
    orig_slice_arrays = tree.slice_arrays
    tree.slice_arrays = lambda arrays, i: [Recorder._arr(a) for a in orig_slice_arrays(arrays, i)]
    try:
        with warnings.catch_warnings():
            warnings.simplefilter("ignore")
            exact_out = tree.contract(xarrs, strip_exponent=True, check_zero=cz,
                                      prefer_einsum=prefer_einsum, implementation=xrec.pair)
    except Exception as ex:  # noqa
        exact_err = repr(ex)
    finally:
        del tree.slice_arrays
    npairs = N - 1
    xtr = [xrec.calls[k * npairs:(k + 1) * npairs] for k in range(nslices)]
    # a slice meets a zero factor iff its exact partial result is entirely zero (a zero intermediate makes the
    # slice result zero, and a zero slice result has a zero last factor): judged by the oracle, independent of
    # the recorder (whose call list is cut short by the check_zero exit)
    zero_slices = []
    if tree.sliced_inds:
        for k in range(nslices):
            sres = oracle.dense_einsum(inputs, output, size_dict, ints, fixed=tree.slice_key(k))
            if all(v == 0 for v in sres.values()):
                zero_slices.append(k)
    elif result_zero:
        zero_slices = [0]
    if zero_slices:
        ctx.count("has_zero_slice")
        if tree.sliced_inds and 0 in zero_slices and not result_zero:
            ctx.count("zero_first_slice")
        if cz and tree.sliced_inds and not result_zero:
            ctx.count("zero_slice_with_check_zero")
    if len(zero_slices) > 1:
        ctx.count("has_two_zero_slices")
        if not result_zero:
            ctx.count("several_zero_slices_nonzero_total")
    if tree.sliced_inds and len(zero_slices) == nslices:
        ctx.count("all_slices_zero")

    # ---- correspondence: the Coq model on the same program and slices -------------------
    slice_arrays = [tree.slice_arrays(xarrs, k) for k in range(nslices)]
    prog_lit, ids, pairs, kmax = build_program(tree, contractions, [getattr(a, "shape", ()) for a in slice_arrays[0]])
    slices_lit = "[" + "; ".join("[" + "; ".join(coq_vec(a) for a in arrs) + "]" for arrs in slice_arrays) + "]"
    czl = "true" if cz else "false"
    wf = "X_wf %s (seq 0 %d)" % (prog_lit, N)
    if out_sliced and cz and zero_slices and len(out_sliced) != len(output):
        # known-broken corner (finding strip-zero-chunk-check-zero-stack): Python-scalar chunks reach np.stack, which
        # raises ValueError / AxisError or, for axis 0 and only scalars, builds an array of the wrong shape.  The
        # model is compared slice by slice here (real contract_slice on the exact arrays), not through the stack.
        ctx.count("check_zero_stack_corner")
        tree.slice_arrays = lambda arrays, i: [Recorder._arr(a) for a in orig_slice_arrays(arrays, i)]
        try:
            with warnings.catch_warnings():
                warnings.simplefilter("ignore")
                per = [tree.contract_slice(xarrs, k, strip_exponent=True, check_zero=True, prefer_einsum=prefer_einsum,
                                           implementation=Recorder().pair) for k in range(nslices)]
            expect = "Some [%s]" % "; ".join("Strip %s %s" % (mant_lit(m_), exp_lit(e_)) for m_, e_ in per)
        except Exception as ex:  # noqa
            expect = "None"
        finally:
            del tree.slice_arrays
        model = "X_slices %s true true prog slices" % PT
    elif out_sliced:
        keys = []
        for k in range(nslices):
            kk = tree.slice_key(k)
            keys.append(flat([kk[ix] for ix in out_sliced], [size_dict[ix] for ix in out_sliced]))
        chunk0d = "true" if len(out_sliced) == len(output) else "false"
        model = "X_stack %s true %s %s prog [%s]%%nat slices" % (PT, czl, chunk0d, ";".join(map(str, keys)))
        if exact_err is not None:
            expect = "None"
        else:
            m, e = exact_out
            m = np.asarray(m, dtype=object)
            pos = [output.index(ix) for ix in out_sliced]
            chunks = []
            for key in dict.fromkeys(keys):
                kv = []
                rem = key
                for ix in reversed(out_sliced):
                    kv.append(rem % size_dict[ix])
                    rem //= size_dict[ix]
                kv = list(reversed(kv))
                sel = [slice(None)] * len(output)
                for p_, v in zip(pos, kv):
                    sel[p_] = v
                chunks.append("(%d%%nat, %s)" % (key, mant_lit(m[tuple(sel)])))
            expect = "Some ([%s], Some %s)" % ("; ".join(chunks), exp_lit(e))
    else:
        model = "X_sum %s true %s prog slices" % (PT, czl)
        if exact_err is not None:
            expect = "None"
        else:
            m, e = exact_out
            expect = "Some (Strip %s %s)" % (mant_lit(m), exp_lit(e))
    # per-slice traces (factor, max|mantissa| of the stored intermediate); only without check_zero,
    # whose early exit cuts the Python trace short
    trace_ok = not cz and exact_err is None and nslices * npairs == len(xrec.calls)
    if trace_ok:
        consumed = {}
        for k in range(nslices):
            for j, (p, l, r) in enumerate(pairs):
                consumed[(k, l)] = xtr[k][j][0]
                consumed[(k, r)] = xtr[k][j][1]
        rows = []
        for k in range(nslices):
            row = []
            for j, (p, l, r) in enumerate(pairs):
                fac = xtr[k][j][2]
                if (k, p) in consumed:
                    row.append("(%s, %s)" % (fac.coq(), consumed[(k, p)].coq()))
                else:
                    # the final node is not consumed by a kernel: its mantissa is the slice result, which is
                    # compared through the gathered value; here only its factor is compared
                    row.append("(%s, last_max (X_trace %s prog (nth %d slices [])))" % (fac.coq(), PT, k))
            rows.append("[" + "; ".join(row) + "]")
        lhs_tr = "map (fun a => map (fun t => (fst t, snd (snd t))) (X_trace %s prog a)) slices" % PT
        rhs_tr = "[" + "; ".join(rows) + "]"
    else:
        lhs_tr, rhs_tr = "tt", "tt"
    lhs = ("(let prog := %s in let slices := %s in let model := (%s, (%s, %s)) in "
           "if eqb model (true, (%s, %s)) then None else Some model)" % (
               prog_lit, slices_lit, wf, model, lhs_tr, expect, rhs_tr))
    rhs = "None"
    cases.append(("case%d" % ci, lhs, rhs))
    rec["exact_result"] = repr(exact_out)[:400] if exact_err is None else exact_err
    rec["zero_slices"] = zero_slices
    records.append(rec)
    ctx.case((tuple(inputs), output, tuple(sorted(size_dict.items())), path, tuple(tree.sliced_inds),
              tuple(scales), cz, prefer_einsum, repr(rec["int_arrays"])),
             nontrivial=bool(N >= 3 or sliced), sample=rec if ci < 3 else None)
    ctx.count("kmax>=9" if kmax >= 9 else "kmax<9")

    # ---- the float run: oracle + IEEE residue against the exact run ------------------------
    frec = Recorder()
    ferr, fout = None, None
    try:
        with warnings.catch_warnings():
            warnings.simplefilter("ignore")
            fout = tree.contract(farrs, strip_exponent=True, check_zero=cz, prefer_einsum=prefer_einsum,
                                 implementation=frec.pair)
            fout2 = tree.contract(farrs, strip_exponent=True, check_zero=cz, prefer_einsum=prefer_einsum)
    except Exception as ex:  # noqa
        ferr = repr(ex)
    complaint = None
    if result_zero:
        ctx.count("result_is_zero(exempt)")
    else:
        if ferr is not None:
            complaint = "tree.contract(strip_exponent=True) raised %s" % ferr
        else:
            for which, o in (("recording kernels", fout), ("default kernels", fout2)):
                if not (isinstance(o, tuple) and len(o) == 2):
                    complaint = "result is not a (mantissa, exponent) pair: %r" % (o,)
                    break
                complaint = judge_value(o[0], o[1], ref, amax)
                if complaint:
                    complaint = "%s: %s" % (which, complaint)
                    break
    if complaint:
        key = None
        if zero_slices and sliced and not cz:
            key = "strip-zero-slice"
        elif zero_slices and sliced and cz and out_sliced and ferr is not None and (
                "same shape" in ferr or "AxisError" in ferr):
            key = "strip-zero-chunk-check-zero-stack"
        elif zero_slices and sliced and cz and len(zero_slices) > 1 and ferr is None:
            key = "strip-two-zero-slices-check-zero"
        rec2 = dict(rec)
        rec2["observed"] = repr(fout)[:600] if ferr is None else ferr
        rec2["exact_reference"] = [str(v) for v in ref[:16]]
        rec2["complaint"] = complaint
        ctx.fail("strip_exponent result differs from the exact value: " + complaint, rec2, key=key)
        return
    # residue: float trace against exact trace (only meaningful without zero factors)
    if ferr is None and exact_err is None and not zero_slices and len(frec.calls) == len(xrec.calls):
        for k, (fc, xc) in enumerate(zip(frec.calls, xrec.calls)):
            for a, b, what in zip(fc, xc, ("max|left|", "max|right|", "factor")):
                bf = dec_of_fraction(b.q)
                if abs(Decimal(a) - bf) > RTOL * abs(bf):
                    ctx.fail("float run step %d: %s = %r, exact run %s" % (k, what, a, format(bf, ".15E")),
                             dict(rec, step=k), found_input=False)
                    return
        if not result_zero:
            ee = tol(exact_out[1]).log10_float()
            if abs(float(fout[1]) - ee) > 1e-9 * max(1.0, abs(ee)):
                ctx.fail("float exponent %r differs from the exact run's %r" % (float(fout[1]), ee),
                         dict(rec), found_input=False)
            ctx.count("float_trace_checked")


def _chain(n):
    syms = "abcdefgh"
    return [[syms[i], syms[i + 1]] for i in range(n)], [syms[0], syms[n]], {c: 2 for c in syms[:n + 1]}, [[0, 1]] * (n - 1)


def directed_specs():
    """cases the random generator must never stop producing, built deliberately every run: zero FIRST slice;
    several zero slices (all but one; all of one output chunk; all); the same with check_zero=True (sum branch --
    the stack branch with check_zero is the known finding); total magnitude 1e+-500 with a sliced OUTPUT index;
    two directly contracted leaves whose scales sum to +-200."""
    M = [[1, 2], [3, 4]]
    specs = []
    mm = {"inputs": [["a", "b"], ["b", "c"]], "output": ["a", "c"], "path": [[0, 1]]}
    for sc in ([100, 100], [-100, -100], [100, -100]):
        for cz in (False, True):
            # b = 0 (first slice) zero; b = 0, 1 zero (all but the last); sliced inner index
            specs.append(dict(mm, size_dict={"a": 2, "b": 3, "c": 2}, sliced=["b"], scales=sc, check_zero=cz,
                              int_arrays=[[[0, 1, 2], [0, 3, 1]], [[1, 2], [3, 4], [2, 1]]]))
            specs.append(dict(mm, size_dict={"a": 2, "b": 3, "c": 2}, sliced=["b"], scales=sc, check_zero=cz,
                              int_arrays=[[[0, 0, 2], [0, 0, 1]], [[1, 2], [3, 4], [2, 1]]]))
        # sliced OUTPUT index a: chunk a = 0 zero (first), a = 0, 1 zero, inner b sliced too (a chunk made of zero slices)
        specs.append(dict(mm, size_dict={"a": 3, "b": 2, "c": 2}, sliced=["a"], scales=sc,
                          int_arrays=[[[0, 0], [1, 2], [3, 1]], M]))
        specs.append(dict(mm, size_dict={"a": 3, "b": 2, "c": 2}, sliced=["a", "b"], scales=sc,
                          int_arrays=[[[0, 0], [0, 0], [3, 1]], M]))
        specs.append(dict(mm, size_dict={"a": 3, "b": 2, "c": 2}, sliced=["a", "b"], scales=sc,
                          int_arrays=[[[0, 2], [1, 0], [3, 1]], M]))
        # every slice zero (result zero: exempt for the oracle, still compared with the model: emax = -inf)
        specs.append(dict(mm, size_dict={"a": 3, "b": 2, "c": 2}, sliced=["a"], scales=sc,
                          int_arrays=[[[0, 0], [0, 0], [0, 0]], M]))
    # total magnitude 1e+-500 (five matrices of 1e+-100), sliced output index (and an inner one), zero chunk or not
    ins, out, sizes, path = _chain(5)
    for sgn in (100, -100):
        for first in ([[1, 2], [3, 1]], [[0, 0], [3, 1]], [[1, 0], [2, 0]]):
            for sl in (["a"], ["a", "c"], ["f", "b"]):
                specs.append({"inputs": ins, "output": out, "size_dict": sizes, "path": path, "sliced": sl,
                              "scales": [sgn] * 5, "int_arrays": [first] + [M] * 4})
    return specs


def probe_known(ctx):
    """the repro of each known finding, run every time; also determines which semantics the code under test
    has for a zero factor (pinned: 0/0 = nan; proposed fix: divisor factor + (factor == 0) and `== -inf` guards),
    so that the model instance with the same semantics is used in the correspondence"""
    import cotengra as ctg
    import numpy as np
    from cotengra.core import add_maybe_exponent_stripped
    inputs = [("a", "b"), ("b", "c")]
    output = ("a", "c")
    sd = {"a": 2, "b": 2, "c": 2}
    x = np.array([[1.0, 0.0], [2.0, 0.0]])
    y = np.array([[1.0, 2.0], [3.0, 4.0]])

    def ok(o, want):
        try:
            return (isinstance(o, tuple) and len(o) == 2 and np.all(np.isfinite(np.asarray(o[0], dtype=float)))
                    and np.allclose(np.asarray(o[0], dtype=float) * 10 ** float(o[1]), want))
        except Exception:  # noqa
            return False

    def sliced_tree(sizes, *ixs):
        t = ctg.ContractionTree.from_path(inputs, output, sizes, path=[(0, 1)])
        for ix in ixs:
            t.remove_ind_(ix)
        return t

    with warnings.catch_warnings():
        warnings.simplefilter("ignore")
        # --- which semantics?
        z = sliced_tree(sd).contract([np.zeros((2, 2)), y], strip_exponent=True)
        pt_div = bool(np.all(np.asarray(z[0]) == 0.0))
        ninf = float("-inf")
        zz = add_maybe_exponent_stripped((np.zeros(2), ninf), (np.zeros(2), ninf))
        pt_add = bool(np.all(np.asarray(zz[0]) == 0.0))
        ctx.meta["patched"] = pt_div
        ctx.coverage["zero_factor_semantics"] = "proposed-fix" if pt_div else "pinned"
        if pt_div != pt_add:
            ctx.fail("zero-factor semantics of Contractor (%s) and add_maybe_exponent_stripped (%s) are neither the "
                     "pinned nor the proposed ones: no model instance follows this code" % (pt_div, pt_add),
                     {"contractor_zero_product": repr(z), "add_two_zero_terms": repr(zz)}, found_input=False)
        # --- strip-zero-slice
        o = sliced_tree(sd, "b").contract([x, y], strip_exponent=True)
        if not ok(o, x @ y):
            ctx.fail("'ab,bc->ac' sliced on b with a zero column: strip_exponent total is %r, true %r" % (o, (x @ y).tolist()),
                     {"repro": "proposed_fixes/C19_strip-zero-slice.py", "observed": repr(o)}, key="strip-zero-slice")
        xz = np.array([[1.0, 2.0], [0.0, 0.0]])
        o = sliced_tree(sd, "a").contract([xz, y], strip_exponent=True)
        if not ok(o, xz @ y):
            ctx.fail("'ab,bc->ac' sliced on a with a zero row: strip_exponent total is %r, true %r" % (o, (xz @ y).tolist()),
                     {"repro": "proposed_fixes/C19_strip-zero-slice.py", "observed": repr(o)}, key="strip-zero-slice")
        # --- check_zero=True, two zero slices first
        sd3 = {"a": 2, "b": 3, "c": 2}
        x3 = np.array([[0.0, 0.0, 1.0], [0.0, 0.0, 2.0]])
        y3 = np.array([[3.0, 4.0], [3.0, 4.0], [1.0, 2.0]])
        o = sliced_tree(sd3, "b").contract([x3, y3], strip_exponent=True, check_zero=True)
        if not ok(o, x3 @ y3):
            ctx.fail("check_zero=True, two zero slices combined first: total is %r, true %r" % (o, (x3 @ y3).tolist()),
                     {"repro": "proposed_fixes/C19_strip-zero-slice.py", "observed": repr(o)},
                     key="strip-two-zero-slices-check-zero")
        # --- check_zero=True and a zero chunk of a sliced output index
        try:
            o2 = sliced_tree(sd, "a").contract([xz, y], strip_exponent=True, check_zero=True)
        except Exception as ex:  # noqa
            o2 = repr(ex)
        if not ok(o2, xz @ y):
            ctx.fail("check_zero=True, zero chunk of a sliced output index: %r, true %r" % (o2, (xz @ y).tolist()),
                     {"repro": "see docs/C19.md", "observed": repr(o2)}, key="strip-zero-chunk-check-zero-stack")
        # --- gen_output_chunks with an inner sliced index
        xx = np.array([[1.0, 2.0], [3.0, 5.0]])
        chunks = list(sliced_tree(sd, "a", "b").gen_output_chunks([xx, y], strip_exponent=True))
        full = xx @ y
        if not all(ok(c, full[k]) for k, c in enumerate(chunks)):
            ctx.fail("gen_output_chunks(strip_exponent=True) with an inner sliced index yields %r" % (chunks[0],),
                     {"repro": "proposed_fixes/C19_output-chunks-tuple.py", "observed": repr(chunks)},
                     key="strip-output-chunks-tuple-concat")


def corpus_cases(ctx):
    """minimised past failures (corpus/C19/*.json), run first on the float implementation against the oracle"""
    import glob
    import json
    import os
    import cotengra as ctg
    import numpy as np
    from vlib.core import VERIF
    for fn in sorted(glob.glob(os.path.join(VERIF, "corpus", "C19", "*.json"))):
        c = json.load(open(fn))
        inputs = [tuple(t) for t in c["inputs"]]
        output = tuple(c["output"])
        ints = [np.array(a, dtype=object) for a in c["int_arrays"]]
        scales = c["scales"]
        farrs = to_float_arrays(ints, scales)
        ref, amax = exact_reference(inputs, output, c["size_dict"], ints, scales)
        ctx.count("corpus")
        try:
            with warnings.catch_warnings():
                warnings.simplefilter("ignore")
                tree = ctg.ContractionTree.from_path(inputs, output, c["size_dict"], path=[tuple(p) for p in c["path"]])
                for ix in c["sliced"]:
                    tree.remove_ind_(ix)
                if c.get("call") == "gen_output_chunks":
                    complaint = None
                    for ch, okey in tree.gen_output_chunks(farrs, with_key=True, strip_exponent=True):
                        cref, camax = exact_reference(inputs, output, c["size_dict"], ints, scales, fixed=okey)
                        if not (isinstance(ch, tuple) and len(ch) == 2):
                            complaint = "chunk %r is not a (mantissa, exponent) pair: %r" % (okey, ch)
                            break
                        complaint = judge_value(ch[0], ch[1], cref, camax)
                        if complaint:
                            break
                else:
                    o = tree.contract(farrs, strip_exponent=True, check_zero=c.get("check_zero", False))
                    complaint = judge_value(o[0], o[1], ref, amax)
        except Exception as ex:  # noqa
            complaint = "raised %r" % (ex,)
        if complaint:
            ctx.fail("corpus case %s: %s" % (os.path.basename(fn), complaint), dict(c, complaint=complaint),
                     key=c.get("key"))


def interface_cases(ctx, rng, n):
    """einsum / array_contract / single tensor / gen_output_chunks, judged by the oracle"""
    import cotengra as ctg
    import numpy as np
    for ci in range(n):
        kind = rng.choice(["einsum", "array_contract", "single", "chunks", "expression"])
        if kind == "single":
            inputs, output, size_dict = gen.rand_net(rng, nmin=1, nmax=1, max_ix=3, max_rank=3, p_scalar=0.0)
            if rng.random() < 0.5:
                output = tuple(rng.sample(sorted(set(inputs[0])), len(set(inputs[0]))))   # transposition / diagonal
        else:
            inputs, output, size_dict = gen.rand_net(rng, nmin=2, nmax=5, max_ix=5, max_rank=3)
        N = len(inputs)
        scales = draw_scales(rng, N)
        ints, positive = draw_ints(rng, inputs, size_dict, None)
        farrs = to_float_arrays(ints, scales)
        ref, amax = exact_reference(inputs, output, size_dict, ints, scales)
        rec = {"kind": kind, "inputs": inputs, "output": output, "size_dict": size_dict, "scales": scales,
               "int_arrays": [a.tolist() for a in ints]}
        ctx.count("iface_" + kind)
        ctx.case(("iface", kind, tuple(inputs), output, tuple(scales), repr(rec["int_arrays"])), nontrivial=True)
        if all(v == 0 for v in ref):
            ctx.count("result_is_zero(exempt)")
            continue
        path = gen.rand_path(rng, N)
        complaint = None
        key = None
        try:
            with warnings.catch_warnings():
                warnings.simplefilter("ignore")
                if kind == "einsum":
                    eq = ",".join("".join(t) for t in inputs) + "->" + "".join(output)
                    o = ctg.einsum(eq, *farrs, optimize=path, strip_exponent=True)
                    complaint = judge_value(o[0], o[1], ref, amax)
                elif kind in ("array_contract", "single"):
                    o = ctg.array_contract(farrs, inputs, output, optimize=path if N > 1 else "auto", strip_exponent=True)
                    complaint = judge_value(o[0], o[1], ref, amax)
                elif kind == "expression":
                    tree = ctg.ContractionTree.from_path(inputs, output, size_dict, path=path)
                    cand = [ix for ix in sorted({ix for t in inputs for ix in t}) if size_dict[ix] > 1]
                    if cand:
                        tree.remove_ind_(rng.choice(cand))
                    rec["sliced"] = list(tree.sliced_inds)
                    expr = ctg.array_contract_expression(inputs, output, size_dict, optimize=tree,
                                                         strip_exponent=True, cache=False)
                    o = expr(*farrs)
                    complaint = judge_value(o[0], o[1], ref, amax)
                    if complaint and tree.sliced_inds and has_zero_slice(inputs, output, size_dict, ints,
                                                                         tree.sliced_inds):
                        ctx.count("iface_zero_slice")
                        key = "strip-zero-slice"
                else:
                    tree = ctg.ContractionTree.from_path(inputs, output, size_dict, path=path)
                    cand = [ix for ix in sorted({ix for t in inputs for ix in t}) if size_dict[ix] > 1]
                    for ix in rng.sample(cand, min(len(cand), rng.randint(1, 2))):
                        tree.remove_ind_(ix)
                    rec["sliced"] = list(tree.sliced_inds)
                    inner = [ix for ix in tree.sliced_inds if ix not in output]
                    outs = [ix for ix in tree.sliced_inds if ix in output]
                    if inner:
                        ctx.count("chunks_with_inner_slice")
                    for ch, okey in tree.gen_output_chunks(farrs, with_key=True, strip_exponent=True):
                        cref, camax = exact_reference(inputs, output, size_dict, ints, scales, fixed=okey)
                        if all(v == 0 for v in cref):
                            continue
                        if not (isinstance(ch, tuple) and len(ch) == 2):
                            complaint = "chunk %r is not a (mantissa, exponent) pair: %r" % (okey, ch)
                            if inner and isinstance(ch, tuple) and len(ch) > 2:
                                key = "strip-output-chunks-tuple-concat"
                            break
                        complaint = judge_value(ch[0], ch[1], cref, camax)
                        if complaint:
                            complaint = "chunk %r: %s" % (okey, complaint)
                            break
        except Exception as ex:  # noqa
            complaint = "raised %r" % (ex,)
        if complaint:
            ctx.fail("%s with strip_exponent=True: %s" % (kind, complaint), dict(rec, complaint=complaint), key=key)


def eval_cases(ctx, cases, chunk):
    """every case's lhs evaluates (vm_compute) to None when model and code agree and to Some <model value>
    otherwise; chunks are evaluated by parallel coqc runs (ctx.coq_eval), so a broken run costs no extra
    evaluations.  Returns [(index, label, model value text)]."""
    from concurrent.futures import ThreadPoolExecutor

    def one(ci):
        part = cases[ci: ci + chunk]
        try:
            outs = ctx.coq_eval(["Base", "Exponent"], [c[1] for c in part], prelude=PRELUDE, timeout=1200)
        except Exception as ex:  # noqa
            return [(ci + k, part[k][0], "coqc failed: %s" % (str(ex)[-1500:],)) for k in range(len(part))]
        if len(outs) != len(part):
            return [(ci + k, part[k][0], "unparsable coqc output") for k in range(len(part))]
        return [(ci + k, part[k][0], o[:3000]) for k, o in enumerate(outs) if not o.startswith("None")]

    failing = []
    with ThreadPoolExecutor(max_workers=16) as ex:
        for res in ex.map(one, range(0, len(cases), chunk)):
            failing.extend(res)
    ctx.coverage["correspondence"]["c19"] = {"cases": len(cases), "failing": len(failing)}
    return failing


PRELUDE = """
Definition last_max (tr : list (xq * (xq * xq))) : xq := snd (snd (last tr (XNaN, (XNaN, XNaN)))).
"""


def run(ctx):
    # "Axioms" : vlib.core.props_assumptions parses the header line "Axioms:" of a Print Assumptions block as
    # an axiom name; allow that pseudo-name (the real names are still checked against STDLIB_AXIOMS)
    if not standard_proof_steps(ctx, allowed_axioms=("Axioms",)):
        return
    rng = ctx.rng
    probe_known(ctx)
    corpus_cases(ctx)
    cases, records = [], []
    for spec in directed_specs():
        run_case(ctx, len(cases), rng, cases, records, spec=spec)
    ndirected = len(cases)
    for ci in range(ctx.n(160, 2500)):
        run_case(ctx, ndirected + ci, rng, cases, records)
    interface_cases(ctx, rng, ctx.n(150, 2000))
    ctx.log("generated %d correspondence cases" % len(cases))
    # generator floor: the input classes that past defects and seeded changes needed must have been produced
    feats = ctx.coverage["features"]
    for need in ("zero_first_slice", "several_zero_slices_nonzero_total", "zero_slice_with_check_zero",
                 "all_slices_zero", "beyond_float64_with_sliced_output", "leaf_pair_scales_beyond_154",
                 "plain_overflows", "plain_underflows"):
        if not feats.get(need):
            raise RuntimeError("generator no longer produces the input class %r" % need)
    failing = eval_cases(ctx, cases, chunk=10 if ctx.quick else 25)
    for idx, label, val in failing:
        rec = dict(records[idx]) if idx < len(records) else {}
        rec["model_value"] = val
        rec["correspondence"] = ("Model/Exponent.v (exact-IEEE instance) X_wf / X_sum / X_stack / X_trace vs "
                                 "Contractor + gather_slices run on exact object arrays")
        ctx.fail("model and implementation disagree on an exact run", rec, found_input=False)
    ctx.coverage["rule"] = (
        "random networks (2..5/6 tensors; hyper / repeated / scalar / disconnected / size-1 features), uniform random "
        "paths, 0..3 sliced indices (inner and output), integer arrays (60% strictly positive) times per-tensor scales "
        "10^s with s drawn from {all near +100, all near -100, mixed +-100, small, uniform in [-100,100]}, zero "
        "hyperplanes planted in 35% of the cases, check_zero in 25%, prefer_einsum in 40%; plus einsum / array_contract "
        "/ expression-with-sliced-tree / single-tensor / gen_output_chunks calls; non-trivial = >=3 tensors or sliced")
    ctx.assumptions = [
        "theorems are about real arithmetic; IEEE-754 rounding is outside the proof (partial: ieee754) and is "
        "covered only by the executed comparison of the float run with the exact run and the exact reference",
        "kernels enter the theorems only through homogeneity (proved for every table-form bilinear map)",
        "Coq standard-library real-number axioms (sig_forall_dec, sig_not_dec, functional_extensionality_dep, classic)",
        "correspondence is executed, not proved (hand-written model)",
    ]
    ctx.trusted.append("Python exact-IEEE number classes X / L of harness/props/c19.py (mirror of xq), decimal module")
    ctx.notes.append("partial: ieee754")


if __name__ == "__main__":
    main(PROP, run)

"""C06 -- slices partition the contraction exactly and are reassembled correctly."""
import itertools

from vlib import gen, oracle
from vlib.core import Raw, Some, Z, coq, main, standard_proof_steps

PROP = "C06"
IMPORTS = ["Slice"]


# ---------------------------------------------------------------------------
# literals
def si_lit(si):
    return "(mkSI %s %d %d %s)" % (coq(bool(si.inner)), gen.IDX[si.ind], si.size,
                                   coq(None if si.project is None else Some(si.project)))


def sl_lit(tree):
    return "[" + "; ".join(si_lit(si) for si in tree.sliced_inds.values()) + "]"


def st_lit(tree):
    return "(mkSS %s %d %s)" % (sl_lit(tree), tree.multiplicity, coq(sorted(tree.sliced_inputs)))


def ops_lit(ops):
    out = []
    for op in ops:
        if op[0] == "remove":
            out.append("OpRemove %d %s" % (gen.IDX[op[1]], coq(None if op[2] is None else Some(op[2]))))
        else:
            out.append("OpRestore %d" % gen.IDX[op[1]])
    return "[" + "; ".join(out) + "]"


def tens_lit(a):
    import numpy as np
    a = np.asarray(a)
    return "(of_flat %s %s)" % (coq([int(d) for d in a.shape]), coq([Z(int(v)) for v in a.ravel().tolist()]))


def tab(a):
    """the value `tabulate` must give for numpy array a"""
    import numpy as np
    a = np.asarray(a)
    return ([int(d) for d in a.shape], [Z(int(v)) for v in a.ravel().tolist()])


def key_items(key):
    return [(gen.IDX[k], int(v)) for k, v in key.items()]


def net_parts(inputs, output, size_dict):
    ins = coq([[gen.IDX[c] for c in t] for t in inputs])
    out = coq([gen.IDX[c] for c in output])
    sz = coq([(gen.IDX[c], int(v)) for c, v in sorted(size_dict.items(), key=lambda kv: gen.IDX[kv[0]])])
    return ins, out, sz


# ---------------------------------------------------------------------------
def classify(inputs, output, ix):
    n = sum(ix in t for t in inputs)
    f = []
    if ix in output:
        f.append("sliced_output")
    else:
        f.append("sliced_inner")
    if n + (ix in output) > 2:
        f.append("sliced_hyper")
    if n == 1 and ix not in output:
        f.append("sliced_leaf_only")
    if any(t.count(ix) > 1 for t in inputs):
        f.append("sliced_repeated")
    return f


def make_case(rng, quick, cap):
    """network, random tree, random history of remove_ind (slice | project) / restore_ind
    (incl. some calls that must raise).  cap bounds nslices."""
    import cotengra as ctg
    while True:
        inputs, output, size_dict = gen.rand_net(rng, nmin=2, nmax=6 if quick else 7, dmax=4, p_out=0.55,
                                                 max_ix=7)
        present = sorted({ix for t in inputs for ix in t})
        if present:
            break
    path = gen.rand_path(rng, len(inputs))
    tree = ctg.ContractionTree.from_path(inputs, output, size_dict, path=path)
    ops, raises = [], []
    nops = rng.choice([1, 2, 2, 3, 3, 4, 5])
    for _ in range(nops):
        r = rng.random()
        cur = list(tree.sliced_inds)
        if r < 0.12 and cur:
            op = ("restore", rng.choice(cur))
        elif r < 0.16:
            absent = [ix for ix in present if ix not in cur]
            if not absent:
                continue
            op = ("restore", rng.choice(absent))          # KeyError
        elif r < 0.2 and cur:
            op = ("remove", rng.choice(cur), None)        # ValueError: already sliced
        else:
            cand = [ix for ix in present if ix not in cur]
            if not cand:
                continue
            # prefer output indices half of the time so that stacking is exercised
            outs = [ix for ix in cand if ix in output]
            ix = rng.choice(outs) if outs and rng.random() < 0.5 else rng.choice(cand)
            if rng.random() < 0.25:
                op = ("remove", ix, rng.randrange(size_dict[ix]))
            else:
                if tree.multiplicity * size_dict[ix] > cap:
                    continue
                op = ("remove", ix, None)
        try:
            if op[0] == "remove":
                tree.remove_ind_(op[1], project=op[2])
            else:
                tree.restore_ind_(op[1])
            raises.append(False)
        except (ValueError, KeyError):
            raises.append(True)
        ops.append(op)
    return inputs, output, size_dict, path, tree, ops, raises



def snapshot(tree):
    """observable slicing state of a tree (used to detect that a non-inplace derivation touched its parent)"""
    snap = {"sliced_inds": [(bool(si.inner), si.ind, si.size, si.project) for si in tree.sliced_inds.values()],
            "multiplicity": tree.multiplicity, "nslices": tree.nslices, "nchunks": tree.nchunks,
            "sliced_inputs": sorted(tree.sliced_inputs)}
    try:
        snap["keys"] = [sorted(tree.slice_key(i).items()) for i in range(min(tree.nslices, 96))]
    except Exception as e:
        snap["keys"] = "slice_key raised %r" % (e,)
    return snap


def derive_and_check(ctx, rng, ci, rec, inputs, output, size_dict, tree, ops, add, cap):
    """derive new trees NON-inplace from the (sliced) tree -- restore_ind / unslice_rand / unslice_all /
    remove_ind with inplace=False, and copy() followed by the inplace variants -- and keep using the
    original: the model's state is a value, so the parent must be exactly what its own history says"""
    ins, out, sz = net_parts(inputs, output, size_dict)
    before = snapshot(tree)
    present = sorted({ix for t in inputs for ix in t})
    for di in range(rng.choice([1, 1, 2, 3])):
        cur = list(tree.sliced_inds)
        kinds = ["remove", "copy_remove_"]
        if cur:
            kinds += ["restore", "unslice_rand", "unslice_all", "copy_restore_", "copy_unslice_all_", "copy_unslice_rand_"] * 2
        kind = rng.choice(kinds)
        ext = []
        try:
            if kind in ("restore", "copy_restore_"):
                ix = rng.choice(cur)
                if kind == "restore":
                    d = tree.restore_ind(ix)
                else:
                    d = tree.copy()
                    d.restore_ind_(ix)
                ext = [("restore", ix)]
            elif kind in ("unslice_rand", "copy_unslice_rand_"):
                seed = rng.randrange(10 ** 6)
                if kind == "unslice_rand":
                    d = tree.unslice_rand(seed=seed)
                else:
                    d = tree.copy()
                    d.unslice_rand_(seed=seed)
                gone = [ix for ix in cur if ix not in d.sliced_inds]
                ext = [("restore", ix) for ix in gone]
            elif kind in ("unslice_all", "copy_unslice_all_"):
                if kind == "unslice_all":
                    d = tree.unslice_all()
                else:
                    d = tree.copy()
                    d.unslice_all_()
                ext = [("restore", ix) for ix in cur]
            else:
                cand = [ix for ix in present if ix not in cur and before["multiplicity"] * size_dict[ix] <= cap]
                if not cand:
                    continue
                ix = rng.choice(cand)
                proj = rng.randrange(size_dict[ix]) if rng.random() < 0.3 else None
                if kind == "remove":
                    d = tree.remove_ind(ix, project=proj)
                else:
                    d = tree.copy()
                    d.remove_ind_(ix, project=proj)
                ext = [("remove", ix, proj)]
        except Exception as e:
            ctx.fail("deriving a tree (%s) from a sliced tree raised %r" % (kind, e), dict(rec, derivation=kind))
            continue
        ctx.count("derive_" + kind)
        drec = dict(rec, derivation=kind, derived_ops=ext)
        # (a) the parent is untouched
        after = snapshot(tree)
        if after != before:
            ctx.fail("a non-inplace derivation (%s) changed the tree it was derived from: before %r, after %r" % (
                kind, before, after), drec)
        # (b) the derived tree is what the model computes for the extended history
        add("derived%d_%d" % (ci, di),
            "run_ops %s %s %s %s" % (ins, out, sz, ops_lit(list(ops) + ext)),
            "mkSS %s %d %s" % (sl_lit(d), d.multiplicity, coq(sorted(d.sliced_inputs))),
            drec, "state of a tree derived non-inplace (%s)" % kind)
        add("derived_ok%d_%d" % (ci, di), "sl_ok_b %s %s" % (out, st_lit(d)), "true", drec,
            "verified checker sl_ok_b on a derived tree (%s)" % kind)
        # (c) the parent, re-read AFTER the derivation, is still what its own history says
        add("parent_after%d_%d" % (ci, di),
            "run_ops %s %s %s %s" % (ins, out, sz, ops_lit(ops)),
            "mkSS %s %d %s" % (sl_lit(tree), tree.multiplicity, coq(sorted(tree.sliced_inputs))),
            drec, "state of the parent after a non-inplace derivation (%s)" % kind)
        # (d) the derived tree contracts correctly as well
        try:
            arrays = gen.rand_arrays(rng, inputs, size_dict)
            import numpy as np
            dsl = [np.asarray(d.contract_slice(arrays, i)) for i in range(d.nslices)] if d.sliced_inds else [np.asarray(d.contract(arrays))]
            check_oracle(ctx, rng, drec, inputs, output, size_dict, d, arrays, dsl)
        except Exception as e:
            ctx.fail("a derived tree (%s) raised while contracting: %r" % (kind, e), drec)


def check_oracle(ctx, rng, rec, inputs, output, size_dict, tree, arrays, slices):
    """end-to-end judgement of the implementation, from the property text only"""
    import numpy as np
    sis = list(tree.sliced_inds.values())
    bad = None
    # (0) nslices is the number of combinations of the sliced (not projected) index values
    want_n = 1
    for s_ in sis:
        if s_.project is None:
            want_n *= size_dict[s_.ind]
    if tree.nslices != want_n or tree.multiplicity != want_n:
        bad = "nslices %r / multiplicity %r != product of the sliced index sizes %r (sliced_inds %r)" % (
            tree.nslices, tree.multiplicity, want_n, [(s_.ind, s_.size, s_.project) for s_ in sis])
        ctx.fail(bad, rec)
        return bad
    # (1) slice numbers <-> combinations of values, one to one
    keys = [tuple(sorted(tree.slice_key(i).items())) for i in range(tree.nslices)]
    want = set()
    for vals in itertools.product(*[(range(size_dict[s.ind]) if s.project is None else [s.project]) for s in sis]):
        want.add(tuple(sorted((s.ind, v) for s, v in zip(sis, vals))))
    if len(set(keys)) != len(keys) or set(keys) != want:
        bad = "slice keys are not a bijection onto the value combinations: %d slices, %d distinct keys, %d combinations" % (
            len(keys), len(set(keys)), len(want))
    # (2) contract == dense einsum (projected indices fixed; a projected output index keeps a length-1 axis)
    fixed = {s.ind: s.project for s in sis if s.project is not None}
    ref = oracle.dense_einsum(inputs, output, size_dict, arrays, fixed=fixed)
    refarr = oracle.dense_to_nested(ref, output, size_dict, fixed=tuple(fixed))
    full_shape = tuple(1 if ix in fixed else size_dict[ix] for ix in output)
    refarr = refarr.reshape(full_shape)
    opts = dict(prefer_einsum=rng.random() < 0.5)
    if rng.random() < 0.3:
        sc = {}
        opts["order"] = lambda nd: sc.setdefault(nd, rng.random())
    try:
        got = tree.contract(arrays, **opts)
        if not oracle.arrays_equal_exact(got, refarr):
            bad = "tree.contract on the sliced tree differs from the dense einsum: got %r want %r" % (
                np.asarray(got).tolist(), refarr.tolist())
    except Exception as e:
        bad = "tree.contract raised %r" % (e,)
    # (3) each slice is the section of the network at its key
    if not bad:
        for i in (rng.sample(range(tree.nslices), min(tree.nslices, 3))):
            k = tree.slice_key(i)
            r = oracle.dense_einsum(inputs, output, size_dict, arrays, fixed=k)
            ra = oracle.dense_to_nested(r, output, size_dict, fixed=tuple(k))
            if not oracle.arrays_equal_exact(slices[i], ra):
                bad = "slice %d is not the section at its key %r" % (i, k)
    # (4) lazily generated chunks tile the output exactly once
    if not bad and tree.sliced_inds:
        try:
            seen = {}
            acc = np.zeros(full_shape, dtype=object)
            for chunk, key in tree.gen_output_chunks(arrays, with_key=True):
                kk = tuple(sorted(key.items()))
                seen[kk] = seen.get(kk, 0) + 1
                sel = tuple((0 if ix in fixed else key[ix]) if ix in key else slice(None) for ix in output)
                acc[sel] = acc[sel] + np.asarray(chunk).astype(object)
            okeys = set()
            outs = [s for s in sis if s.ind in output]
            for vals in itertools.product(*[(range(size_dict[s.ind]) if s.project is None else [s.project]) for s in outs]):
                okeys.add(tuple(sorted((s.ind, v) for s, v in zip(outs, vals))))
            if set(seen) != okeys or any(c != 1 for c in seen.values()):
                bad = "output chunks do not cover each output key exactly once: %r" % (seen,)
            elif not bool(np.all(acc == refarr)):
                bad = "output chunks do not tile the dense result"
            if tree.nchunks != len(okeys):
                bad = "nchunks %r != number of output keys %r" % (tree.nchunks, len(okeys))
        except Exception as e:
            bad = "gen_output_chunks raised %r" % (e,)
    if bad:
        ctx.fail(bad, rec)
    return bad


def one_network(ctx, rng, ci, rec, inputs, output, size_dict, tree, ops, raises, sis, add, oracle_bad):
    import numpy as np
    from cotengra.core import get_slice_strides
    ins, out, sz = net_parts(inputs, output, size_dict)
    # K0: non-inplace derivations from this tree; everything below re-reads the ORIGINAL afterwards
    derive_and_check(ctx, rng, ci, rec, inputs, output, size_dict, tree, ops, add, 64)
    sl = sl_lit(tree)
    st = st_lit(tree)
    N = tree.nslices

    # K1: the state after the history of remove_ind / restore_ind
    add("state%d" % ci,
        "(run_ops %s %s %s %s, run_ops_raises %s %s %s %s)" % (ins, out, sz, ops_lit(ops), ins, out, sz, ops_lit(ops)),
        "(mkSS %s %d %s, %s)" % (sl, tree.multiplicity, coq(sorted(tree.sliced_inputs)), coq(raises)),
        rec, "remove_ind/restore_ind: sliced_inds order, multiplicity, sliced_inputs")
    add("ok%d" % ci, "sl_ok_b %s %s" % (out, st), "true", rec,
        "verified checker sl_ok_b (hypotheses of the C06 theorems) on the real sliced_inds / multiplicity")
    # K2: strides, every slice key, nslices / nchunks / stepsize
    strides = get_slice_strides(tree.sliced_inds)
    keys = [key_items(tree.slice_key(i)) for i in range(N)]
    add("keys%d" % ci,
        "(get_slice_strides %s, (map (slice_key %s) (seq 0 %d), (nchunks %s, stepsize %s)))" % (sl, sl, N, sl, sl),
        coq((strides, keys, tree.nchunks, N // max(1, tree.nchunks))),
        rec, "get_slice_strides / slice_key(i) for all i / nchunks")
    # arrays
    arrays = gen.rand_arrays(rng, inputs, size_dict)
    slices = [np.asarray(tree.contract_slice(arrays, i)) for i in range(N)] if sis else [np.asarray(tree.contract(arrays))]
    # K3: slice_arrays on arrays with pairwise distinct entries (pins down every selector)
    darrs = []
    for t in inputs:
        shape = tuple(size_dict[ix] for ix in t)
        darrs.append(np.arange(int(np.prod(shape, dtype=np.int64)) if shape else 1).reshape(shape))
    for i in sorted(set([0, N - 1] + [rng.randrange(N) for _ in range(2)])):
        real = tree.slice_arrays(darrs, i)
        add("slarr%d_%d" % (ci, i),
            "map tabulate (slice_arrays %s %s [%s] %d)" % (ins, st, "; ".join(tens_lit(a) for a in darrs), i),
            coq([tab(a) for a in real]), rec, "slice_arrays selectors, slice %d" % i)
    # K4: gather_slices on the real slices and on random integer slices of the same shape
    if sis:
        for variant in ("real", "random"):
            if variant == "real":
                sls = slices
            else:
                sls = [np.array([rng.randint(-9, 9) for _ in range(max(1, slices[0].size))]).reshape(slices[0].shape)
                       for _ in range(N)]
            try:
                real = np.asarray(tree.gather_slices(iter(sls)))
            except Exception as e:
                ctx.fail("gather_slices raised %r" % (e,), rec)
                continue
            add("gather%d_%s" % (ci, variant),
                "tabulate (gather_slices %s %s [%s])" % (sl, out, "; ".join(tens_lit(a) for a in sls)),
                coq(tab(real)), rec, "gather_slices (%s slices)" % variant)
        # K5: gen_output_chunks(with_key=True)
        try:
            chunks = [(tab(np.asarray(c)), key_items(k)) for c, k in tree.gen_output_chunks(arrays, with_key=True)]
            add("chunks%d" % ci,
                "map (fun ck => (tabulate (fst ck), snd ck)) (gen_output_chunks %s %s (fun i => nth i [%s] dummy_t))" % (
                    st, out, "; ".join(tens_lit(a) for a in slices)),
                coq(chunks), rec, "gen_output_chunks(with_key=True)")
        except Exception as e:
            ctx.fail("gen_output_chunks raised %r" % (e,), rec)
    # oracle
    if check_oracle(ctx, rng, rec, inputs, output, size_dict, tree, arrays, slices):
        oracle_bad.add(ci)


def run(ctx):
    if not standard_proof_steps(ctx):
        return
    import numpy as np
    import cotengra as ctg
    from cotengra.core import get_slice_strides

    rng = ctx.rng
    ncases = ctx.n(300, 2500)
    cap = ctx.n(64, 128)
    cases, records = [], []
    oracle_bad = set()

    def add(label, lhs, rhs, rec, what):
        cases.append((label, lhs, rhs))
        records.append((rec, what))

    for ci in range(ncases):
        inputs, output, size_dict, path, tree, ops, raises = make_case(rng, ctx.quick, cap)
        rec = {"inputs": inputs, "output": output, "size_dict": size_dict, "path": path, "ops": ops}
        for f in gen.net_features(inputs, output, size_dict):
            ctx.count(f)
        sis = list(tree.sliced_inds.values())
        feats = set()
        for s in sis:
            feats.update(classify(inputs, output, s.ind))
            if s.project is not None:
                feats.add("projected_output" if s.ind in output else "projected_inner")
            if size_dict[s.ind] == 1:
                feats.add("sliced_size1")
        if len({s.size for s in sis if s.project is None}) >= 2:
            feats.add("mixed_sizes")
        if sum(1 for s in sis if s.ind in output) >= 2:
            feats.add("two_output_sliced")
        if any(raises):
            feats.add("raising_op")
        if any(o[0] == "restore" for o in ops):
            feats.add("restore_op")
        for f in feats:
            ctx.count(f)
        try:
            one_network(ctx, rng, ci, rec, inputs, output, size_dict, tree, ops, raises, sis, add, oracle_bad)
        except Exception as e:   # the implementation must not raise on a validly sliced tree
            import traceback
            ctx.fail("implementation raised on a sliced tree: %r" % (e,),
                     dict(rec, traceback=traceback.format_exc()[-1500:]))
            oracle_bad.add(ci)
        ctx.case((inputs, output, tuple(sorted(size_dict.items())), path, tuple(ops)),
                 nontrivial=bool(sis) and (len(sis) >= 2 or bool(feats & {"sliced_output", "sliced_hyper", "sliced_leaf_only",
                                                                         "projected_output", "projected_inner"})),
                 sample=rec if ci < 4 else None)

    # exhaustive slice numbering of larger mixed-radix systems (no contraction needed)
    nbig = ctx.n(12, 60)
    bigcap = ctx.n(600, 4096)
    for bi in range(nbig):
        k = rng.randint(2, 5)
        syms = list(gen.SYMS[:k + 2])
        size_dict = {s: rng.choice([1, 2, 3, 4, 5, 7, 8]) for s in syms}
        inputs = [tuple(syms[:len(syms) // 2 + 1]), tuple(syms[len(syms) // 2:]), tuple(rng.sample(syms, 2))]
        output = tuple(s for s in syms if rng.random() < 0.5)
        tree = ctg.ContractionTree.from_path(inputs, output, size_dict, path=[(0, 1), (0, 1)])
        order = rng.sample(syms, k)
        for s in order:
            if rng.random() < 0.2:
                tree.remove_ind_(s, project=rng.randrange(size_dict[s]))
            elif tree.multiplicity * size_dict[s] <= bigcap:
                tree.remove_ind_(s)
        N = tree.nslices
        sl = sl_lit(tree)
        rec = {"inputs": inputs, "output": output, "size_dict": size_dict, "removed_in_order": order}
        keys = [key_items(tree.slice_key(i)) for i in range(N)]
        add("bigkeys%d" % bi,
            "(get_slice_strides %s, map (slice_key %s) (seq 0 %d))" % (sl, sl, N),
            coq((get_slice_strides(tree.sliced_inds), keys)), rec, "exhaustive slice_key table, %d slices" % N)
        # the same table judged by the verified checker inside Coq
        add("bigkeys_checked%d" % bi, "sl_ok_b %s %s" % (coq([gen.IDX[c] for c in output]), st_lit(tree)), "true", rec,
            "verified checker sl_ok_b (hypotheses of the C06 theorems) on the real sliced_inds / multiplicity")
        ctx.count("exhaustive_key_tables")
        ctx.count("exhaustive_slice_numbers", N)
        if len(set(map(tuple, keys))) != N:
            ctx.fail("two slice numbers share a key", rec)

    ctx.log("generated %d correspondence cases over %d networks" % (len(cases), ncases))
    failing = ctx.coq_cases("c06", IMPORTS + ["SliceFacts"], cases, chunk=40, timeout=900)
    for idx, label, val in failing:
        rec, what = records[idx] if idx < len(records) else ({}, "?")
        rec = dict(rec)
        rec["correspondence"] = what
        rec["case"] = label
        rec["model_value"] = val
        ctx.fail("model and implementation disagree: " + what, rec, found_input=False)
    ctx.coverage["rule"] = (
        "random networks (2..6/7 tensors, dims 1..4, hyper/repeated/scalar/disconnected/size-1 features), uniform random "
        "trees, random histories of remove_ind (slice or project, output indices favoured) and restore_ind incl. calls that "
        "raise; for each: state, strides, every slice key, slice_arrays on injective arrays, gather_slices on real and random "
        "integer slices, gen_output_chunks; plus exhaustive key tables of larger mixed-radix systems.  non-trivial = at least "
        "one removed index that is output/hyper/leaf-only/projected or >= 2 removed; distinct by (network, path, history)")
    ctx.assumptions = [
        "numpy basic indexing, stack and + have the positional semantics written in Model/Slice.v (select/stack/tadd); "
        "validated against numpy on integer arrays each run, not proved",
        "index labels are compared as Python strings by SliceInfo's ordering and as numbers in the model; the harness uses "
        "single lower-case letters, on which both orders agree",
        "contract_core (the per-slice contraction) is the subject of C01, here it is judged only by the oracle",
        "correspondence is executed, not proved (hand-written model)"]


if __name__ == "__main__":
    main(PROP, run)

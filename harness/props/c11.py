"""C11 -- cotengra's matmul-based einsum and tensordot agree with the reference.

Correspondence (every run): the plan tuples of the real parsers
(_sanitize_equation, _parse_einsum_single, _parse_eq_to_batch_matmul,
_parse_tensordot_axes_to_matmul) against Model/BMM.v, and the model executor
(Model/ArrayOps.v) against cotengra.contract.einsum / tensordot AND numpy on
integer arrays.  Oracle: cotengra.contract.einsum / tensordot == numpy.einsum /
numpy.tensordot, exactly, both with the backend einsum available and with it
removed (so that the diag/sum/transpose fallback of _einsum_single runs)."""
import contextlib
import itertools
import json
import os

from vlib.core import VERIF, Raw, Some, Z, coq, main, standard_proof_steps

PROP = "C11"
LETTERS = "abcdefghijklmnopqrstuvwxyzABCDEFGHIJKLMNOPQRSTUVWXYZ"


# advisory source pins (DESIGN.md 4.1): sha1 of the docstring-free AST of every modelled function at the
# time the model was written.  A changed pin is NOT a failure: it is recorded in the evidence and
# triples the generated-case budget of the quick tier.
PINS = {
    "_sanitize_equation": "4d6cc1af94d7",
    "_parse_einsum_single": "938fceb352f6",
    "_parse_eq_to_pure_multiplication": "c3ff0297d974",
    "_parse_eq_to_batch_matmul": "bf8bfd4d2384",
    "_einsum_single": "d5a81879f3b3",
    "_do_contraction_via_bmm": "a2cce8422355",
    "einsum": "998885176343",
    "_parse_tensordot_axes_to_matmul": "a58fd00037a1",
    "tensordot": "052256c37bc8",
}


def changed_pins():
    import ast
    import hashlib
    import inspect
    import sys
    import textwrap
    from cotengra.contract import einsum  # noqa: F401  (forces the import of the module)
    mod = sys.modules["cotengra.contract"]
    changed = []
    for name, want in PINS.items():
        try:
            f = getattr(mod, name)
            f = getattr(f, "__wrapped__", f)
            tree = ast.parse(textwrap.dedent(inspect.getsource(f)))
            for node in ast.walk(tree):
                if isinstance(node, ast.FunctionDef) and node.body and isinstance(node.body[0], ast.Expr) \
                        and isinstance(getattr(node.body[0], "value", None), ast.Constant) \
                        and isinstance(node.body[0].value.value, str):
                    node.body = node.body[1:]
            got = hashlib.sha1(ast.dump(tree).encode()).hexdigest()[:12]
        except Exception as e:  # noqa
            got = "unreadable: %r" % (e,)
        if got != want:
            changed.append(name)
    return changed


# ---------------------------------------------------------------------------
# encoding of strings / plans / tensors in the model's layout
def enc(s):
    """equation string -> list of character codes (',':0 '->':1 ' ':2 '.':3 letters 4+)"""
    out, i = [], 0
    while i < len(s):
        if s.startswith("->", i):
            out.append(1)
            i += 2
            continue
        c = s[i]
        if c == ",":
            out.append(0)
        elif c == " ":
            out.append(2)
        elif c == ".":
            out.append(3)
        else:
            out.append(4 + LETTERS.index(c))
        i += 1
    return out


def enc_pre(p):
    if p is None:
        return None
    if isinstance(p, tuple):
        return Some((True, [int(v) for v in p]))
    return Some((False, enc(p)))


def enc_oshape(s):
    return None if s is None else Some([int(v) for v in s])


def enc_bmm_plan(plan):
    eq_a, eq_b, nsa, nsb, nsab, perm_ab, pure = plan
    return (enc_pre(eq_a), enc_pre(eq_b), enc_oshape(nsa), enc_oshape(nsb), enc_oshape(nsab),
            enc_oshape(perm_ab), bool(pure))


def enc_selector(sel):
    out = []
    for s in sel:
        if isinstance(s, slice):
            assert s == slice(None)
            out.append(None)
        else:
            assert tuple(s) == tuple(range(len(s)))
            out.append(Some(len(s)))
    return out


def enc_single_plan(plan):
    diag_sels, sum_axes, perm = plan
    return (None if diag_sels is None else Some([enc_selector(s) for s in diag_sels]),
            enc_oshape(sum_axes), enc_oshape(perm))


def enc_tensor(x):
    import numpy as np
    x = np.asarray(x)
    return ([int(d) for d in x.shape], [Z(int(v)) for v in x.reshape(-1).tolist()])


def lit(x):
    """Coq literal with explicit types where inference needs help"""
    return coq(x)


def tensor_lit(x):
    sh, data = enc_tensor(x)
    return "((%s : list nat), (%s : list Z))" % (coq(sh), coq(data))


def opt(x):
    return Raw("None") if x is None else Raw("(Some %s)" % x)


# ---------------------------------------------------------------------------
# generators
def all_terms(syms, maxrank):
    for r in range(maxrank + 1):
        for t in itertools.product(syms, repeat=r):
            yield "".join(t)


def canonical(*strs):
    """labels appear in first-appearance order a,b,c,...?"""
    seen = []
    for s in strs:
        for c in s:
            if c not in seen:
                seen.append(c)
    return seen == sorted(seen) and "".join(seen) == LETTERS[: len(seen)]


def all_eq2(nsym, maxrank):
    syms = LETTERS[:nsym]
    for ta in all_terms(syms, maxrank):
        for tb in all_terms(syms, maxrank):
            if not canonical(ta, tb):
                continue
            present = sorted(set(ta + tb))
            for k in range(len(present) + 1):
                for out in itertools.permutations(present, k):
                    yield ta, tb, "".join(out)


def all_eq1(nsym, maxrank):
    syms = LETTERS[:nsym]
    for ta in all_terms(syms, maxrank):
        if not canonical(ta):
            continue
        present = sorted(set(ta))
        for k in range(len(present) + 1):
            for out in itertools.permutations(present, k):
                yield ta, "".join(out)


def rand_term(rng, syms, maxrank):
    return "".join(rng.choice(syms) for _ in range(rng.randint(0, maxrank)))


def rand_eq2(rng, nsym, maxrank):
    syms = LETTERS[: rng.randint(1, nsym)]
    ta = rand_term(rng, syms, maxrank)
    tb = rand_term(rng, syms, maxrank)
    r = rng.random()
    if r < 0.15 and ta:                      # Hadamard-like: same label set
        tb = "".join(rng.sample(ta, len(ta)))
    elif r < 0.25:                           # pure outer product
        tb = "".join(LETTERS[nsym + i] for i in range(rng.randint(0, maxrank)))[:maxrank]
    present = sorted(set(ta + tb))
    k = rng.randint(0, len(present))
    out = "".join(rng.sample(present, k))
    return ta, tb, out


def struct_eq2(rng):
    """an equation built from the four index classes of the bmm plan (batch, contracted, kept-left,
    kept-right), optionally with repeated labels, a summed-only label and a permuted / natural output"""
    pool = list(LETTERS[:8])
    rng.shuffle(pool)
    nb, nc, nka, nkb = rng.choice([0, 0, 1, 2]), rng.choice([1, 1, 2, 0]), rng.choice([0, 1, 1, 2]), rng.choice([0, 1, 1, 2])
    bat, pool = pool[:nb], pool[nb:]
    con, pool = pool[:nc], pool[nc:]
    ka, pool = pool[:nka], pool[nka:]
    kb, pool = pool[:nkb], pool[nkb:]
    ta, tb = bat + ka + con, bat + con + kb
    natural = rng.random() < 0.35
    if not natural:
        rng.shuffle(ta)
        rng.shuffle(tb)
    for t in (ta, tb):
        if t and rng.random() < 0.2 and len(t) < 4:
            t.insert(rng.randint(0, len(t)), rng.choice(t))      # repeated label
        if rng.random() < 0.1 and len(t) < 4:
            t.insert(rng.randint(0, len(t)), pool[0])              # a label that is only summed
    out = bat + ka + kb
    if rng.random() < 0.5:
        rng.shuffle(out)
    return "".join(ta[:4]), "".join(tb[:4]), "".join(c for c in out if c in ta[:4] or c in tb[:4])


def style_eq(rng, ta, tb, out):
    """the same equation written explicitly, with an implicit output, and / or with blanks.
    returns (equation string, effective output, style)"""
    r = rng.random()
    implicit = r < 0.10 or 0.20 <= r < 0.24
    blanks = 0.10 <= r < 0.24
    if implicit:
        both = ta + tb
        out = "".join(c for c in sorted(set(both)) if both.count(c) == 1)
        toks = list(ta) + [","] + list(tb)
    else:
        toks = list(ta) + [","] + list(tb) + ["->"] + list(out)
    if blanks:
        toks = [(" " * rng.randint(0, 2) if (t in (",", "->") or rng.random() < 0.2) else "") + t for t in toks]
        toks.append(" " * rng.randint(0, 2))
        if not any(" " in t for t in toks):
            toks.insert(0, " ")
    style = ("implicit" if implicit else "explicit") + ("+blanks" if blanks else "")
    return "".join(toks), out, style


def rand_sizes(rng, labels, p1=0.3):
    return {c: (1 if rng.random() < p1 else rng.randint(2, 3)) for c in labels}


def rand_array(rng, shape):
    import numpy as np
    n = 1
    for d in shape:
        n *= d
    return np.array([rng.randint(-9, 9) for _ in range(n)], dtype=np.int64).reshape(shape)


def features2(ta, tb, out, sa, sb):
    f = set()
    if len(set(ta)) < len(ta) or len(set(tb)) < len(tb):
        f.add("repeated_in_operand")
    sh = set(ta) & set(tb)
    if any(c in out for c in sh):
        f.add("batch")
    if any(c not in out for c in sh):
        f.add("contracted")
    if not sh and ta and tb:
        f.add("outer")
    if set(ta) == set(tb) and ta and set(out) == set(ta):
        f.add("hadamard")
    if 1 in sa or 1 in sb:
        f.add("size1")
    keep = "".join(c for c in ta + tb if c in out)
    if out and list(out) != [c for c in dict.fromkeys(keep)]:
        f.add("out_permuted")
    if any(c not in out and c not in tb for c in ta) or any(c not in out and c not in ta for c in tb):
        f.add("summed_single")
    if not ta or not tb:
        f.add("scalar_operand")
    return f


@contextlib.contextmanager
def no_backend_einsum():
    """make autoray's numpy einsum unavailable, so _einsum_single takes its own path"""
    import autoray
    import numpy as np

    def noeinsum(*a, **k):
        raise ImportError("einsum disabled by the C11 harness")

    autoray.register_function("numpy", "einsum", noeinsum)
    try:
        yield
    finally:
        autoray.register_function("numpy", "einsum", np.einsum)


def outcome(f, *args, **kw):
    import numpy as np
    try:
        r = f(*args, **kw)
    except Exception as e:  # noqa
        return ("raises", type(e).__name__, str(e)[:120])
    r = np.asarray(r)
    return ("ok", tuple(int(d) for d in r.shape), [int(v) for v in r.reshape(-1).tolist()])


def same(o1, o2):
    return o1[0] == "ok" and o2[0] == "ok" and o1[1] == o2[1] and o1[2] == o2[2]


# ---------------------------------------------------------------------------
def run(ctx):
    if not standard_proof_steps(ctx):
        return
    import numpy as np
    import cotengra.contract as cc
    from cotengra.contract import (_do_contraction_via_bmm, _parse_einsum_single, _parse_eq_to_batch_matmul,
                                   _parse_tensordot_axes_to_matmul, _sanitize_equation, einsum, tensordot)

    rng = ctx.rng
    IMPORTS = ["Base", "BMM", "ArrayOps"]
    pins = changed_pins()
    boost = 3 if (pins and ctx.quick) else 1
    ctx.coverage["source_pins_changed"] = pins
    if pins:
        ctx.notes.append("modelled functions whose source changed since the model was written: %s "
                         "(advisory; generated-case budget x%d)" % (", ".join(pins), boost))

    # =======================================================================
    # oracle helpers (implementation vs numpy, both _einsum_single modes)
    def judge_einsum(eq, arrays, rec, known=None):
        """cotengra.contract.einsum must equal numpy.einsum whenever numpy accepts."""
        ref = outcome(np.einsum, eq.replace(" ", ""), *arrays)   # numpy ignores blanks
        if ref[0] != "ok":
            return True   # the reference rejects: nothing is demanded
        ok = True
        for mode in ("backend_einsum", "own_single"):
            cm = no_backend_einsum() if mode == "own_single" else contextlib.nullcontext()
            with cm:
                got = outcome(einsum, eq, *arrays)
            if not same(got, ref):
                r = dict(rec)
                r.update({"call": "cotengra.contract.einsum(%r, ...)" % eq, "mode": mode,
                          "arrays": [enc_tensor(a)[1] for a in arrays], "got": got, "numpy": ref})
                ctx.fail("cotengra.contract.einsum(%r) on shapes %r: %s, numpy.einsum gives %s" % (
                    eq, [a.shape for a in arrays], got[:2] if got[0] == "ok" else got, ref[:2]), r,
                    key=known(got) if known else None)
                ok = False
        return ok

    def judge_tensordot(a, b, axes, rec, known=None):
        ref = outcome(np.tensordot, a, b, axes)
        if ref[0] != "ok":
            return True
        got = outcome(tensordot, a, b, axes)
        if not same(got, ref):
            r = dict(rec)
            r.update({"call": "cotengra.contract.tensordot(a, b, axes=%r)" % (axes,),
                      "arrays": [enc_tensor(a)[1], enc_tensor(b)[1]], "got": got, "numpy": ref})
            ctx.fail("cotengra.contract.tensordot axes=%r shapes %r %r: %s, numpy.tensordot gives %s" % (
                axes, a.shape, b.shape, got[:2] if got[0] == "ok" else got, ref[:2]), r,
                key=known(got) if known else None)
            return False
        return True

    # =======================================================================
    # 0. corpus (regression cases, run first)
    cdir = os.path.join(VERIF, "corpus", PROP)
    corpus = []
    if os.path.isdir(cdir):
        for fn in sorted(os.listdir(cdir)):
            if fn.endswith(".json"):
                corpus.extend(json.load(open(os.path.join(cdir, fn)))["cases"])
    plan2_cases, exec2_cases, recs2p, recs2e, ref_cases = [], [], [], [], []

    def add_two(eq, sa, sb, label, do_exec=True, consistent=True, terms=None):
        """register one two-operand case: plan correspondence (+ executor + oracle)"""
        sa, sb = tuple(sa), tuple(sb)
        rec = {"eq": eq, "shape_a": sa, "shape_b": sb}
        try:
            plan = _parse_eq_to_batch_matmul(eq, sa, sb)
            rhs = "(Some %s)" % coq(enc_bmm_plan(plan))
            ctx.count("plan:pure_mult" if plan[6] else "plan:bmm")
            if isinstance(plan[0], tuple) or isinstance(plan[1], tuple):
                ctx.count("plan:transpose_shortcut")
            if isinstance(plan[0], str) or isinstance(plan[1], str):
                ctx.count("plan:single_step_einsum")
            if plan[4] is not None:
                ctx.count("plan:reshape_out")
            if plan[5] is not None:
                ctx.count("plan:perm_out")
        except Exception as e:  # noqa
            plan = None
            rhs = "None"
            ctx.count("plan:raises")
            rec["raises"] = "%s: %s" % (type(e).__name__, str(e)[:100])
        plan2_cases.append((label, "parse_bmm %s %s %s" % (coq(enc(eq)), coq(list(sa)), coq(list(sb))),
                            "(%s : option bmm_plan)" % rhs))
        recs2p.append(rec)
        if not consistent:
            return
        a, b = rand_array(rng, sa), rand_array(rng, sb)
        okk = judge_einsum(eq, [a, b], rec)
        if do_exec and okk:
            ref = np.einsum(eq.replace(" ", ""), a, b)
            exec2_cases.append((label, "einsum2 %s %s %s" % (coq(enc(eq)), tensor_lit(a), tensor_lit(b)),
                                "(Some %s)" % tensor_lit(ref)))
            recs2e.append(dict(rec, arrays=[enc_tensor(a)[1], enc_tensor(b)[1]]))
            if terms is None:
                ta_, tb_ = eq.split("->")[0].split(",")
                out_ = eq.split("->")[1]
            else:
                ta_, tb_, out_ = terms
            ref_cases.append((label, "einsum_ref [%s; %s] %s [%s; %s]" % (
                coq(enc(ta_)), coq(enc(tb_)), coq(enc(out_)), tensor_lit(a), tensor_lit(b)), tensor_lit(ref)))

    for c in corpus:
        if c.get("kind", "einsum2") == "einsum2":
            ta, tb = c["eq"].split("->")[0].split(",")
            add_two(c["eq"], c["shapes"][0], c["shapes"][1], "corpus:" + c["eq"])
            ctx.count("corpus")
            ctx.case(("corpus", c["eq"], str(c["shapes"])), True,
                     sample={"eq": c["eq"], "shapes": c["shapes"], "source": "corpus"})

    # =======================================================================
    # 1. two-operand equations
    # (a) exhaustive small space, oracle only (cheap): every equation up to renaming
    n_or = 0
    ex_nsym, ex_rank = (3, 2) if ctx.quick else (3, 3)
    for ta, tb, out in all_eq2(ex_nsym, ex_rank):
        eq = "%s,%s->%s" % (ta, tb, out)
        labels = sorted(set(ta + tb))
        for sz in itertools.product((1, 2, 3), repeat=len(labels)):
            d = dict(zip(labels, sz))
            sa, sb = tuple(d[c] for c in ta), tuple(d[c] for c in tb)
            a, b = rand_array(rng, sa), rand_array(rng, sb)
            rec = {"eq": eq, "shape_a": sa, "shape_b": sb}
            # the second (own_single) mode only matters when a single-operand step is an equation
            ref = np.einsum(eq, a, b)
            got = outcome(einsum, eq, a, b)
            if not same(got, ("ok", ref.shape, ref.reshape(-1).tolist())):
                judge_einsum(eq, [a, b], rec)
            n_or += 1
            if out == "":
                for eqi in ("%s,%s" % (ta, tb), " %s , %s " % (ta, tb)):
                    refi = np.einsum(eqi.replace(" ", ""), a, b)
                    goti = outcome(einsum, eqi, a, b)
                    if not same(goti, ("ok", refi.shape, refi.reshape(-1).tolist())):
                        judge_einsum(eqi, [a, b], {"eq": eqi, "shape_a": sa, "shape_b": sb})
                    n_or += 1
                    ctx.count("oracle:einsum2_implicit_output")
            fs = features2(ta, tb, out, sa, sb)
            ctx.case(("e2", eq, sa, sb), nontrivial=bool(fs - {"scalar_operand"}))
    ctx.count("oracle:einsum2_exhaustive", n_or)
    mism = []
    n2 = 0
    with no_backend_einsum():
        for ta, tb, out in all_eq2(ex_nsym, ex_rank):
            eq = "%s,%s->%s" % (ta, tb, out)
            labels = sorted(set(ta + tb))
            for sz in itertools.product((1, 2), repeat=len(labels)):
                d = dict(zip(labels, sz))
                sa, sb = tuple(d[c] for c in ta), tuple(d[c] for c in tb)
                a, b = rand_array(rng, sa), rand_array(rng, sb)
                ref = np.einsum(eq, a, b)
                got = outcome(einsum, eq, a, b)
                n2 += 1
                if not same(got, ("ok", ref.shape, ref.reshape(-1).tolist())) and len(mism) < 5:
                    mism.append((eq, a, b))
    for eq, a, b in mism:
        judge_einsum(eq, [a, b], {"eq": eq, "shape_a": a.shape, "shape_b": b.shape})
    ctx.count("oracle:einsum2_exhaustive_own_single", n2)
    ctx.log("oracle: %d + %d exhaustive two-operand evaluations" % (n_or, n2))

    # (b) correspondence + oracle on generated cases: all small equations once, then random bigger ones
    small = list(all_eq2(2, 2))
    rng.shuffle(small)
    nsmall = ctx.n(250, len(small))
    for ta, tb, out in small[:nsmall]:
        labels = sorted(set(ta + tb))
        d = rand_sizes(rng, labels)
        add_two("%s,%s->%s" % (ta, tb, out), [d[c] for c in ta], [d[c] for c in tb], "small")
    nrand = ctx.n(2400, 20000) * boost
    for i in range(nrand):
        big = i % 3 == 0
        if i % 2:
            ta, tb, out = struct_eq2(rng)
        else:
            ta, tb, out = rand_eq2(rng, 5 if big else 4, 4 if big else 3)
        labels = sorted(set(ta + tb))
        d = rand_sizes(rng, labels, p1=0.12 if i % 2 else 0.3)
        sa, sb = [d[c] for c in ta], [d[c] for c in tb]
        eq, out, style = style_eq(rng, ta, tb, out)
        fs = features2(ta, tb, out, sa, sb)
        for f in fs:
            ctx.count(f)
        ctx.count("eq2:" + style)
        nel = int(np.prod(sa or [1])) * int(np.prod(sb or [1]))
        add_two(eq, sa, sb, "rand%d" % i, do_exec=(i % 3 != 2 and nel <= 1500), terms=(ta, tb, out))
        ctx.case(("e2", eq, tuple(sa), tuple(sb)), nontrivial=bool(fs - {"scalar_operand"}),
                 sample={"eq": eq, "shape_a": sa, "shape_b": sb, "features": sorted(fs)} if i < 3 else None)
    # (c) parser-only cases with shapes that are NOT consistent (mismatched sizes, 1-vs-n, wrong rank,
    #     output label absent from the inputs): the model must raise / plan exactly like the code
    for i in range(ctx.n(300, 3000)):
        ta, tb, out = rand_eq2(rng, 3, 3)
        sa = [rng.randint(1, 3) for _ in ta]
        sb = [rng.randint(1, 3) for _ in tb]
        r = rng.random()
        if r < 0.1:
            sa = sa + [2]
        elif r < 0.2 and sb:
            sb = sb[:-1]
        elif r < 0.3:
            out = out + rng.choice("abcd")
        add_two("%s,%s->%s" % (ta, tb, out), sa, sb, "incons%d" % i, consistent=False)
        ctx.count("inconsistent_shape_parser_case")

    # =======================================================================
    # 2. single-operand equations: _sanitize_equation, _parse_einsum_single, executor, oracle
    san_cases, p1_cases, e1_cases, recs1p, recs1e = [], [], [], [], []
    n1 = 0
    for ta, out in all_eq1(3, 4 if ctx.quick else 5):
        eq = "%s->%s" % (ta, out)
        labels = sorted(set(ta))
        for sz in itertools.product((1, 2, 3), repeat=len(labels)):
            d = dict(zip(labels, sz))
            sa = tuple(d[c] for c in ta)
            a = rand_array(rng, sa)
            judge_einsum(eq, [a], {"eq": eq, "shape_a": sa})
            n1 += 1
    ctx.count("oracle:einsum1_exhaustive", n1)
    ctx.log("oracle: %d exhaustive single-operand evaluations (x2 modes)" % n1)

    def add_single(eq, sa, label, do_exec=True):
        sa = tuple(sa)
        rec = {"eq": eq, "shape_a": sa}
        try:
            plan = _parse_einsum_single(eq, sa)
            rhs = "(Some %s)" % coq(enc_single_plan(plan))
            for nm, v in zip(("diag", "sum", "perm"), plan):
                if v is not None:
                    ctx.count("single:" + nm)
            if plan[0] is not None and len(plan[0]) > 1:
                ctx.count("single:multi_diag")
        except Exception as e:  # noqa
            rhs = "None"
            rec["raises"] = "%s: %s" % (type(e).__name__, str(e)[:100])
            ctx.count("single:raises")
        p1_cases.append((label, "parse_single %s %s" % (coq(enc(eq)), coq(list(sa))),
                         "(%s : option single_plan)" % rhs))
        recs1p.append(rec)
        if do_exec:
            a = rand_array(rng, sa)
            if outcome(np.einsum, eq, a)[0] == "ok" and judge_einsum(eq, [a], rec):
                ref = np.einsum(eq, a)
                e1_cases.append((label, "einsum_single %s %s" % (coq(enc(eq)), tensor_lit(a)),
                                 "(Some %s)" % tensor_lit(ref)))
                recs1e.append(dict(rec, arrays=[enc_tensor(a)[1]]))
                if "->" in eq and " " not in eq:
                    ref_cases.append((label, "einsum_ref [%s] %s [%s]" % (
                        coq(enc(eq.split("->")[0])), coq(enc(eq.split("->")[1])), tensor_lit(a)), tensor_lit(ref)))

    for c in corpus:
        if c.get("kind") == "einsum1":
            add_single(c["eq"], c["shapes"][0], "corpus:" + c["eq"])
            ctx.count("corpus")
    for i in range(ctx.n(700, 7000) * boost):
        nsym = rng.randint(1, 5 if i % 3 == 0 else 3)
        syms = LETTERS[:nsym]
        ta = rand_term(rng, syms, 5 if i % 4 == 0 else 4)
        labels = sorted(set(ta))
        out = "".join(rng.sample(labels, rng.randint(0, len(labels))))
        d = rand_sizes(rng, labels)
        sa = [d[c] for c in ta]
        r = rng.random()
        if r < 0.12:
            eq = ta                                   # implicit output
            ctx.count("single:implicit_output")
        elif r < 0.2:
            eq = " %s -> %s " % (ta, " ".join(out))   # blanks
            ctx.count("single:blanks")
        elif r < 0.25:
            eq = "%s->%s" % (ta, out + rng.choice("abcd"))   # maybe an absent / repeated output label
        else:
            eq = "%s->%s" % (ta, out)
        if r >= 0.93:
            sa = [rng.randint(1, 3) for _ in ta]      # possibly inconsistent: parser correspondence only
            add_single(eq, sa, "single%d" % i, do_exec=False)
        else:
            add_single(eq, sa, "single%d" % i, do_exec=int(np.prod(sa or [1])) <= 600)
        ctx.case(("e1", eq, tuple(sa)), nontrivial=len(set(ta)) < len(ta) or len(ta) >= 2,
                 sample={"eq": eq, "shape_a": sa} if i < 2 else None)
    # _sanitize_equation on strings with commas / blanks / arrows / dots
    for i in range(ctx.n(200, 2000)):
        toks = [rng.choice(["a", "b", "c", "d", ",", " ", "->", "."] + ["a", "b", "c"]) for _ in range(rng.randint(0, 8))]
        if rng.random() < 0.1:
            toks.insert(rng.randint(0, len(toks)), "...")
        s = "".join(toks)
        if "-" in s.replace("->", "") or ">" in s.replace("->", ""):
            continue
        try:
            lhs, out = _sanitize_equation(s)
            rhs = "(Some %s)" % coq((enc(lhs), enc(out)))
        except Exception:  # noqa
            rhs = "None"
            ctx.count("sanitize:raises")
        san_cases.append((s, "sanitize %s" % coq(enc(s)), "(%s : option (str * str))" % rhs))

    # =======================================================================
    # 3. tensordot: every axes specification
    tdp_cases, tde_cases, recst = [], [], []

    def spec_lit(axes):
        if isinstance(axes, int):
            return "(AxInt %d)" % axes
        return "(AxPair %s %s)" % (coq([Z(v) for v in axes[0]]), coq([Z(v) for v in axes[1]]))

    def add_tdot(sa, sb, axes, label, do_exec=True):
        sa, sb = tuple(sa), tuple(sb)
        rec = {"axes": axes, "shape_a": sa, "shape_b": sb}
        hax = axes if isinstance(axes, int) else (tuple(axes[0]), tuple(axes[1]))
        try:
            plan = _parse_tensordot_axes_to_matmul(hax, sa, sb)
            rhs = "(Some %s)" % coq(enc_bmm_plan(plan))
        except Exception as e:  # noqa
            plan = None
            rhs = "None"
            rec["raises"] = "%s: %s" % (type(e).__name__, str(e)[:100])
            ctx.count("tdot:raises")
        tdp_cases.append((label, "parse_tdot %s %s %s" % (spec_lit(axes), coq(list(sa)), coq(list(sb))),
                          "(%s : option bmm_plan)" % rhs))
        recst.append(rec)
        a, b = rand_array(rng, sa), rand_array(rng, sb)
        ref = outcome(np.tensordot, a, b, axes)
        if ref[0] != "ok":
            return
        ok = judge_tensordot(a, b, axes, rec)
        if isinstance(axes, int):
            # besides the wrapper, the plan and the executor of the real code must be right
            if plan is not None:
                got = outcome(_do_contraction_via_bmm, a, b, *plan, None)
                if not same(got, ref):
                    ctx.fail("_parse_tensordot_axes_to_matmul(%r) + _do_contraction_via_bmm differ from numpy.tensordot" % (axes,),
                             dict(rec, got=got, numpy=ref, arrays=[enc_tensor(a)[1], enc_tensor(b)[1]]))
        if do_exec and plan is not None and ok:
            tde_cases.append((label, "tensordot %s %s %s" % (spec_lit(axes), tensor_lit(a), tensor_lit(b)),
                              "(Some %s)" % tensor_lit(np.tensordot(a, b, axes))))
            if not isinstance(axes, int):
                na = [v % len(sa) if len(sa) else v for v in axes[0]]
                nb = [v % len(sb) if len(sb) else v for v in axes[1]]
                ref_cases.append((label, "tensordot_ref %s %s %s %s" % (coq(na), coq(nb),
                                                                       tensor_lit(a), tensor_lit(b)),
                                  tensor_lit(np.tensordot(a, b, axes))))
        ctx.count("tdot:int" if isinstance(axes, int) else "tdot:pair")
        if not isinstance(axes, int) and any(v < 0 for v in axes[0] + axes[1]):
            ctx.count("tdot:negative_axes")

    specs = []
    for ra in range(0, 4):
        for rb in range(0, 4):
            for k in range(0, min(ra, rb) + 1):
                specs.append((ra, rb, k))
                for xa in itertools.permutations(range(ra), k):
                    for xb in itertools.permutations(range(rb), k):
                        specs.append((ra, rb, (list(xa), list(xb))))
    specs = specs * ctx.n(2, 8)          # several shape draws per specification
    rng.shuffle(specs)
    for i, (ra, rb, axes) in enumerate(specs[: ctx.n(350, len(specs))]):
        # shapes consistent with the axes
        sa = [1 if rng.random() < 0.25 else rng.randint(2, 3) for _ in range(ra)]
        sb = [1 if rng.random() < 0.25 else rng.randint(2, 3) for _ in range(rb)]
        if isinstance(axes, int):
            for k in range(axes):
                sb[k] = sa[ra - axes + k]
        else:
            for xa, xb in zip(*axes):
                sb[xb] = sa[xa]
        if rng.random() < 0.08 and sb:
            sb[rng.randrange(rb)] = 4          # probably a mismatch: both must raise
        if not isinstance(axes, int) and axes[0] and rng.random() < 0.45:
            # negative axes count from the end (numpy accepts them; normalised since /repo eebb3ef)
            axes = ([x - ra if rng.random() < 0.5 else x for x in axes[0]],
                    [x - rb if rng.random() < 0.6 else x for x in axes[1]])
        add_tdot(sa, sb, axes, "tdot%d" % i)
        ctx.case(("td", tuple(sa), tuple(sb), str(axes)), nontrivial=ra + rb >= 2,
                 sample={"axes": axes, "shape_a": sa, "shape_b": sb} if i < 2 else None)
    # some malformed specifications: unequal lengths, out-of-range, duplicate axes (parser correspondence)
    for axes, sa, sb in [(([0], [0, 1]), (2, 2), (2, 2)), (([2], [0]), (2, 2), (2, 2)), (([0, 0], [0, 1]), (2, 2), (2, 2)),
                         (([0, 1], [0, 0]), (2, 2), (2, 2)), (3, (2, 2), (2, 2)), (([0], [2]), (2, 2), (2, 2)),
                         (([-3], [0]), (2, 2), (2, 2)), (([0], [-3]), (2, 2), (2, 2)), (([-1, 1], [0, 1]), (2, 2), (2, 2)),
                         (([0, 1], [-1, 1]), (2, 2), (2, 2)), (1, (), (2,)), (2, (2,), (2, 2))]:
        sa, sb = tuple(sa), tuple(sb)
        hax = axes if isinstance(axes, int) else (tuple(axes[0]), tuple(axes[1]))
        try:
            rhs = "(Some %s)" % coq(enc_bmm_plan(_parse_tensordot_axes_to_matmul(hax, sa, sb)))
        except Exception:  # noqa
            rhs = "None"
        tdp_cases.append(("malformed %r" % (axes,), "parse_tdot %s %s %s" % (spec_lit(axes), coq(list(sa)), coq(list(sb))),
                          "(%s : option bmm_plan)" % rhs))
        recst.append({"axes": axes, "shape_a": sa, "shape_b": sb})

    # =======================================================================
    # 4. regressions of the three defects fixed in /repo f268afe, eebb3ef, 23dce6e (they were known findings):
    #    fixed probes + the repros kept in corpus/C11/known_findings.json, judged as ordinary cases
    a23, b34 = rand_array(rng, (2, 3)), rand_array(rng, (3, 4))
    for axes in (1, 0, ([1], [-2]), ([-1], [-2]), ([-1], [0])):
        judge_tensordot(a23, b34, axes, {"probe": "tensordot axes=%r" % (axes,)})
    judge_tensordot(a23, a23, 2, {"probe": "tensordot default axes"})
    dflt = outcome(tensordot, a23, a23)
    if not same(dflt, outcome(np.tensordot, a23, a23)):
        ctx.fail("cotengra.contract.tensordot(a, b) with the default axes=2: %r" % (dflt[:2],),
                 {"probe": "tensordot default axes", "got": dflt, "arrays": [enc_tensor(a23)[1], enc_tensor(a23)[1]]})
    for eq in ("ab,bc", "ab, bc -> ac", "ab,bc->ac ", " ab , bc "):
        judge_einsum(eq, [a23, b34], {"probe": "two-operand equation %r" % eq})
    for c in corpus:
        kind = c.get("kind")
        if kind == "tensordot":
            x, y = rand_array(rng, c["shapes"][0]), rand_array(rng, c["shapes"][1])
            axes = c["axes"] if isinstance(c["axes"], int) else (list(c["axes"][0]), list(c["axes"][1]))
            judge_tensordot(x, y, axes, {"corpus": c})
            add_tdot(c["shapes"][0], c["shapes"][1], axes, "corpus:tensordot %r" % (axes,))
            ctx.count("corpus")
        elif kind == "einsum2_raw":
            x, y = rand_array(rng, c["shapes"][0]), rand_array(rng, c["shapes"][1])
            judge_einsum(c["eq"], [x, y], {"corpus": c})
            lhs_ = c["eq"].replace(" ", "").split("->")[0]
            ta_, tb_ = lhs_.split(",")
            out_ = (c["eq"].replace(" ", "").split("->")[1] if "->" in c["eq"]
                    else "".join(ch for ch in sorted(set(ta_ + tb_)) if (ta_ + tb_).count(ch) == 1))
            add_two(c["eq"], c["shapes"][0], c["shapes"][1], "corpus:" + c["eq"], terms=(ta_, tb_, out_))
            ctx.count("corpus")

    # =======================================================================
    # 5. run the model on everything collected
    ctx.log("coq cases: plan2 %d exec2 %d single-plan %d single-exec %d sanitize %d tdot-plan %d tdot-exec %d" % (
        len(plan2_cases), len(exec2_cases), len(p1_cases), len(e1_cases), len(san_cases), len(tdp_cases), len(tde_cases)))
    groups = [
        ("plan2", plan2_cases, recs2p, "Model/BMM.v parse_bmm vs _parse_eq_to_batch_matmul (plan tuple)"),
        ("exec2", exec2_cases, recs2e, "Model/ArrayOps.v einsum2 vs cotengra.contract.einsum == numpy.einsum"),
        ("plan1", p1_cases, recs1p, "Model/BMM.v parse_single vs _parse_einsum_single (plan tuple)"),
        ("exec1", e1_cases, recs1e, "Model/ArrayOps.v einsum_single vs cotengra.contract.einsum == numpy.einsum"),
        ("sanitize", san_cases, None, "Model/BMM.v sanitize vs _sanitize_equation"),
        ("tdotplan", tdp_cases, recst, "Model/BMM.v parse_tdot vs _parse_tensordot_axes_to_matmul (plan tuple)"),
        ("tdotexec", tde_cases, None, "Model/ArrayOps.v tensordot vs numpy.tensordot"),
        ("reference", ref_cases, None, "Model/ArrayOps.v einsum_ref / tensordot_ref (the Coq reference) vs numpy.einsum / numpy.tensordot"),
    ]
    for name, cases, recs, what in groups:
        failing = ctx.coq_cases(name, IMPORTS, cases, chunk=200)
        for idx, label, val in failing[:20]:
            rec = dict(recs[idx]) if recs and idx < len(recs) else {}
            rec.update({"correspondence": what, "case": label, "model_term": cases[idx][1] if idx < len(cases) else None,
                        "code_value": cases[idx][2] if idx < len(cases) else None, "model_value": val})
            # the oracle has judged the implementation on this very input already (judge_* above)
            ctx.fail("model and implementation disagree: " + what, rec, found_input=False)

    # a thorough run also evaluates the bounded sweep theorem's checker on a larger box
    ctx.coverage["rule"] = (
        "two-operand: every equation up to renaming over <=3 labels with operand rank <=%d x every size assignment from "
        "{1,2,3} (oracle, backend-einsum mode; sizes {1,2} in own-single mode) + all equations over 2 labels rank<=2 + random "
        "equations over <=5 labels rank<=4 (Hadamard / outer / repeated labels forced with fixed probabilities) x random "
        "sizes {1,2,3} (plan and executor correspondence + oracle in both modes) + inconsistent shapes (plan only); "
        "single-operand: exhaustive <=3 labels rank<=%d (oracle) + random incl. implicit output, blanks, bad outputs; "
        "tensordot: every (rank_a, rank_b <=3, int k | ordered axis pairs) x random sizes; "
        "non-trivial = has a perverse feature (repeat/batch/outer/Hadamard/size-1/permuted output)" % (
            ex_rank, 4 if ctx.quick else 5))
    ctx.assumptions = [
        "numpy's transpose/reshape/matmul/multiply/sum/advanced indexing are modelled in Model/ArrayOps.v, not verified; "
        "the model is compared with numpy on integer arrays each run",
        "correspondence is executed, not proved (hand-written model)",
        "the bounded sweep theorem holds for the entries in its statement; that it extends to all entries relies on both "
        "sides being bilinear forms with small natural coefficients (argued in docs/C11.md, not proved in Coq)",
    ]
    ctx.trusted.append("numpy.einsum / numpy.tensordot as the reference implementation of the oracle "
                       "(the Coq reference einsum_ref is compared with numpy through the bounded theorem and the executor cases)")


if __name__ == "__main__":
    main(PROP, run)

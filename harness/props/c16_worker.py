"""C16 worker: runs the real cotengra optimizer objects (in a subprocess of the check).

stdin : JSON {"jobs": [job, ...]}        stdout: one line "RESULT " + JSON [result, ...]
job kinds
  forced : threads driven through one shared optimizer object under a FORCED schedule.  Yield
           points are placed (by monkeypatching from here, nothing in cotengra changes) exactly
           where Model/Threads.v cuts a query into atomic steps; a controller lets one thread
           run from its yield point to its next one.  Returns the executed schedule, what every
           query got back (provenance and content), and the final shared state.
  seq    : a sequential history of queries through one shared object.
  stress : free-running threads with a tiny switch interval.
Every returned tree / path is judged against the query that asked (content oracle)."""
import json
import sys
import threading
import time

import cotengra as ctg
from cotengra.hyperoptimizers import hyper as H
from cotengra.pathfinders import path_basic as PB
from cotengra import presets as P
from cotengra import reusable as R

TL = threading.local()
WAIT = 30.0

L_BEGIN, L_ALOOKUP, L_ASTORE, L_HASH, L_ALLOC, L_TRIAL, L_PUBLISH, L_CSET, L_COLD, L_FETCH, L_CGET, L_HTRIAL = range(12)
SHARED = {L_ALOOKUP, L_ASTORE, L_HASH, L_PUBLISH, L_CSET, L_COLD, L_FETCH, L_CGET}


class Abort(Exception):
    pass


class Controller:
    """serialises the threads: exactly one runs at a time, from yield point to yield point"""

    def __init__(self, n):
        self.n = n
        self.cv = threading.Condition()
        self.waiting = {}       # idx -> label of the yield point it sits at
        self.finished = set()
        self.turn = None
        self.running = 0        # number of threads currently between yield points (started counts)
        self.trace = []
        self.dead = None

    # -- thread side
    def yield_point(self, label):
        idx = getattr(TL, "idx", None)
        if idx is None:
            return
        with self.cv:
            self.waiting[idx] = label
            self.cv.notify_all()
            t0 = time.time()
            while self.turn != idx:
                if self.dead or time.time() - t0 > WAIT:
                    self.dead = self.dead or "thread %d starved at label %d" % (idx, label)
                    raise Abort()
                self.cv.wait(0.5)
            self.turn = None
            del self.waiting[idx]

    def done(self, idx):
        with self.cv:
            self.finished.add(idx)
            self.cv.notify_all()

    # -- controller side
    def _settled(self):
        return len(self.waiting) + len(self.finished) == self.n and self.turn is None

    def wait_settled(self):
        t0 = time.time()
        while not self._settled():
            if time.time() - t0 > WAIT:
                self.dead = "controller: threads did not settle (waiting %r finished %r)" % (self.waiting, self.finished)
                self.cv.notify_all()
                raise Abort()
            self.cv.wait(0.5)

    def step(self, i):
        """let thread i run one atomic step; returns its label or None if it cannot move"""
        with self.cv:
            self.wait_settled()
            if i in self.finished or i not in self.waiting:
                return None
            lab = self.waiting[i]
            self.trace.append([i, lab])
            self.turn = i
            self.cv.notify_all()
            # wait until it reached its next yield point or finished
            t0 = time.time()
            while not self._settled():
                if time.time() - t0 > WAIT:
                    self.dead = "controller: thread %d did not come back from label %d" % (i, lab)
                    self.cv.notify_all()
                    raise Abort()
                self.cv.wait(0.5)
            return lab

    def all_finished(self):
        with self.cv:
            self.wait_settled()
            return len(self.finished) == self.n


CTL = None


def yp(label):
    c = CTL
    if c is not None:
        c.yield_point(label)


# ---------------------------------------------------------------------------
# registry of what was produced where
class Registry:
    def __init__(self):
        self.lock = threading.Lock()
        self.hobjs = []        # HyperOptimizer / RandomGreedyOptimizer objects by allocation number
        self.robjs = []        # Reusable* objects by allocation number
        self.trees = {}        # id(tree) -> (o, k)
        self.keep = []         # strong refs so that ids stay unique
        self.cons = {}         # id(con dict) -> (src query content, score)
        self.recon = {}        # id(tree) -> src
        self.paths = {}        # id(path tuple) -> ("con", src) | provenance of the tree it was read from
        self.scores = []       # [q, o, k, score]
        self.stops = []        # [q, o, k]
        self.escores = []      # [q, o, k, score]

    def hnum(self, obj):
        for i, o in enumerate(self.hobjs):
            if o is obj:
                return i
        return 98


REG = Registry()
POOL = []


def content_query(inputs, output, size_dict):
    ins = tuple(tuple(t) for t in inputs)
    out = tuple(output)
    sd = dict(size_dict)
    for i, (qi, qo, qs) in enumerate(POOL):
        if ins == qi and out == qo and sd == qs:
            return i
    return 99


def tree_content(tree):
    try:
        return content_query(tree.inputs, tree.output, tree.size_dict)
    except Exception:
        return 99


def patch():
    # ---- allocation numbers --------------------------------------------------------------
    h_init = H.HyperOptimizer.__init__

    def hyper_init(self, *a, **kw):
        h_init(self, *a, **kw)
        with REG.lock:
            REG.hobjs.append(self)
    H.HyperOptimizer.__init__ = hyper_init

    rg_init = PB.RandomGreedyOptimizer.__init__

    def rgo_init(self, *a, **kw):
        rg_init(self, *a, **kw)
        with REG.lock:
            REG.hobjs.append(self)
    PB.RandomGreedyOptimizer.__init__ = rgo_init

    # ---- trials --------------------------------------------------------------------------
    h_setup = H.HyperOptimizer.setup

    def setup(self, inputs, output, size_dict):
        fn, args = h_setup(self, inputs, output, size_dict)
        opt = self

        def wrapped(*a, **kw):
            k = len(opt.scores)
            yp(L_TRIAL if getattr(TL, "in_reusable", False) else L_HTRIAL)
            trial = fn(*a, **kw)
            with REG.lock:
                o = REG.hnum(opt)
                t = trial.get("tree")
                if t is not None:
                    REG.trees[id(t)] = (o, k)
                    REG.keep.append(t)
                REG.scores.append([getattr(TL, "q", 97), o, k, trial["score"]])
            return trial
        return wrapped, args
    H.HyperOptimizer.setup = setup

    h_search = H.HyperOptimizer._search

    def _search(self, inputs, output, size_dict):
        n0 = len(self.scores)
        try:
            return h_search(self, inputs, output, size_dict)
        finally:
            n1 = len(self.scores)
            if 0 < n1 - n0 < self.max_repeats:
                with REG.lock:
                    REG.stops.append([getattr(TL, "q", 97), REG.hnum(self), n1 - 1])
    H.HyperOptimizer._search = _search

    h_call = H.HyperOptimizer.__call__

    def hyper_call(self, inputs, output, size_dict, memory_limit=None):
        path = h_call(self, inputs, output, size_dict, memory_limit)
        with REG.lock:
            REG.paths[id(path)] = classify(self.tree)
            REG.keep.append(path)
        return path
    H.HyperOptimizer.__call__ = hyper_call

    rg_search = PB.RandomGreedyOptimizer.search

    def rgo_search(self, inputs, output, size_dict, **kw):
        yp(L_TRIAL)
        tree = rg_search(self, inputs, output, size_dict, **kw)
        with REG.lock:
            o = REG.hnum(self)
            REG.trees[id(tree)] = (o, 0)
            REG.keep.append(tree)
            REG.scores.append([getattr(TL, "q", 97), o, 0, float(self.best_flops)])
        return tree
    PB.RandomGreedyOptimizer.search = rgo_search

    # ---- ReusableOptimizer -------------------------------------------------------------------
    class CacheProxy:
        def __init__(self, real):
            self._real = real

        def __contains__(self, k):
            return k in self._real

        def __getitem__(self, k):
            yp(L_COLD if getattr(TL, "ran", False) else L_CGET)
            return self._real[k]

        def __setitem__(self, k, v):
            yp(L_CSET)
            self._real[k] = v

        def __getattr__(self, name):
            return getattr(self._real, name)

    class SlotDict(dict):
        def __setitem__(self, k, v):
            yp(L_PUBLISH)
            dict.__setitem__(self, k, v)

        def get(self, k, d=None):
            if not getattr(TL, "suppress", 0):
                yp(L_FETCH)
            return dict.get(self, k, d)

    r_init = R.ReusableOptimizer.__init__

    def reusable_init(self, **kw):
        r_init(self, **kw)
        self._cache = CacheProxy(self._cache)
        self._suboptimizers = SlotDict()
        with REG.lock:
            REG.robjs.append(self)
    R.ReusableOptimizer.__init__ = reusable_init

    orig_min = R.ReusableOptimizer.minimize.fget

    def min_get(self):
        TL.suppress = getattr(TL, "suppress", 0) + 1
        try:
            return orig_min(self)
        finally:
            TL.suppress -= 1
    R.ReusableOptimizer.minimize = property(min_get)

    r_hash = R.ReusableOptimizer.hash_query

    def hash_query(self, inputs, output, size_dict):
        TL.ran = False
        yp(L_HASH)
        return r_hash(self, inputs, output, size_dict)
    R.ReusableOptimizer.hash_query = hash_query

    r_run = R.ReusableOptimizer._run_optimizer

    def _run_optimizer(self, inputs, output, size_dict):
        TL.ran = True
        TL.in_reusable = True
        try:
            return r_run(self, inputs, output, size_dict)
        finally:
            TL.in_reusable = False
    R.ReusableOptimizer._run_optimizer = _run_optimizer

    for cls in (H.ReusableHyperOptimizer, PB.ReusableRandomGreedyOptimizer):
        def make(cls):
            g = cls._get_suboptimizer
            d = cls._deconstruct_tree
            rc = cls._reconstruct_tree

            def _get_suboptimizer(self):
                yp(L_ALLOC)
                return g(self)

            def _deconstruct_tree(self, opt, tree):
                con = d(self, opt, tree)
                with REG.lock:
                    REG.cons[id(con)] = tree_content(tree)
                    REG.keep.append(con)
                    REG.paths[id(con["path"])] = ("con", tree_content(tree))
                    ok = REG.trees.get(id(tree), (98, 98))
                    REG.escores.append([tree_content(tree), ok[0], ok[1], float(con["score"])])
                return con

            def _reconstruct_tree(self, inputs, output, size_dict, con):
                tree = rc(self, inputs, output, size_dict, con)
                with REG.lock:
                    REG.recon[id(tree)] = REG.cons.get(id(con), 96)
                    REG.keep.append(tree)
                return tree
            cls._get_suboptimizer = _get_suboptimizer
            cls._deconstruct_tree = _deconstruct_tree
            cls._reconstruct_tree = _reconstruct_tree
        make(cls)

    # ---- AutoOptimizer ---------------------------------------------------------------------
    class ByThreadDict(dict):
        def __getitem__(self, k):
            yp(L_ALOOKUP)
            return dict.__getitem__(self, k)

        def __setitem__(self, k, v):
            yp(L_ASTORE)
            dict.__setitem__(self, k, v)

    global BYTHREAD
    BYTHREAD = ByThreadDict
    a_init = P.AutoOptimizer.__init__

    def auto_init(self, *a, **kw):
        a_init(self, *a, **kw)
        self._hyperoptimizers_by_thread = ByThreadDict()
    P.AutoOptimizer.__init__ = auto_init


# ---------------------------------------------------------------------------
def make_target(job):
    """the shared optimizer object of a job"""
    t = job["target"]
    o = dict(job.get("opts", {}))
    if t == "reusable-hyper":
        o.setdefault("parallel", False)
        return ctg.ReusableHyperOptimizer(**o)
    if t == "reusable-rg":
        o.setdefault("parallel", False)
        return ctg.ReusableRandomGreedyOptimizer(**o)
    if t == "auto":
        return P.AutoOptimizer(**o)
    if t == "autohq":
        return P.AutoHQOptimizer(**o)
    if t == "hyper":
        o.setdefault("parallel", False)
        return ctg.HyperOptimizer(**o)
    if t.startswith("instance:"):
        return getattr(P, t.split(":", 1)[1])
    if t.startswith("preset:"):
        return t.split(":", 1)[1]
    raise ValueError(t)


def valid_path(path, n):
    """independent check that `path` is a linear contraction path of n tensors"""
    try:
        m = n
        for step in path:
            step = tuple(step)
            if len(set(step)) != len(step) or len(step) < 1:
                return False
            if any((not isinstance(i, int)) or i < 0 or i >= m for i in step):
                return False
            m -= len(step) - 1
        return m == 1
    except Exception:
        return False


def judge_tree(tree, q):
    """content oracle: is `tree` a complete tree of query q?  returns None or a description"""
    inputs, output, size_dict = POOL[q]
    try:
        if tree.N != len(inputs):
            return "tree.N=%d but the query has %d tensors" % (tree.N, len(inputs))
        if tuple(tuple(t) for t in tree.inputs) != inputs:
            return "tree.inputs %r differ from the query's %r" % (tree.inputs, inputs)
        if tuple(tree.output) != output:
            return "tree.output %r differs from the query's %r" % (tree.output, output)
        if dict(tree.size_dict) != size_dict:
            return "tree.size_dict differs from the query's"
        if not tree.is_complete():
            return "tree is not complete"
        if tree.root != frozenset(range(len(inputs))):
            return "root %r is not the set of all leaves" % (sorted(tree.root),)
        if not valid_path(tree.get_path(), len(inputs)):
            return "tree.get_path() %r is not a path of %d tensors" % (tree.get_path(), len(inputs))
        # the costs the tree reports must be the costs of ITS path on the QUERY's sizes (a tree left over
        # from a query with the same index structure but other sizes reports that query's costs)
        if len(inputs) >= 2:
            from vlib import gen as _gen, oracle as _oracle
            removed = list(tree.sliced_inds)
            spec = _oracle.spec_costs(list(inputs), output, size_dict, _gen.tree_nested(tree), removed, [])
            stats = tree.contract_stats()
            got = (int(stats["flops"]), int(stats["write"]), int(stats["size"]))
            want = (spec["flops"], spec["write"], spec["size"])
            if got != want:
                return "tree reports (flops, write, size) = %r but its path costs %r on the query's sizes" % (got, want)
    except Exception as e:
        return "inspecting the tree raised %r" % (e,)
    return None


WARNED = {}


def _showwarning(message, category, filename, lineno, file=None, line=None):
    WARNED.setdefault(threading.get_ident(), []).append(str(message))


def ask(target, api, q):
    """ask one query; a tree that only became complete because ContractionTree.from_path auto-completed an
    incomplete path (it warns) is remembered in TL.autocompleted and judged a failure"""
    import warnings
    if warnings.showwarning is not _showwarning:
        warnings.showwarning = _showwarning
        warnings.simplefilter("always")
    tid = threading.get_ident()
    WARNED.pop(tid, None)
    TL.autocompleted = None
    try:
        return _ask(target, api, q)
    finally:
        msgs = [m for m in WARNED.pop(tid, []) if "autocomplete" in m]
        TL.autocompleted = msgs[0] if msgs else None


def _ask(target, api, q):
    inputs, output, size_dict = POOL[q]
    if api == "path_canon":       # the front end's default: indices relabelled in order of appearance
        return "path", ctg.array_contract_path(inputs, output, size_dict, optimize=target, cache=False)
    if api == "tree_canon":
        return "ctree", ctg.array_contract_tree(inputs, output, size_dict, optimize=target)
    if api == "findpath":
        from cotengra.interface import find_path
        return "path", find_path(inputs, output, size_dict, optimize=target)
    if isinstance(target, str):
        if api == "path":
            path = ctg.array_contract_path(inputs, output, size_dict, optimize=target, canonicalize=False, cache=False)
            return "path", path
        return "tree", ctg.array_contract_tree(inputs, output, size_dict, optimize=target, canonicalize=False)
    if api == "path":
        return "path", target(inputs, output, size_dict)
    if api == "via":   # the object handed to the front end
        return "tree", ctg.array_contract_tree(inputs, output, size_dict, optimize=target, canonicalize=False)
    return "tree", target.search(inputs, output, size_dict)


def judge(kind, val, q):
    if kind == "ctree":
        # relabelled tree: leaf count, completeness, path validity (labels differ from the query's by design)
        n = len(POOL[q][0])
        if getattr(TL, "autocompleted", None):
            return "the (canonicalised) tree was only completed by autocompletion"
        if val.N != n or not val.is_complete() or not valid_path(val.get_path(), n):
            return "canonicalised tree is not a complete tree of the query's %d tensors" % n
        return None
    if kind == "tree" and getattr(TL, "autocompleted", None):
        return ("the tree was built from a path that does not contract all of the query's %d tensors and was only "
                "completed by autocompletion (%s)" % (len(POOL[q][0]), TL.autocompleted[:80]))
    if kind == "path":
        n = len(POOL[q][0])
        if not valid_path(val, n):
            return "path %r is not a path of the query's %d tensors" % (val, n)
        return None
    return judge_tree(val, q)


def describe(kind, val):
    if kind == "path":
        return {"path": [list(s) for s in val]}
    d = {"N": getattr(val, "N", None)}
    try:
        d["content_query"] = tree_content(val)
        d["inputs"] = [list(t) for t in val.inputs]
        d["output"] = list(val.output)
    except Exception:
        pass
    return d


def classify(tree):
    qc = tree_content(tree)
    if id(tree) in REG.trees:
        o, k = REG.trees[id(tree)]
        return [0, qc, o, k]
    if id(tree) in REG.recon:
        return [2, qc, REG.recon[id(tree)]]
    return [1, qc]


def classify_path(path, q):
    v = REG.paths.get(id(path))
    if v is None:
        return [1, q]
    if v[0] == "con":
        return [2, q, v[1]]
    return list(v)


def load_pool(job):
    global POOL
    POOL = [(tuple(tuple(t) for t in q["inputs"]), tuple(q["output"]), dict(q["size_dict"])) for q in job["queries"]]


def fingerprints(job):
    """number the queries by their real fingerprint (first appearance)"""
    hm = job.get("opts", {}).get("hash_method", "a")
    seen, fps = {}, []
    for (i, o, s) in POOL:
        h = R.hash_contraction(i, o, s, hm)
        fps.append(seen.setdefault(h, len(seen)))
    return fps, seen


def run_forced(job):
    global CTL, REG
    REG = Registry()
    load_pool(job)
    programs = job["programs"]
    n = len(programs)
    target = make_target(job)   # a shared Reusable* object becomes object 0 of the reusable heap
    auto_obj = target if isinstance(target, P.AutoOptimizer) else None
    if job["target"] in ("preset:auto", "preset:auto-hq"):
        # the tree function of both presets is the module instance auto_optimize.search
        auto_obj = P.auto_optimize
        auto_obj._hyperoptimizers_by_thread = BYTHREAD()      # this run starts with no per-thread optimizers
    ctl = Controller(n)
    CTL = ctl
    results = [[] for _ in range(n)]
    bad = []
    idents = [None] * n

    def body(idx):
        TL.idx = idx
        idents[idx] = threading.get_ident()
        try:
            for q in programs[idx]:
                TL.q = q
                yp(L_BEGIN)
                try:
                    kind, val = ask(target, job.get("api", "tree"), q)
                except Abort:
                    raise
                except Exception as e:
                    results[idx].append([q, 9])
                    bad.append({"thread": idx, "query": q, "raised": repr(e)})
                    continue
                prov = classify(val) if kind == "tree" else classify_path(val, q)
                results[idx].append([q] + prov)
                msg = judge(kind, val, q)
                if msg:
                    bad.append({"thread": idx, "query": q, "what": msg, "got": describe(kind, val),
                                "provenance": prov})
        except Abort:
            pass
        finally:
            ctl.done(idx)

    threads = [threading.Thread(target=body, args=(i,), daemon=True) for i in range(n)]
    for t in threads:
        t.start()
    err = None
    try:
        for ent in job["macro"]:
            i, how = ent
            if how == "one":
                ctl.step(i)
            else:   # run thread i until it has performed one shared access
                for _ in range(10000):
                    lab = ctl.step(i)
                    if lab is None or lab in SHARED:
                        break
        # then drain: lowest unfinished thread first
        for _ in range(100000):
            if ctl.all_finished():
                break
            for i in range(n):
                if ctl.step(i) is not None:
                    break
    except Abort:
        err = ctl.dead
    for t in threads:
        t.join(5)
    CTL = None
    if err or ctl.dead:
        return {"error": err or ctl.dead}
    tidmap = {idents[i]: i for i in range(n)}
    snap = snapshot(job, auto_obj, tidmap)
    snap.update({"trace": ctl.trace, "results": results, "bad": bad, "idents_distinct": len(set(idents)) == n})
    return snap


def snapshot(job, auto_obj, tidmap):
    """the final shared state in the model's layout"""
    fps, seen = fingerprints(job)

    def fpnum(key):
        if isinstance(key, tuple):
            key = "".join(key)
        return seen.get(key, 95)

    hheap = []
    for o in REG.hobjs:
        if isinstance(o, H.HyperOptimizer):
            nsc = len(o.scores)
            bt = o.best.get("tree")
        else:
            bt = o.tree
            nsc = 1 if bt is not None else 0
        hheap.append([nsc] + (classify(bt) if bt is not None else []))
    rheap = []
    for r in REG.robjs:
        slots = [[tidmap.get(k, 94), REG.hnum(v)] for k, v in dict.items(r._suboptimizers)]
        mem = r._cache._real._mem_cache
        cache = [[fpnum(k), REG.cons.get(id(v), 96)] for k, v in mem.items()]
        rheap.append([slots, cache])
    bythread = []
    hards = None
    if auto_obj is not None:
        for k, v in dict.items(auto_obj._hyperoptimizers_by_thread):
            if isinstance(v, R.ReusableOptimizer):
                x = [i for i, r in enumerate(REG.robjs) if r is v]
            else:
                x = [REG.hnum(v)]
            bythread.append([tidmap.get(k, 94), x[0] if x else 93])
        hards = []
        for (i, o, s) in POOL:
            nn = len(i)
            kk = sum(len(t) for t in i) / nn
            hards.append(bool(nn ** 2 * kk ** 0.5 >= auto_obj.optimal_cutoff))
    return {"hheap": hheap, "rheap": rheap, "bythread": bythread, "fps": fps, "hards": hards,
            "scores": REG.scores, "stops": REG.stops, "escores": REG.escores}


def run_seq(job):
    load_pool(job)
    target = make_target(job)
    bad = []
    got = []
    prev = None
    for step, q in enumerate(job["history"]):
        api = job.get("api", "tree")
        if isinstance(api, list):
            api = api[step % len(api)]
        try:
            kind, val = ask(target, api, q)
        except Exception as e:
            bad.append({"step": step, "query": q, "api": api, "raised": repr(e)})
            got.append(None)
            continue
        msg = judge(kind, val, q)
        got.append(tree_content(val) if kind == "tree" else -1)
        if not msg and job.get("fresh_check"):
            msg = fresh_check(job, kind, val, q, api, prev)
        prev = (q, kind, val)
        if msg:
            bad.append({"step": step, "query": q, "api": api, "what": msg, "got": describe(kind, val)})
    return {"bad": bad, "got": got}


def answer_path(kind, val):
    return tuple(map(tuple, val if kind == "path" else val.get_path()))


def fresh_target(job):
    """a NEW optimizer of the same configuration (for a preset string: a new instance of its class, defaults)"""
    t = job["target"]
    if t in ("preset:auto", "instance:auto_optimize"):
        return P.AutoOptimizer()
    if t in ("preset:auto-hq", "instance:auto_hq_optimize"):
        return P.AutoHQOptimizer()
    if t.startswith("preset:"):
        return t.split(":", 1)[1]          # stateless presets
    return make_target(job)


def fresh_check(job, kind, val, q, api, prev):
    """the answer's cost ON THE QUERY must be what a fresh optimizer of the same configuration gives for this query
    alone: equal for deterministic configurations, within `factor` otherwise (a positional path found for another
    ordering of the tensors is off by many orders of magnitude on the graded chains used here)"""
    fc = job["fresh_check"]
    cost = path_flops(answer_path(kind, val), q)
    ft = fresh_target(job)
    fapi = {"via": "tree", "tree_canon": "tree", "path_canon": "path"}.get(api, api)
    if isinstance(ft, str):
        fapi = api
    fkind, fval = _ask(ft, fapi, q)
    fcost = path_flops(answer_path(fkind, fval), q)
    if fc.get("deterministic"):
        bad = cost != fcost
    else:
        bad = cost > fc.get("factor", 1000) * fcost
    if bad:
        same_as_prev = prev is not None and prev[0] != q and answer_path(prev[1], prev[2]) == answer_path(kind, val)
        return ("the answer costs %d flops on the query, a fresh optimizer of the same configuration gives %d for this "
                "query alone%s" % (cost, fcost, "; the returned path is identical to the PREVIOUS query's path"
                                   if same_as_prev else ""))
    return None


def run_stress(job):
    load_pool(job)
    target = make_target(job)
    programs = job["programs"]
    bad = []
    lock = threading.Lock()
    old = sys.getswitchinterval()
    sys.setswitchinterval(job.get("switch", 1e-6))
    start = threading.Barrier(len(programs))
    idents = []

    def body(idx):
        idents.append(threading.get_ident())
        try:
            start.wait(10)
        except Exception:
            pass
        for step, q in enumerate(programs[idx]):
            api = job.get("api", "tree")
            try:
                kind, val = ask(target, api, q)
            except Exception as e:
                with lock:
                    bad.append({"thread": idx, "step": step, "query": q, "raised": repr(e)})
                continue
            msg = judge(kind, val, q)
            if msg:
                with lock:
                    bad.append({"thread": idx, "step": step, "query": q, "what": msg, "got": describe(kind, val)})

    threads = [threading.Thread(target=body, args=(i,), daemon=True) for i in range(len(programs))]
    serial = bool(job.get("serial"))
    try:
        deadline = time.time() + job.get("timeout", 120)
        if serial:
            # one thread after the other: CPython usually hands the ident of a dead thread to the next one
            start = threading.Barrier(1)
            for t in threads:
                t.start()
                t.join(max(0.1, deadline - time.time()))
        else:
            for t in threads:
                t.start()
            for t in threads:
                t.join(max(0.1, deadline - time.time()))
        alive = [i for i, t in enumerate(threads) if t.is_alive()]
    finally:
        sys.setswitchinterval(old)
    return {"bad": bad, "alive": alive, "idents_reused": len(set(idents)) < len(idents),
            "idents_distinct": True if serial else len(set(idents)) == len(idents)}


# ---------------------------------------------------------------------------
# NESTED queries: while the shared optimizer searches contraction A (cache miss) one of its trials asks THE SAME
# optimizer object, on the same thread, about another contraction (the library does this: build_divide ->
# contract_nodes(groups, optimize=super_optimize) -> find_path -> the preset's __call__)
NEST = {"target": None, "inner_api": "path", "inner": [], "used": 0, "log": [], "bad": []}


def _greedy_tree(inputs, output, size_dict):
    ssa = PB.optimize_greedy(inputs, output, size_dict, use_ssa=True)
    return ctg.ContractionTree.from_path(inputs, output, size_dict, ssa_path=ssa)


def nest_direct_fn(inputs, output, size_dict, dummy=0, **kw):
    """a trial function that, in the middle of its work, queries the shared optimizer about another contraction"""
    if NEST["target"] is not None and getattr(TL, "depth", 0) == 0 and NEST["inner"]:
        TL.depth = 1
        saved = {k: getattr(TL, k, None) for k in ("autocompleted", "q", "ran", "in_reusable", "idx")}
        try:
            qb = NEST["inner"][NEST["used"] % len(NEST["inner"])]
            NEST["used"] += 1
            if NEST.get("record"):          # the nested query is virtual thread 1 of the recorded trace
                TL.idx = 1
                TL.q = qb
                TL.in_reusable = False
                yp(L_BEGIN)
            try:
                kind, val = ask(NEST["target"], NEST["inner_api"], qb)
                msg = judge(kind, val, qb)
                NEST["log"].append(qb)
                if NEST.get("record"):
                    NEST["results"].append([qb] + (classify(val) if kind == "tree" else classify_path(val, qb)))
                if msg:
                    NEST["bad"].append({"inner_query": qb, "what": "NESTED query got a wrong result: " + msg,
                                        "got": describe(kind, val)})
            except Exception as e:
                NEST["log"].append(qb)
                if NEST.get("record"):
                    NEST["results"].append([qb, 9])
                NEST["bad"].append({"inner_query": qb, "raised": repr(e)})
        finally:
            TL.depth = 0
            for k, v in saved.items():
                setattr(TL, k, v)
    return _greedy_tree(inputs, output, size_dict)


def block_partition(inputs, output, size_dict, parts=2, seed=None, **kw):
    n = len(inputs)
    return [min(parts - 1, (i * parts) // max(n, 1)) for i in range(n)]


def nest_builder_fn(inputs, output, size_dict, dummy=0, **kw):
    """the library's own nesting: PartitionTreeBuilder.build_divide contracts the groups with super_optimize =
    the shared optimizer (object or preset name)"""
    from cotengra.core import PartitionTreeBuilder
    sup = NEST["target"] if NEST["target"] is not None else "greedy"
    if getattr(TL, "depth", 0) > 0:
        sup = "greedy"
    TL.depth = getattr(TL, "depth", 0) + 1
    try:
        NEST["log"].append("builder")
        return PartitionTreeBuilder(block_partition).build_divide(
            inputs, output, size_dict, cutoff=4, parts=3, parts_decay=1.0, sub_optimize="greedy", super_optimize=sup,
            random_strength=0.0, seed=0)
    finally:
        TL.depth -= 1


class Recorder:
    """a controller that never blocks: it only records (virtual thread, label) at every yield point.  Used for
    NESTED runs on one real thread: virtual thread 0 = the outer queries, 1 = the nested ones (same thread id)"""

    def __init__(self):
        self.trace = []

    def yield_point(self, label):
        self.trace.append([getattr(TL, "idx", 0), label])


_NEST_REGISTERED = []


def run_nested_recorded(job):
    """a nested history under the instrumentation of the forced runs; returns what run_forced returns, with the
    nested queries as virtual thread 1 (for the model: a second thread with the SAME id)"""
    global CTL, REG
    REG = Registry()
    load_pool(job)
    if not _NEST_REGISTERED:
        space = {"dummy": {"type": "INT", "min": 0, "max": 3}}
        H.register_hyper_function("c16-nest-direct", nest_direct_fn, space)
        H.register_hyper_function("c16-nest-builder", nest_builder_fn, space)
        _NEST_REGISTERED.append(1)
    target = make_target(job)
    auto_obj = target if isinstance(target, P.AutoOptimizer) else None
    api = job.get("api", "tree")
    NEST.update(target=target, inner_api=api, inner=list(job.get("inner", [])), used=0, log=[], bad=[],
                record=True, results=[])
    rec = Recorder()
    CTL = rec
    TL.idx = 0
    outer, bad = [], []
    try:
        for q in job["history"]:
            TL.q = q
            yp(L_BEGIN)
            try:
                kind, val = ask(target, api, q)
            except Exception as e:
                outer.append([q, 9])
                bad.append({"thread": 0, "query": q, "raised": repr(e)})
                continue
            prov = classify(val) if kind == "tree" else classify_path(val, q)
            outer.append([q] + prov)
            msg = judge(kind, val, q)
            if msg:
                bad.append({"thread": 0, "query": q, "what": msg, "got": describe(kind, val), "provenance": prov})
    finally:
        CTL = None
        TL.idx = None
        inner_results = list(NEST.get("results", []))
        inner_program = list(NEST["log"])
        for b in NEST["bad"]:
            bad.append(dict(b, thread=1, query=b["inner_query"]))
        NEST.update(target=None, record=False)
    snap = snapshot(job, auto_obj, {threading.get_ident(): 0})
    snap.update({"trace": rec.trace, "results": [outer, inner_results], "bad": bad, "idents_distinct": True,
                 "programs": [list(job["history"]), inner_program]})
    return snap


def run_nested(job):
    load_pool(job)
    if not _NEST_REGISTERED:
        space = {"dummy": {"type": "INT", "min": 0, "max": 3}}
        H.register_hyper_function("c16-nest-direct", nest_direct_fn, space)
        H.register_hyper_function("c16-nest-builder", nest_builder_fn, space)
        _NEST_REGISTERED.append(1)
    target = make_target(job)
    shared = target
    if job.get("bound_preset"):
        from cotengra.interface import register_preset
        name = "c16-shared-%d" % len(_NEST_REGISTERED)
        _NEST_REGISTERED.append(name)
        register_preset(name, target, target.search, register_opt_einsum=False)
        shared = name
    NEST.update(target=shared, inner_api=job.get("inner_api", "path"), inner=list(job.get("inner", [])), used=0,
                log=[], bad=[])
    bad, got = [], []
    try:
        for step, q in enumerate(job["history"]):
            api = job.get("api", "tree")
            nlog = len(NEST["log"])
            try:
                kind, val = ask(shared, api, q)
            except Exception as e:
                import traceback
                bad.append({"step": step, "query": q, "api": api, "raised": repr(e), "tb": traceback.format_exc()[-800:]})
                got.append(None)
                continue
            msg = judge(kind, val, q)
            got.append({"nested_calls": NEST["log"][nlog:], "content": tree_content(val) if kind == "tree" else -1})
            if msg:
                bad.append({"step": step, "query": q, "api": api, "what": msg, "got": describe(kind, val),
                            "nested_queries_during_this_call": NEST["log"][nlog:]})
        for b in NEST["bad"]:
            bad.append(dict(b, step=-1, query=b["inner_query"]))
    finally:
        nested_total = len(NEST["log"])
        NEST.update(target=None)
    return {"bad": bad, "got": got, "nested_total": nested_total}


def run_flips(job):
    """ONE long-lived Reusable* object, one thread; between queries its options are flipped (overwrite, cache_only)
    and the interface changes (search / __call__ / front end).  Recorded under the forced-run instrumentation.
    A KeyError while cache_only is set is the documented answer for a missing entry (not a failure)."""
    global CTL, REG
    REG = Registry()
    load_pool(job)
    target = make_target(job)
    rec = Recorder()
    CTL = rec
    TL.idx = 0
    results, bad, segments = [], [], []
    try:
        for step, st in enumerate(job["script"]):
            if st[0] == "set":
                setattr(target, st[1], st[2])
                continue
            _, q, api = st
            TL.q = q
            n0 = len(rec.trace)
            cfg = {"ow": target.overwrite, "cache_only": bool(target.cache_only), "call": api == "path"}
            yp(L_BEGIN)
            try:
                kind, val = ask(target, api, q)
                prov = classify(val) if kind == "tree" else classify_path(val, q)
                results.append([q] + prov)
                msg = judge(kind, val, q)
                if msg:
                    bad.append({"step": step, "query": q, "api": api, "options": cfg, "what": msg,
                                "got": describe(kind, val), "provenance": prov})
            except KeyError as e:
                results.append([q, 9])
                if not target.cache_only:
                    bad.append({"step": step, "query": q, "api": api, "options": cfg, "raised": repr(e)})
            except Exception as e:
                results.append([q, 9])
                bad.append({"step": step, "query": q, "api": api, "options": cfg, "raised": repr(e)})
            nsteps = len(rec.trace) - n0
            if segments and {k: segments[-1][k] for k in ("ow", "cache_only", "call")} == cfg:
                segments[-1]["nsteps"] += nsteps
            else:
                segments.append(dict(cfg, nsteps=nsteps))
    finally:
        CTL = None
        TL.idx = None
    snap = snapshot(job, None, {threading.get_ident(): 0})
    snap.update({"trace": rec.trace, "results": [results], "bad": bad, "idents_distinct": True,
                 "segments": segments, "programs": [[s_[1] for s_ in job["script"] if s_[0] == "q"]]})
    return snap


# ---------------------------------------------------------------------------
# the string presets behind the front end's own caches (array_contract_path cache=True, array_contract_expression):
# same inputs/output, explicit size_dicts that are equal as mappings but ordered differently, or permutations of the
# value sequence over the keys
def _nested_of_path(path, n):
    items = list(range(n))
    for step in path:
        step = sorted(step, reverse=True)
        picked = [items.pop(i) for i in step][::-1]
        new = picked[0]
        for x in picked[1:]:
            new = (new, x)
        items.append(new)
    (root,) = items
    return root


def path_flops(path, q):
    from vlib import oracle as _oracle
    inputs, output, size_dict = POOL[q]
    return _oracle.spec_costs(list(inputs), output, size_dict, _nested_of_path(path, len(inputs)))["flops"]


def best_flops(q):
    from vlib import gen as _gen, oracle as _oracle
    inputs, output, size_dict = POOL[q]
    n = len(inputs)
    best = None
    for ssa in _gen.all_partitions_paths(n):
        nodes = {i: i for i in range(n)}
        nxt = n
        for i, j in ssa:
            nodes[nxt] = (nodes.pop(i), nodes.pop(j))
            nxt += 1
        (root,) = nodes.values()
        f = _oracle.spec_costs(list(inputs), output, size_dict, root)["flops"]
        best = f if best is None else min(best, f)
    return best


OPTIMAL_PRESETS = ("optimal", "dp", "dynamic-programming", "optimal-outer")


def ask_front(preset, api, q):
    inputs, output, size_dict = POOL[q]
    if api == "cpath":
        return "path", ctg.array_contract_path(inputs, output, size_dict, optimize=preset, canonicalize=False)
    if api == "findpath":
        from cotengra.interface import find_path
        return "path", find_path(inputs, output, size_dict, optimize=preset)
    if api == "expr":
        return "expr", ctg.array_contract_expression(inputs, output, size_dict, optimize=preset, canonicalize=False)
    return "tree", ctg.array_contract_tree(inputs, output, size_dict, optimize=preset, canonicalize=False)


def judge_front(preset, kind, val, q, seen_expr, seen_path, lock):
    """returns None or a description; q is judged against ITS OWN size mapping"""
    inputs, output, size_dict = POOL[q]
    n = len(inputs)
    if kind == "tree":
        msg = judge_tree(val, q)
        if msg:
            return msg
        val = val.get_path()
        kind = "path-of-tree"
    if kind == "expr":
        with lock:
            for q2, e2 in seen_expr:
                if e2 is val and POOL[q2][2] != size_dict:
                    return ("the expression object built for query %d (sizes %r) was handed out for this query "
                            "(sizes %r)" % (q2, POOL[q2][2], size_dict))
            seen_expr.append((q, val))
        return None
    if not valid_path(val, n):
        return "path %r is not a path of the query's %d tensors" % (val, n)
    cost = path_flops(val, q)
    if preset in OPTIMAL_PRESETS and n <= 5:
        want = best_flops(q)
        if cost != want:
            return ("preset %r returned path %r costing %d flops on the query's own sizes %r; the brute-force optimum "
                    "is %d" % (preset, val, cost, size_dict, want))
    # the deterministic presets: the answer must be the one a fresh, uncached search gives for THIS query
    if kind == "path":
        fresh = ctg.array_contract_path(inputs, output, size_dict, optimize=preset, canonicalize=False, cache=False)
        if tuple(map(tuple, fresh)) != tuple(map(tuple, val)):
            fc = path_flops(fresh, q)
            if fc != cost:
                return ("preset %r returned path %r (%d flops on the query's own sizes %r) but an uncached search for "
                        "this query gives %r (%d flops)" % (preset, val, cost, size_dict, fresh, fc))
    # equal mappings (whatever their key order) must get equal-cost answers
    with lock:
        for q2, c2 in seen_path:
            if POOL[q2][2] == size_dict and c2 != cost:
                return "two queries with equal size mappings got answers of different cost (%d vs %d)" % (c2, cost)
        seen_path.append((q, cost))
    return None


def run_sizes(job):
    load_pool(job)
    preset = job["target"].split(":", 1)[1]
    programs = job["programs"]
    bad = []
    lock = threading.Lock()
    seen_expr, seen_path = [], []

    def body(idx):
        for step, (q, api) in enumerate(programs[idx]):
            try:
                kind, val = ask_front(preset, api, q)
                msg = judge_front(preset, kind, val, q, seen_expr, seen_path, lock)
            except Exception as e:
                import traceback
                with lock:
                    bad.append({"thread": idx, "step": step, "query": q, "api": api, "raised": repr(e),
                                "tb": traceback.format_exc()[-600:]})
                continue
            if msg:
                with lock:
                    bad.append({"thread": idx, "step": step, "query": q, "api": api, "what": msg,
                                "size_dict_in_key_order": list(POOL[q][2].items())})
    if len(programs) == 1:
        body(0)
        alive = []
    else:
        old = sys.getswitchinterval()
        sys.setswitchinterval(1e-6)
        try:
            ths = [threading.Thread(target=body, args=(i,), daemon=True) for i in range(len(programs))]
            for t in ths:
                t.start()
            for t in ths:
                t.join(job.get("timeout", 100))
            alive = [i for i, t in enumerate(ths) if t.is_alive()]
        finally:
            sys.setswitchinterval(old)
    return {"bad": bad, "alive": alive}


def main():
    data = json.load(sys.stdin)
    patch_needed = any(j["kind"] in ("forced", "nested_forced", "flips") for j in data["jobs"])
    if patch_needed:
        patch()
    out = []
    for job in data["jobs"]:
        try:
            if job["kind"] == "forced":
                out.append(run_forced(job))
            elif job["kind"] == "seq":
                out.append(run_seq(job))
            elif job["kind"] == "sizes":
                out.append(run_sizes(job))
            elif job["kind"] == "flips":
                out.append(run_flips(job))
            elif job["kind"] == "nested_forced":
                out.append(run_nested_recorded(job))
            elif job["kind"] == "nested":
                out.append(run_nested(job))
            elif job["kind"] == "stress":
                out.append(run_stress(job))
            else:
                out.append({"error": "unknown kind"})
        except Exception as e:
            import traceback
            out.append({"error": "worker exception: %r" % (e,), "traceback": traceback.format_exc()})
    sys.stdout.write("RESULT " + json.dumps(out, default=repr) + "\n")
    sys.stdout.flush()


if __name__ == "__main__":
    main()

"""C08 -- the hyper-optimizer returns its best trial and reports that trial's true costs.

Every HyperOptimizer call runs in a worker subprocess (this file with --worker) under a
watchdog.  The worker instruments the optimizer from the outside (nothing in /repo changes):
  * hyper.base_trial_fn and the in-place post-processing methods of ContractionTree are
    wrapped to record the stats of the tree before / after every stage (the oracles of the
    pipeline model),
  * opt.setup is wrapped to record every trial dict ComputeScore returns,
  * opt._optimizer['get_setting'/'report_result'] are wrapped to record asks and reports,
  * hyper.time is replaced by a scripted clock when a max_time is used,
  * a scripted executor is passed as `parallel=`: its futures answer done() as a script says.
The main process judges the observations against the property text (oracle) and replays them
through the Coq model (Model/Hyper.v: trial_fn, serial, par, argmin_first) with vm_compute.
"""
import itertools
import json
import os
import struct
import subprocess
import sys
import threading
import time as _time

PROP = "C08"
INF = float("inf")

# --------------------------------------------------------------------------------------
# shared helpers


def fkey(x):
    """order-preserving integer key of a Python float ('inf' / 'nan' kept symbolic)"""
    if x is None:
        return None
    x = float(x)
    if x != x:
        return "nan"
    if x == INF:
        return "inf"
    b = struct.unpack(">q", struct.pack(">d", x))[0]
    return b if b >= 0 else -(b & 0x7FFFFFFFFFFFFFFF)


def ckey(x):
    """recorded cost: int, or 'inf'"""
    if x is None:
        return None
    if isinstance(x, float):
        if x == INF:
            return "inf"
        if x == int(x):
            return int(x)
        return "float:%r" % x
    return int(x)


STAGE_OF = {"simulated_anneal_": "Anneal", "slice_": "Slice", "slice_and_reconfigure_": "SliceReconf",
            "windowed_reconfigure_": "CompReconf",
            "subtree_reconfigure_": "Reconf"}


def det_path(n, pseed):
    import random
    r = random.Random(pseed * 7919 + n)
    path = []
    m = n
    while m > 1:
        i, j = sorted(r.sample(range(m), 2))
        path.append((i, j))
        m -= 1
    return tuple(path)


def trial_c08det(inputs, output, size_dict, pseed=0):
    from cotengra.core import ContractionTree
    return ContractionTree.from_path(inputs, output, size_dict, path=det_path(len(inputs), pseed))


def flaky_kind(pseed):
    if pseed % 3 == 0:
        return "err"
    if pseed % 7 == 1:
        return "bad"
    return None


def trial_c08flaky(inputs, output, size_dict, pseed=0):
    from cotengra.utils import BadTrial
    k = flaky_kind(pseed)
    if k == "err":
        raise ValueError("c08flaky: scripted failure for pseed %d" % pseed)
    if k == "bad":
        raise BadTrial
    return trial_c08det(inputs, output, size_dict, pseed)


def trial_c08opt(inputs, output, size_dict, pseed=0):
    """deterministic and near-optimal: the plain greedy tree (no noise), whatever pseed is --
    a short hot anneal started from it usually ends worse than it began"""
    from cotengra.core import ContractionTree
    from cotengra.pathfinders.path_basic import optimize_greedy
    path = optimize_greedy(inputs, output, size_dict)
    return ContractionTree.from_path(inputs, output, size_dict, path=path)


_ABORT = {"calls": 0, "at": None, "lock": threading.Lock()}


def trial_c08abort(inputs, output, size_dict, pseed=0):
    """deterministic like c08det, but the call whose process-wide number is _ABORT['at'] raises
    (used with on_trial_error='raise' to abort a search part-way)"""
    with _ABORT["lock"]:
        n = _ABORT["calls"]
        _ABORT["calls"] += 1
    if n == _ABORT["at"]:
        raise RuntimeError("c08: injected trial failure")
    return trial_c08det(inputs, output, size_dict, pseed)


def register_methods():
    from cotengra.hyperoptimizers import hyper
    if "c08abort" not in hyper._PATH_FNS:
        hyper.register_hyper_function("c08abort", trial_c08abort, {"pseed": {"type": "INT", "min": 0, "max": 10 ** 6}})
    if "c08det" not in hyper._PATH_FNS:
        sp = {"pseed": {"type": "INT", "min": 0, "max": 10 ** 6}}
        hyper.register_hyper_function("c08det", trial_c08det, sp)
        hyper.register_hyper_function("c08flaky", trial_c08flaky, sp)
        hyper.register_hyper_function("c08opt", trial_c08opt, sp)


def custom_ensure(trial):
    import math
    from cotengra.scoring import ensure_basic_quantities_are_computed
    ensure_basic_quantities_are_computed(trial)
    return math.log2(trial["flops"]) + 0.5 * math.log2(trial["size"])


def custom_nan(trial):
    import math
    from cotengra.scoring import ensure_basic_quantities_are_computed
    ensure_basic_quantities_are_computed(trial)
    if trial["flops"] % 3 == 0:
        return float("nan")
    return math.log2(trial["flops"])


def custom_bare(trial):
    return 1.0 + len(trial["tree"].children)


CUSTOM = {"custom-ensure": custom_ensure, "custom-nan": custom_nan, "custom-bare": custom_bare}


def objective_value(minimize, f, w, s):
    """the documented score of the exact objectives, from recorded figures (float; used with a
    tolerance only to check that a recorded score belongs to the recorded costs)"""
    import math
    import re
    m = re.fullmatch(r"(flops|size|write|combo|limit)-*(\d*)", minimize)
    if not m:
        if minimize == "custom-ensure":
            return math.log2(f) + 0.5 * math.log2(s)
        return None
    which, par = m.groups()
    if which == "flops":
        return math.log2(f) + 1e-3 * math.log2(w) + 1e-3 * math.log2(s)
    if which == "write":
        return 1e-3 * math.log2(f) + math.log2(w) + 1e-3 * math.log2(s)
    if which == "size":
        return 1e-3 * math.log2(f) + 1e-3 * math.log2(w) + math.log2(s)
    if which == "combo":
        return math.log2(f + (float(par) if par else 64) * w)
    return None   # limit: needs the per-node figures


# --------------------------------------------------------------------------------------
# worker side


class FakeTime:
    """scripted clock standing in for the `time` module inside cotengra.hyperoptimizers.hyper"""

    def __init__(self):
        self.now = 1000.0

    def time(self):
        return self.now

    def sleep(self, _):
        pass


class ScriptedFuture:
    def __init__(self, pool, k, value, exc):
        self.pool, self.k, self.value, self.exc = pool, k, value, exc
        self.taken = False
        self.cancelled = False

    def done(self):
        return self.pool.flag_of(self.k)

    def result(self):
        self.pool.take(self)
        if self.exc is not None:
            raise self.exc
        return self.value

    def cancel(self):
        self.cancelled = True
        self.pool.cancelled.append(self.k)
        return True


class ScriptedPool:
    """executes a submitted call immediately (so the k-th submission is the k-th execution,
    as in the serial search) but lets the scripted scheduler decide when its future is done"""
    _max_workers = 1

    def __init__(self, ranks, slack):
        self.ranks, self.slack = ranks, slack
        self.futs = []
        self.step = 0
        self.flags_log = []        # per report step: (in-flight ids, flags)
        self.cur = None
        self.taken_order = []
        self.positions = []
        self.cancelled = []
        self.problems = []
        self.on_execute = None
        self.nsub_at_take = []
        self.marks = []

    def inflight(self):
        return [f.k for f in self.futs if not f.taken and not f.cancelled and not getattr(f, "abandoned", False)]

    def new_search(self):
        """a new search() starts: whatever an earlier (aborted) search left un-harvested is not
        part of this search; remember where this search's part of the logs begins"""
        for f in self.futs:
            if not f.taken and not f.cancelled:
                f.abandoned = True
        self.marks.append((len(self.taken_order), len(self.futs)))
        self.cur = None

    def submit(self, fn, *args, **kwargs):
        k = len(self.futs)
        value = exc = None
        try:
            value = fn(*args, **kwargs)
        except Exception as e:      # delivered by result(), as a real pool would
            exc = e
        f = ScriptedFuture(self, k, value, exc)
        self.futs.append(f)
        self.cur = None             # a new future: the done-set is re-decided at the next scan
        return f

    def flag_of(self, k):
        if self.cur is None:
            ids = self.inflight()
            rk = [self.ranks[i % len(self.ranks)] + (i // len(self.ranks)) * len(self.ranks) for i in ids]
            lo = min(rk)
            sl = self.slack[self.step % len(self.slack)] if self.slack else 0
            self.cur = (ids, [r <= lo + sl for r in rk])
        ids, flags = self.cur
        if k not in ids:
            f = self.futs[k]
            if getattr(f, "abandoned", False):
                self.problems.append("the search polls future %d, which an earlier aborted search() submitted" % k)
            else:
                self.problems.append("done() asked of future %d which is not in flight" % k)
            return True
        return flags[ids.index(k)]

    def take(self, f):
        if f.taken:
            self.problems.append("result() taken twice from future %d" % f.k)
        if self.cur is None:
            self.problems.append("result() of future %d taken without a done() scan" % f.k)
            self.flag_of(f.k)
        ids, flags = self.cur
        if f.k in ids and not flags[ids.index(f.k)]:
            self.problems.append("result() of future %d taken although it was not done" % f.k)
        self.flags_log.append((list(ids), list(flags)))
        self.positions.append(ids.index(f.k) if f.k in ids else -1)
        self.nsub_at_take.append(len(self.futs))
        f.taken = True
        self.taken_order.append(f.k)
        self.step += 1
        self.cur = None


_DEPTH = threading.local()
_REC = {"on": False, "trial": None, "fault": None}


def install_stage_wrappers():
    """record stats around the in-place post-processing (harness process only)"""
    from cotengra.core import ContractionTree
    if getattr(ContractionTree, "_c08_wrapped", False):
        return
    from cotengra.utils import BadTrial

    def stats3(tree):
        s = tree.copy().contract_stats()
        return [int(s["flops"]), int(s["write"]), int(s["size"])]

    def wrap(name):
        desc = ContractionTree.__dict__[name]

        def w(self, *a, **k):
            d = getattr(_DEPTH, "d", 0)
            top = _REC["on"] and d == 0 and _REC["trial"] is not None
            if top:
                rec = {"stage": STAGE_OF[name], "after": None}
                _REC["trial"]["stages"].append(rec)
                fault = _REC["fault"]
                if fault is not None:
                    kind = fault(len(_REC["log"]) - 1, STAGE_OF[name])
                    if kind == "bad":
                        rec["after"] = "bad"
                        raise BadTrial
                    if kind == "err":
                        rec["after"] = "err"
                        raise RuntimeError("c08: injected stage failure")
            _DEPTH.d = d + 1
            try:
                out = desc.__get__(self, type(self))(*a, **k)
            except BadTrial:
                if top:
                    rec["after"] = "bad"
                raise
            except Exception as e:
                if top:
                    rec["after"] = "err"
                    rec["msg"] = repr(e)[:200]
                raise
            finally:
                _DEPTH.d = d
            if top:
                rec["after"] = stats3(self)
            return out
        setattr(ContractionTree, name, w)

    for nm in STAGE_OF:
        wrap(nm)
    ContractionTree._c08_wrapped = True

    from cotengra.hyperoptimizers import hyper
    orig_base = hyper.base_trial_fn

    def base(inputs, output, size_dict, method, **kw):
        t = _REC["trial"] if _REC["on"] else None
        try:
            trial = orig_base(inputs, output, size_dict, method, **kw)
        except BadTrial:
            if t is not None:
                t["base"] = "bad"
            raise
        except Exception as e:
            if t is not None:
                t["base"] = "err"
                t["base_msg"] = repr(e)[:200]
            raise
        if t is not None:
            t["base"] = stats3(trial["tree"])
        return trial
    _REC["base_orig"], _REC["base_wrapped"] = orig_base, base


def trial_fields(trial):
    return {
        "keys": sorted(k for k in trial),
        "flops": ckey(trial.get("flops")), "write": ckey(trial.get("write")), "size": ckey(trial.get("size")),
        "oflops": ckey(trial.get("original_flops")), "owrite": ckey(trial.get("original_write")),
        "osize": ckey(trial.get("original_size")),
        "score": fkey(trial.get("score")),
        "has_tree": "tree" in trial,
    }


COMPRESSED = ["peak-compressed", "size-compressed", "max-compressed", "flops-compressed", "write-compressed",
              "combo-compressed"]


def compressed_reference(base, chi, tree, inputs, output, size_dict):
    """figures and raw score of `tree` under the compressed objective `base` at bond dimension
    `chi`, computed WITHOUT the objective object the optimizer used: a freshly constructed
    objective with an explicit chi, applied to a tree rebuilt from the path alone and to a copy.
    returns (figures of the rebuild, raw score, figures of the copy)"""
    from cotengra import scoring
    from cotengra.core import ContractionTreeCompressed
    cls = {"peak-compressed": scoring.CompressedPeakObjective, "size-compressed": scoring.CompressedSizeObjective,
           "max-compressed": scoring.CompressedSizeObjective, "flops-compressed": scoring.CompressedFlopsObjective,
           "write-compressed": scoring.CompressedWriteObjective, "combo-compressed": scoring.CompressedComboObjective}[base]
    t1 = {"tree": ContractionTreeCompressed.from_path(inputs, output, size_dict, path=tree.get_path())}
    raw = cls(chi=chi)(t1)
    t2 = {"tree": tree.copy()}
    cls(chi=chi)(t2)
    fig = lambda t: {"flops": ckey(t["flops"]), "write": ckey(t["write"]), "size": ckey(t["size"])}
    return fig(t1), raw, fig(t2)


def effective_chi(spec):
    return spec["chi"] if spec.get("chi") is not None else max(spec["size_dict"].values()) ** 2


def fn_probe(spec):
    """score a fixed tree of a fixed probe network through the objective STRING (the shared,
    cached objective object): (score, flops, write, size)"""
    from cotengra.core import ContractionTree, ContractionTreeCompressed
    from cotengra.scoring import get_score_fn
    pr = spec["fn_probe"]
    ins = [tuple(t) for t in pr["inputs"]]
    cls = ContractionTreeCompressed if spec.get("compressed") else ContractionTree
    tree = cls.from_path(ins, tuple(pr["output"]), pr["size_dict"], path=[tuple(x) for x in pr["path"]])
    mz = spec["minimize"]
    if spec.get("compressed") and spec.get("chi") is not None:
        mz = "%s-%d" % (mz, spec["chi"])
    trial = {"tree": tree}
    sc = get_score_fn(mz)(trial)
    out = {"score": sc, "flops": ckey(trial.get("flops")), "write": ckey(trial.get("write")), "size": ckey(trial.get("size"))}
    if spec.get("compressed"):
        chi = spec["chi"] if spec.get("chi") is not None else max(pr["size_dict"].values()) ** 2
        ref, raw, ref2 = compressed_reference(spec["minimize"], chi, tree, ins, tuple(pr["output"]), pr["size_dict"])
        out["ref"] = dict(ref, score=raw)
        out["ref_copy"] = ref2
    else:
        st = ContractionTree.from_path(ins, tuple(pr["output"]), pr["size_dict"], path=[tuple(x) for x in pr["path"]]).contract_stats()
        val = objective_value(mz, st["flops"], st["write"], st["size"])
        out["ref"] = {"flops": int(st["flops"]), "write": int(st["write"]), "size": int(st["size"]), "score": val}
    return out


def rebuilt_stats(tree, inputs, output, size_dict):
    """contract_stats of a FRESH tree built from the returned tree's path and sliced indices,
    and the same figures from the independent evaluator (network + nesting alone)"""
    from cotengra.core import ContractionTree
    from vlib import gen, oracle
    path = tree.get_path()
    fresh = ContractionTree.from_path(inputs, output, size_dict, path=path)
    sliced = list(tree.sliced_inds)
    projected = [ix for ix, si in tree.sliced_inds.items() if si.project is not None]
    for ix in sliced:
        si = tree.sliced_inds[ix]
        if si.project is None:
            fresh.remove_ind_(ix)
        else:
            fresh.remove_ind_(ix, project=si.project)
    st = fresh.contract_stats()
    nested = gen.tree_nested(tree)
    spec = oracle.spec_costs(inputs, output, size_dict, nested, sliced, projected)
    return ({"flops": int(st["flops"]), "write": int(st["write"]), "size": int(st["size"])},
            {"flops": int(spec["flops"]), "write": int(spec["write"]), "size": int(spec["size"])},
            sliced)


def run_case(spec):
    import math
    import random
    import warnings
    import cotengra as ctg
    from cotengra.hyperoptimizers import hyper
    from vlib import oracle
    register_methods()
    install_stage_wrappers()

    if spec.get("kind") == "predispatch":
        out = []
        for nw in spec["nws"]:
            class P:
                _max_workers = nw
            o = ctg.HyperOptimizer(methods=["greedy"], parallel=P(), optlib="random")
            out.append([nw, o._num_workers, o.pre_dispatch])
        return {"predispatch": out}
    inputs = [tuple(t) for t in spec["inputs"]]
    output = tuple(spec["output"])
    size_dict = dict(spec["size_dict"])
    mode = spec["mode"]
    obs = {"problems": [], "mode": mode}
    import inspect
    from cotengra.scoring import LimitObjective
    obs["limit_ensures"] = "ensure_basic_quantities_are_computed" in inspect.getsource(LimitObjective.__call__)
    minimize = CUSTOM.get(spec["minimize"], spec["minimize"])
    kw = dict(spec["opts"])
    instrument = mode in ("serial", "scripted")

    clock = None
    real_time = hyper.time
    if spec.get("clock"):
        clock = FakeTime()
        hyper.time = clock
    pool = None
    executor = None
    if mode == "serial":
        parallel = False
    elif mode == "scripted":
        pool = ScriptedPool(spec["ranks"], spec.get("slack") or [0])
        parallel = pool
    elif mode == "thread":
        from concurrent.futures import ThreadPoolExecutor
        executor = ThreadPoolExecutor(spec.get("workers", 3))
        parallel = executor
    elif mode == "process":
        from concurrent.futures import ProcessPoolExecutor
        executor = ProcessPoolExecutor(spec.get("workers", 2))
        parallel = executor
    else:
        raise ValueError(mode)

    # the recording wrapper is a closure (not picklable): only where trials run in this process
    hyper.base_trial_fn = _REC["base_wrapped"] if instrument else _REC["base_orig"]
    random.seed(spec["seed"])
    log = []
    _REC.update(on=instrument, trial=None, log=log, fault=None)
    if spec.get("faults"):
        faults = {(int(a), b): c for a, b, c in spec["faults"]}
        _REC["fault"] = lambda k, st: faults.get((k, st))
    asks, reports = [], []
    searches = []
    try:
        with warnings.catch_warnings(record=True) as wlist:
            warnings.simplefilter("always")
            optkw = {}
            if spec["optlib"] is not None:
                optkw["optlib"] = spec["optlib"]
                if spec["optlib"] == "random":
                    optkw["seed"] = spec["seed"]
            if spec.get("fn_probe"):
                obs["fn_before"] = fn_probe(spec)
            if spec.get("compressed"):
                opt = ctg.HyperCompressedOptimizer(chi=spec.get("chi"), methods=tuple(spec["methods"]), minimize=minimize,
                                                   max_repeats=spec["max_repeats"], max_time=spec.get("max_time"),
                                                   parallel=parallel, on_trial_error=spec["on_trial_error"],
                                                   max_training_steps=spec.get("mts"), **kw, **optkw)
            else:
                opt = ctg.HyperOptimizer(methods=spec["methods"], minimize=minimize, max_repeats=spec["max_repeats"],
                                         max_time=spec.get("max_time"), parallel=parallel,
                                         on_trial_error=spec["on_trial_error"],
                                         max_training_steps=spec.get("mts"), **kw, **optkw)
            if mode == "scripted":
                opt.pre_dispatch = spec["pre_dispatch"]
            obs["pre_dispatch"] = getattr(opt, "pre_dispatch", None)

            g0, r0 = opt._optimizer["get_setting"], opt._optimizer["report_result"]

            def get_setting(self):
                s = g0(self)
                asks.append(s)
                return s

            rep_state = {"n": 0, "at": None}

            def report_result(self, setting, trial, score):
                n = rep_state["n"]
                rep_state["n"] += 1
                if n == rep_state["at"]:
                    raise RuntimeError("c08: injected failure in the reporting path")
                reports.append((setting, score))
                return r0(self, setting, trial, score)
            opt._optimizer["get_setting"] = get_setting
            opt._optimizer["report_result"] = report_result

            if instrument:
                setup0 = opt.setup

                def setup(inputs, output, size_dict):
                    fn, args = setup0(inputs, output, size_dict)

                    def rec_fn(*a, **k):
                        t = {"k": len(log), "stages": [], "base": None, "exc": None, "kw_params": None}
                        log.append(t)
                        _REC["trial"] = t
                        try:
                            trial = fn(*a, **k)
                        except Exception as e:
                            t["exc"] = repr(e)[:200]
                            raise
                        finally:
                            _REC["trial"] = None
                            if clock is not None:
                                clock.now += spec["clock"]["dt"][t["k"] % len(spec["clock"]["dt"])]
                                t["now"] = clock.now
                        t["fields"] = trial_fields(trial)
                        t["tree_obj"] = trial.get("tree")
                        return trial
                    return rec_fn, args
                opt.setup = setup

            history = spec.get("history")
            for si in range(len(history) if history else spec.get("nsearch", 1)):
                plan = history[si] if history else None
                # let what an aborted search left on a real pool finish before the next search
                for _, fut in list(getattr(opt, "_futures", None) or []):
                    if not isinstance(fut, ScriptedFuture):
                        try:
                            fut.result()
                        except Exception:
                            pass
                _ABORT["at"] = rep_state["at"] = None
                if plan and plan.startswith("trial:"):
                    _ABORT["at"] = _ABORT["calls"] + int(plan.split(":")[1])
                if plan and plan.startswith("report:"):
                    rep_state["at"] = rep_state["n"] + int(plan.split(":")[1])
                if pool is not None:
                    pool.new_search()
                before = len(opt.scores)
                nasks0 = len(asks)
                sr = {"exc": None, "plan": plan, "before": before, "asks0": nasks0}
                try:
                    tree = opt.search(inputs, output, size_dict)
                    sr["tree"] = tree
                except Exception as e:
                    sr["exc"] = "%s: %s" % (type(e).__name__, str(e)[:200])
                    sr["tree"] = None
                _ABORT["at"] = rep_state["at"] = None
                sr["nreported"] = len(opt.scores) - before
                sr["nasks"] = len(asks) - nasks0
                pend = list(getattr(opt, "_futures", None) or [])
                sr["npending"] = len(pend)
                sr["pending"] = [fut.k for _, fut in pend if isinstance(fut, ScriptedFuture)]
                if sr["tree"] is not None:
                    # the property at the end of THIS search (later searches change opt.best)
                    fin = [x for x in opt.scores if x == x and x != INF]
                    sr["best_is_min"] = bool(fin) and opt.best.get("score") == min(fin)
                    sr["ret_is_best"] = sr["tree"] is opt.best.get("tree")
                    sr["best_fig"] = {k: ckey(opt.best.get(k)) for k in ("flops", "write", "size")}
                    sr["tree_ok"] = ([tuple(t) for t in tree.inputs] == inputs and tuple(tree.output) == output
                                     and tree.N == len(inputs) and oracle.tree_is_complete(tree))
                    if not spec.get("compressed"):
                        try:
                            sr["rebuilt"] = rebuilt_stats(tree, inputs, output, size_dict)[0]
                        except Exception as e:
                            sr["rebuilt"] = repr(e)
                searches.append(sr)
                if sr["exc"] and not history:
                    break
        obs["warnings"] = sorted({str(w.message)[:120] for w in wlist})[:5]
    finally:
        hyper.time = real_time
        hyper.base_trial_fn = _REC["base_orig"]
        _REC.update(on=False, trial=None, fault=None)
        if executor is not None:
            executor.shutdown(wait=True)

    # ------------------------------------------------------------- observations
    ask_ix = {id(s["params"]): i for i, s in enumerate(asks)}
    meth_ix = {m: i for i, m in enumerate(sorted(set(spec["methods"])))}
    obs["asks"] = [[meth_ix[s["method"]], i] for i, s in enumerate(asks)]
    obs["ask_params"] = [[s["method"], {k: (v if isinstance(v, (int, str, bool)) else repr(v)) for k, v in s["params"].items()}]
                         for s in asks]
    obs["reports"] = [[meth_ix[s["method"]], ask_ix.get(id(s["params"]), -1), fkey(sc)] for s, sc in reports]
    obs["scores"] = [fkey(x) for x in opt.scores]
    obs["flops"] = [ckey(x) for x in opt.costs_flops]
    obs["write"] = [ckey(x) for x in opt.costs_write]
    obs["size"] = [ckey(x) for x in opt.costs_size]
    obs["methods"] = [meth_ix.get(m, -1) for m in opt.method_choices]
    obs["params"] = [ask_ix.get(id(p), -1) for p in opt.param_choices]
    obs["best_score"] = fkey(opt.best_score)
    obs["tsb"] = opt.trials_since_best
    obs["searches"] = [{k: v for k, v in s.items() if k != "tree"} for s in searches]
    obs["lens"] = [len(opt.scores), len(opt.costs_flops), len(opt.costs_write), len(opt.costs_size),
                   len(opt.method_choices), len(opt.param_choices), len(opt.times)]
    best = opt.best
    tree_ix = {id(t["tree_obj"]): t["k"] for t in log if t.get("tree_obj") is not None}
    bt = best.get("tree")
    obs["best"] = {
        "keys": sorted(best),
        "score": fkey(best.get("score")), "flops": ckey(best.get("flops")), "write": ckey(best.get("write")),
        "size": ckey(best.get("size")),
        "tree": tree_ix.get(id(bt)) if bt is not None else None,
        "has_tree": bt is not None,
        "params_ask": None, "method": None,
    }
    if "params" in best:
        bp = dict(best["params"])
        bm = bp.pop("method", None)
        obs["best"]["method"] = meth_ix.get(bm, -1)
        cands = [i for i, s in enumerate(asks) if s["params"] == bp and s["method"] == bm]
        obs["best"]["params_cands"] = cands
    obs["trials"] = [{k: v for k, v in t.items() if k != "tree_obj"} for t in log]
    if pool is not None:
        obs["pool_marks"] = pool.marks
        obs["pool"] = {"taken": pool.taken_order, "flags": pool.flags_log, "positions": pool.positions,
                       "cancelled": pool.cancelled, "nsub": len(pool.futs), "nsub_at_take": pool.nsub_at_take}
        obs["problems"] += pool.problems
        if clock is not None:
            # the clock at the moment each result was handed over = time after the last execution so far
            obs["pool"]["now_at_take"] = [log[n - 1]["now"] for n in pool.nsub_at_take]

    # ------------------------------------------------------------- oracle (property text)
    P = obs["problems"]
    if spec.get("history"):
        # every search() of a history on one optimizer object, also after an aborted one
        for si, sr in enumerate(searches):
            lo, hi = sr["before"], sr["before"] + sr["nreported"]
            a0, a1 = sr["asks0"], sr["asks0"] + sr["nasks"]
            foreign = [j for j in obs["params"][lo:hi] if not (a0 <= j < a1)]
            if foreign:
                P.append("search %d recorded trials it did not launch (settings asked as numbers %r; this search asked %d..%d)" % (
                    si, foreign, a0, a1 - 1))
            if sr["nreported"] > spec["max_repeats"]:
                P.append("search %d recorded %d trials, max_repeats=%d" % (si, sr["nreported"], spec["max_repeats"]))
            if sr["exc"] is None and spec.get("max_time") is None and sr["nreported"] != spec["max_repeats"]:
                P.append("search %d completed with %d recorded trials, max_repeats=%d" % (si, sr["nreported"], spec["max_repeats"]))
            if sr["exc"] is None and sr["npending"]:
                P.append("search %d completed but left %d futures in the optimizer" % (si, sr["npending"]))
            if sr.get("tree") is not None:
                if not sr["tree_ok"]:
                    P.append("search %d returned a tree that is not a complete tree of the queried contraction" % si)
                if not sr["best_is_min"] or not sr["ret_is_best"]:
                    P.append("search %d: best is not the minimum of the recorded scores / not the returned tree" % si)
                if not spec.get("compressed") and sr["best_fig"] != sr["rebuilt"]:
                    P.append("search %d: recorded best costs %r, the returned tree rebuilt from scratch has %r" % (
                        si, sr["best_fig"], sr["rebuilt"]))
            if sr["exc"] is not None and not (sr["plan"] and "c08: injected" in sr["exc"]):
                if not sr["exc"].startswith("KeyError: 'tree'"):
                    P.append("search %d raised %s (plan %r)" % (si, sr["exc"], sr["plan"]))
    last = searches[-1] if searches else {"exc": "no search", "tree": None}
    ret = last["tree"]
    if ret is not None:
        # (a) complete, and for the queried network
        if not oracle.tree_is_complete(ret):
            P.append("returned tree is not complete")
        if [tuple(t) for t in ret.inputs] != inputs or tuple(ret.output) != output:
            P.append("returned tree is for a different network: %r -> %r" % (ret.inputs, ret.output))
        if any(ret.size_dict.get(ix) != size_dict[ix] for t in inputs for ix in t):
            P.append("returned tree has a different size_dict")
        if ret.N != len(inputs):
            P.append("returned tree has N=%r" % ret.N)
        # (b) the winner
        if ret is not best.get("tree"):
            P.append("search() returned a tree that is not opt.best['tree']")
        # (c) recorded figures of the winner = figures of the returned tree, rebuilt from scratch
        try:
            fresh, spec_st, sliced = rebuilt_stats(ret, inputs, output, size_dict)
            obs["rebuilt"] = fresh
            obs["spec"] = spec_st
            obs["sliced"] = sliced
            rec = {k: ckey(best.get(k)) for k in ("flops", "write", "size")}
            if not spec.get("compressed"):
                if rec != fresh:
                    P.append("recorded best costs %r differ from a freshly rebuilt tree %r" % (rec, fresh))
                if rec != spec_st:
                    P.append("recorded best costs %r differ from the independent evaluation %r" % (rec, spec_st))
                live = ret.contract_stats()
                live = {k: int(live[k]) for k in ("flops", "write", "size")}
                if live != fresh:
                    P.append("returned tree reports %r but a fresh rebuild gives %r" % (live, fresh))
            else:
                ref, raw, ref2 = compressed_reference(spec["minimize"], effective_chi(spec), ret, inputs, output, size_dict)
                obs["rebuilt"] = ref
                if rec != ref or rec != ref2:
                    P.append("recorded best costs %r are not the compressed costs of the returned tree at chi=%d: %r "
                             "(fresh objective on a rebuilt tree) / %r (on a copy)" % (rec, effective_chi(spec), ref, ref2))
                if not (abs(best["score"] - raw ** 0.75) < 1e-4):
                    P.append("recorded best score %r is not the score of the returned tree at chi=%d: %r" % (
                        best["score"], effective_chi(spec), raw ** 0.75))
        except Exception as e:
            P.append("could not rebuild the returned tree: %r" % (e,))
    obs["returned"] = ret is not None
    if spec.get("fn_probe"):
        try:
            obs["fn_after"] = fn_probe(spec)
        except Exception as e:
            obs["fn_after"] = {"exc": repr(e)}
        b4, af = obs.get("fn_before"), obs["fn_after"]
        if b4 != af:
            P.append("scoring is not a function of (tree, objective string): the probe tree scored %r before the search and %r after" % (b4, af))
        for nm, pr in (("before", b4), ("after", af)):
            if not pr or "ref" not in pr:
                continue
            rf = pr["ref"]
            figs_ok = all(pr[k] == rf[k] for k in ("flops", "write", "size"))
            sc_ok = rf["score"] is None or abs(pr["score"] - rf["score"]) < 1e-9
            if not (figs_ok and sc_ok) or ("ref_copy" in pr and any(pr[k] != pr["ref_copy"][k] for k in ("flops", "write", "size"))):
                P.append("the objective string scores the probe tree %s the search as %r, a freshly built objective gives %r" % (
                    nm, {k: pr[k] for k in ("score", "flops", "write", "size")}, rf))
                break
    # every recorded trial row: the figures and the score must be those of the tree that trial
    # KEPT in its dict (rebuilt from scratch + independent evaluation), not of some other tree
    # (a discarded copy, the tree before the last stage ...): the ranking rests on these rows
    nrow = 0
    for t in log:
        tobj = t.get("tree_obj")
        if tobj is None or t.get("fields") is None:
            continue
        f = t["fields"]
        if spec.get("compressed"):
            try:
                ref, raw, ref2 = compressed_reference(spec["minimize"], effective_chi(spec), tobj, inputs, output, size_dict)
            except Exception as e:
                P.append("could not re-score the tree kept by trial %d: %r" % (t["k"], e))
                continue
            nrow += 1
            t["cref"] = [ref["flops"], ref["write"], ref["size"]]
            rec = {k: f[k] for k in ("flops", "write", "size")}
            got = struct.unpack(">d", struct.pack(">q", f["score"]))[0] if isinstance(f["score"], int) and f["score"] >= 0 else None
            if rec != ref or rec != ref2:
                P.append("trial %d records costs %r but the tree it kept has compressed costs %r at chi=%d (fresh objective, "
                         "rebuilt tree; on a copy: %r)" % (t["k"], rec, ref, effective_chi(spec), ref2))
            elif got is not None and not (abs(got - raw ** 0.75) < 1e-4):
                P.append("trial %d records score %r but the tree it kept scores %r at chi=%d" % (
                    t["k"], got, raw ** 0.75, effective_chi(spec)))
            continue
        if f["flops"] is None and f["write"] is None and f["size"] is None:
            continue        # a bare callable objective that records nothing (outside the property)
        try:
            fresh, spec_st, _ = rebuilt_stats(tobj, inputs, output, size_dict)
        except Exception as e:
            P.append("could not rebuild the tree kept by trial %d: %r" % (t["k"], e))
            continue
        nrow += 1
        rec = {k: f[k] for k in ("flops", "write", "size")}
        if rec != fresh or rec != spec_st:
            P.append("trial %d records costs %r but the tree it kept has %r (independent evaluation %r)" % (
                t["k"], rec, fresh, spec_st))
            continue
        val = objective_value(spec["minimize"], fresh["flops"], fresh["write"], fresh["size"])
        if val is not None and f["score"] not in (None, "inf", "nan"):
            got = struct.unpack(">d", struct.pack(">q", f["score"]))[0] if f["score"] >= 0 else None
            if got is not None and not (abs(got - val ** 0.75) < 1e-4):
                P.append("trial %d records score %r but the tree it kept scores %r" % (t["k"], got, val ** 0.75))
    obs["rows_checked"] = nrow
    for t, ot in zip(log, obs["trials"]):
        if "cref" in t:
            ot["cref"] = t["cref"]
    # deterministic methods: every recorded figure can be recomputed from the recorded setting alone
    if spec.get("check_det") and not kw and len(set(obs["lens"])) == 1:
        for j, (m, p) in enumerate(zip(opt.method_choices, opt.param_choices)):
            if m not in ("c08det", "c08flaky"):
                continue
            ps = p["pseed"]
            fails = m == "c08flaky" and flaky_kind(ps) is not None
            got = (ckey(opt.costs_flops[j]), ckey(opt.costs_write[j]), ckey(opt.costs_size[j]))
            if fails:
                want = ("inf", "inf", "inf")
                if fkey(opt.scores[j]) != "inf":
                    P.append("failed trial %d recorded score %r" % (j, opt.scores[j]))
            else:
                st = trial_c08det(inputs, output, size_dict, ps).contract_stats()
                want = (int(st["flops"]), int(st["write"]), int(st["size"]))
                val = objective_value(spec["minimize"], *want)
                if val is not None and not (abs(opt.scores[j] - val ** 0.75) < 1e-4):
                    P.append("trial %d: recorded score %r does not belong to its setting (expected %r)" % (
                        j, opt.scores[j], val ** 0.75))
            if got != want:
                P.append("%strial %d (%s pseed=%d): recorded costs %r, its own setting gives %r" % (
                    "record-only: " if fails else "", j, m, ps, got, want))
    return obs


def worker_main():
    sys.setrecursionlimit(10000)
    for line in sys.stdin:
        line = line.strip()
        if not line:
            continue
        spec = json.loads(line)
        try:
            obs = run_case(spec)
        except Exception:
            import traceback
            obs = {"harness_exc": traceback.format_exc()[-3000:]}
        sys.stdout.write("@@" + json.dumps(obs, default=repr) + "\n")
        sys.stdout.flush()


# --------------------------------------------------------------------------------------
# main side: running the workers


def run_specs(specs, nproc=14, per_case=30.0, groups=()):
    """returns list of observations (same order); {'hang': True} for a case that did not finish.
    groups: lists of indices that must run consecutively in ONE worker process (sequences)"""
    results = [None] * len(specs)
    grouped = {i for g in groups for i in g}
    units = [list(g) for g in groups] + [[i] for i in range(len(specs)) if i not in grouped]
    batches = [[] for _ in range(nproc)]
    for u, unit in enumerate(units):
        batches[u % nproc].extend(unit)
    batches = [b for b in batches if b]

    def run_batch(idxs):
        idxs = list(idxs)
        while idxs:
            p = subprocess.Popen([sys.executable, os.path.abspath(__file__), "--worker"], stdin=subprocess.PIPE,
                                 stdout=subprocess.PIPE, stderr=subprocess.DEVNULL, text=True)
            data = "".join(json.dumps(specs[i]) + "\n" for i in idxs)
            try:
                out, _ = p.communicate(data, timeout=20 + per_case * min(len(idxs), 4) + 1.5 * len(idxs))
                timed_out = False
            except subprocess.TimeoutExpired:
                p.kill()
                out, _ = p.communicate()
                timed_out = True
            # a path finder's native library may print on stdout: take what follows the marker
            lines = [ln[ln.index("@@") + 2:] for ln in out.split("\n") if "@@" in ln]
            for i, ln in zip(idxs, lines):
                results[i] = json.loads(ln)
            done = len(lines)
            if done < len(idxs):
                results[idxs[done]] = {"hang": True, "timed_out": timed_out, "rc": p.returncode}
                idxs = idxs[done + 1:]
            else:
                idxs = []

    ths = [threading.Thread(target=run_batch, args=(b,)) for b in batches]
    for t in ths:
        t.start()
    for t in ths:
        t.join()
    return results


# --------------------------------------------------------------------------------------
# Coq literals


def pyf_lit(k):
    if k == "inf":
        return "PInf"
    if k == "nan":
        return "NaN"
    return "(Fin (%d)%%Z)" % k


def cost_lit(c):
    if c == "inf":
        return "(@None Z)"
    return "(Some (%d)%%Z)" % c


def optcost_lit(c):
    return "(@None cost)" if c is None else "(Some %s)" % cost_lit(c)


def optz_lit(c):
    return "(@None Z)" if c is None else "(Some (%d)%%Z)" % c


def trial_lit(f, tree):
    """trial record from observed fields; tree: None or nat"""
    return "(mkTrial %s %s %s %s %s %s %s %s)" % (
        "(@None nat)" if tree is None else "(Some %d%%nat)" % tree,
        optcost_lit(f["flops"]), optcost_lit(f["write"]), optcost_lit(f["size"]),
        optz_lit(f["oflops"]), optz_lit(f["owrite"]), optz_lit(f["osize"]),
        "(@None pyf)" if f["score"] is None else "(Some %s)" % pyf_lit(f["score"]))


def lst(xs):
    return "[" + "; ".join(xs) + "]"


def z3(t):
    return "((%d)%%Z, (%d)%%Z, (%d)%%Z)" % tuple(t)


OPT_STAGES = [("simulated_annealing_opts", "Anneal"), ("slicing_opts", "Slice"),
              ("slicing_reconf_opts", "SliceReconf"), ("reconf_opts", "Reconf")]


def objective_kind(minimize, limit_ensures=False):
    if minimize.startswith("limit"):
        return "(ObjLimit %s)" % ("true" if limit_ensures else "false")
    if minimize == "custom-bare":
        return "ObjCustom"
    if minimize in COMPRESSED:
        return "ObjCompressed"
    return "ObjBasic"


def pipeline_case(spec, t, limit_ensures=False):
    """Coq lhs/rhs for one recorded trial: the model's trial_fn fed with the recorded stage
    outcomes must give the recorded dict.  Tree states are version numbers: 0 = the path
    finder's tree, i = after the i-th executed stage."""
    opts = spec["opts"]
    em = {"warn": "ErrWarn", "raise": "ErrRaise", "ignore": "ErrIgnore"}[spec["on_trial_error"]]
    obj = objective_kind(spec["minimize"], limit_ensures)
    op = "(mkOpts %s %s %s %s %s)" % (tuple("true" if k in opts else "false" for k, _ in OPT_STAGES)
                                      + ("true" if spec.get("compressed") else "false",))
    cref = t.get("cref") or [0, 0, 0]
    versions = []       # stats per version
    posts = []          # per executed stage: ('ok') | 'bad' | 'err'
    base = t["base"]
    if base in ("bad", "err", None):
        b = "RaiseBad" if base == "bad" else "RaiseErr"
        if base is None and t["exc"] is None and t.get("fields", {}).get("has_tree"):
            return None
    else:
        b = "(Ok 0%nat)"
        versions.append(base)
    for srec in t["stages"]:
        if isinstance(srec["after"], list):
            versions.append(srec["after"])
            posts.append("ok")
        else:
            posts.append(srec["after"] or "err")
    statsf = "(fun v => tbl %s (0,0,0)%%Z v)" % lst(z3(v) for v in versions)
    # post: the i-th stage of stages_of acts on version i
    post_tbl = lst({"ok": "true", "bad": "false", "err": "false"}[p] for p in posts)
    bad_tbl = lst("true" if p == "bad" else "false" for p in posts)
    postf = ("(fun (s : stage) (v : nat) => if tbl %s false v then Ok (S v) else "
             "if tbl %s false v then RaiseBad else RaiseErr)" % (post_tbl, bad_tbl))
    got_exc = t["exc"] is not None
    if got_exc:
        rhs = "(@RaiseErr (trial nat))"
        sc = "PInf"
        final_tree = None
    else:
        f = t["fields"]
        sc = pyf_lit(f["score"]) if f["score"] is not None else "NaN"
        final_tree = (len(versions) - 1) if f["has_tree"] else None
        rhs = "(Ok %s)" % trial_lit(f, final_tree)
    # the float arithmetic of the objective is an oracle: it returns the recorded score;
    # a custom objective that raised is visible as a failed trial without stage/base failure
    custom = "(fun _ => Ok %s)" % sc
    if obj == "ObjCustom" and not got_exc and t["fields"]["score"] == "inf" and base not in ("bad", "err") \
            and all(p == "ok" for p in posts):
        custom = "(fun _ => RaiseErr)"
    lhs = ("(trial_fn nat %s %s (fun _ _ _ => %s) (fun _ => %s) (fun _ => " + z3(cref).replace("%", "%%") + ") (fun _ _ _ => %s) %s "
           "(fun x => x) %s %s %s %s)") % (statsf, postf, sc, sc, sc, custom, em, obj, op, b)
    return lhs, rhs


def search_terms(spec, obs):
    """Coq term replaying the whole run through Model/Hyper.v `serial` / `par`, and the observation"""
    trials = obs["trials"]
    nasks = len(obs["asks"])
    settings = lst("(%d%%nat, %d%%nat)" % (m, p) for m, p in obs["asks"])
    runs = []
    for t in trials:
        if t["exc"] is not None:
            runs.append("(@None (trial nat))")
        else:
            runs.append("(Some %s)" % trial_lit(t["fields"], t["k"] if t["fields"]["has_tree"] else None))
    gs = "(fun k _ => tbl %s (0%%nat,0%%nat) k)" % settings
    runf = "(fun id _ => tbl %s (@None (trial nat)) id)" % lst(runs)
    mts = "(@None nat)" if spec.get("mts") is None else "(Some %d%%nat)" % spec["mts"]
    return gs, runf, mts


def stop_term(spec, nows, t0=1000.0):
    """stopmode literal; `nows`: the scripted clock at each assessment step"""
    mt = spec.get("max_time")
    if mt is None:
        return "NoStop"
    if isinstance(mt, str) and mt.startswith("equil:"):
        return "(StopEquil %d%%nat)" % int(mt.split(":")[1])
    if isinstance(mt, str) and mt.startswith("rate:"):
        rate = int(float(mt.split(":")[1]))
        el = lst("(%d)%%Z" % int(round(x - t0)) for x in nows)
        return ("(StopRate (fun k c => match c with None => false | Some fl => "
                "Z.ltb fl (tbl %s 0%%Z k * %d)%%Z end))" % (el, rate))
    return "(StopTime (fun k => tbl %s true k))" % lst("true" if (x - t0) > mt else "false" for x in nows)


def observed_state(obs):
    """the final state of the real optimizer in the layout of Hyper.observe"""
    b = obs["best"]
    if b["has_tree"]:
        pc = b.get("params_cands") or []
        # best["params"] is a copy of the winning param dict: identify the ask by content,
        # preferring the ask recorded at the winner's position
        best = "(Some (%s, (%s, (%s, (%s, (%s, (%d%%nat, %d%%nat)))))))" % (
            "(@None nat)" if b["tree"] is None else "(Some %d%%nat)" % b["tree"], pyf_lit(b["score"]),
            optcost_lit(b["flops"]), optcost_lit(b["write"]), optcost_lit(b["size"]),
            b["method"], b["_params_ask"])
    else:
        best = "None"
    return "(%s, (%s, (%d%%nat, (%s, (%s, (%s, (%s, (%s, (%s, %s)))))))))" % (
        pyf_lit(obs["best_score"]), best, obs["tsb"],
        lst("%d%%nat" % m for m in obs["methods"]), lst("%d%%nat" % p for p in obs["params"]),
        lst(cost_lit(c) for c in obs["flops"]), lst(cost_lit(c) for c in obs["write"]),
        lst(cost_lit(c) for c in obs["size"]), lst(pyf_lit(s) for s in obs["scores"]),
        lst("((%d%%nat, %d%%nat), %s)" % (m, p, pyf_lit(s)) for m, p, s in obs["reports"]))


def py_argmin_first(scores):
    """independent statement of the selection rule: first strictly smallest score below +inf"""
    best, bi = None, None
    for i, s in enumerate(scores):
        if s in ("inf", "nan"):
            continue
        if best is None or s < best:
            best, bi = s, i
    return bi


# --------------------------------------------------------------------------------------
# case generation

METHOD_SETS = [["greedy"], ["random-greedy"], ["greedy", "random"], ["random"], ["labels", "greedy"],
               ["kahypar", "greedy"], ["c08det"], ["c08det", "c08flaky"], ["c08flaky", "greedy"],
               ["c08flaky"], ["greedy", "random-greedy", "c08det"]]
MINIMIZE = ["flops", "size", "write", "combo", "limit", "combo-64", "limit-64", "combo-256", "limit-8",
            "flops", "combo", "custom-ensure", "custom-nan"]
OPTSETS = [
    {}, {}, {},
    {"slicing_opts": {"target_slices": 2}},
    {"slicing_opts": {"target_size": 4}},
    {"reconf_opts": {}},
    {"reconf_opts": {"maxiter": 2, "subtree_size": 4}},
    {"slicing_reconf_opts": {"target_size": 8}},
    {"simulated_annealing_opts": {"tsteps": 2, "numiter": 3}},
    {"simulated_annealing_opts": {"tsteps": 2, "numiter": 2}, "slicing_opts": {"target_slices": 2}},
    {"slicing_opts": {"target_size": 4}, "reconf_opts": {"maxiter": 2}},
    {"simulated_annealing_opts": {"tsteps": 2, "numiter": 2}, "slicing_opts": {"target_size": 8},
     "slicing_reconf_opts": {"target_size": 4}, "reconf_opts": {"maxiter": 1}},
]


def rand_network(rng, gen):
    while True:
        inputs, output, size_dict = gen.rand_net(rng, nmin=3, nmax=9, max_ix=9, p_scalar=0.04,
                                                 p_disconnected=0.1, p_size1=0.1, dmax=4)
        if len(inputs) >= 3 and sum(len(t) for t in inputs) >= 3:
            return [list(t) for t in inputs], list(output), size_dict


def has_update_stage(opts):
    return bool(opts)


def known_class(spec):
    """input classes of the two recorded defects (KNOWN_FINDINGS.txt)"""
    import re
    mz = spec["minimize"]
    ks = set()
    if mz.startswith("limit") and not has_update_stage(spec["opts"]):
        ks.add("limit-objective-keyerror")
    if re.fullmatch(r"(combo|limit)-\d+", mz) and ("reconf_opts" in spec["opts"] or "slicing_reconf_opts" in spec["opts"]):
        ks.add("combo-float-factor")
    return ks


def make_spec(rng, gen, mode="serial", **over):
    inputs, output, size_dict = rand_network(rng, gen)
    spec = {
        "inputs": inputs, "output": output, "size_dict": size_dict, "mode": mode,
        "methods": rng.choice(METHOD_SETS), "minimize": rng.choice(MINIMIZE), "opts": rng.choice(OPTSETS),
        "max_repeats": rng.randint(2, 12), "optlib": "random", "seed": rng.randrange(10 ** 6),
        "on_trial_error": rng.choice(["warn", "ignore", "ignore"]), "nsearch": 1, "check_det": True,
    }
    spec.update(over)
    if spec["minimize"].startswith("custom") and set(spec["opts"]) - {"slicing_opts"}:
        # a bare callable has no local / dynamic-programming form: only slicing can be combined with it
        spec["opts"] = rng.choice([{}, {"slicing_opts": {"target_slices": 2}}])
    r = rng.random()
    if r < 0.12:
        spec["max_time"] = "equil:%d" % rng.randint(0, 3)
    elif r < 0.24:
        spec["max_time"] = rng.randint(2, 12)
        spec["clock"] = {"dt": [rng.randint(0, 4) for _ in range(5)]}
    elif r < 0.32:
        spec["max_time"] = "rate:%d" % rng.choice([1, 10, 50, 200])
        spec["clock"] = {"dt": [rng.randint(0, 4) for _ in range(5)]}
    if rng.random() < 0.15:
        spec["mts"] = rng.randint(0, 4)
    if rng.random() < 0.15:
        spec["nsearch"] = 2
    if spec["opts"] and rng.random() < 0.3:
        names = [st for k, st in OPT_STAGES if k in spec["opts"]]
        spec["faults"] = [[rng.randrange(spec["max_repeats"]), rng.choice(names), rng.choice(["bad", "err"])]
                          for _ in range(rng.randint(1, 3))]
    if rng.random() < 0.06:
        spec["on_trial_error"] = "raise"
    spec.update(over)
    import re
    if re.fullmatch(r"(flops|size|write|combo)(-\d+)?", spec["minimize"]) and rng.random() < 0.3 and mode in ("serial", "thread"):
        pi, po, ps = rand_network(rng, gen)
        spec["fn_probe"] = {"inputs": pi, "output": po, "size_dict": ps,
                            "path": [list(x) for x in gen.rand_path(rng, len(pi))]}
    return spec


# --------------------------------------------------------------------------------------


def judge(ctx, spec, obs, label):
    """oracle verdict on one run.  returns True when the run is usable for the model replay"""
    rec = {"spec": spec, "label": label}
    if obs is None or obs.get("hang"):
        ctx.fail("HyperOptimizer run did not finish under the watchdog", dict(rec, obs=obs))
        return False
    if "harness_exc" in obs:
        ctx.fail("worker raised outside the guarded call: " + obs["harness_exc"][-400:], rec, found_input=False)
        return False
    kc = known_class(spec)
    rec["obs"] = {k: obs.get(k) for k in ("searches", "scores", "flops", "write", "size", "best", "rebuilt", "spec",
                                          "problems", "warnings", "pool")}
    ok = True
    nfail = sum(1 for s in obs["scores"] if s in ("inf", "nan"))
    all_failed = len(obs["scores"]) > 0 and nfail == len(obs["scores"])
    for s in obs["searches"]:
        exc = s["exc"]
        if exc is None:
            continue
        ok = False
        if exc.startswith("KeyError: 'flops'") and "limit-objective-keyerror" in kc:
            ctx.fail("minimize='limit' without post-processing: " + exc, rec, key="limit-objective-keyerror")
            ctx.count("known:limit-objective-keyerror")
        elif "Couldn't parse `minimize` value" in exc and "combo-float-factor" in kc:
            ctx.fail("custom factor + reconfiguration: " + exc, rec, key="combo-float-factor")
            ctx.count("known:combo-float-factor")
        elif exc.startswith("KeyError: 'tree'") and all_failed:
            # every trial failed: there is no tree to return.  Is that the recorded parse defect?
            msgs = " ".join(str(st.get("msg")) for t in obs["trials"] for st in t["stages"]) + " ".join(obs.get("warnings", []))
            if "combo-float-factor" in kc and "parse `minimize`" in msgs:
                ctx.fail("custom factor + reconfiguration: every trial fails, " + exc, rec, key="combo-float-factor")
                ctx.count("known:combo-float-factor")
            else:
                ctx.count("all_trials_failed")     # nothing to return; not judged by C08
        elif spec["on_trial_error"] == "raise":
            ctx.count("raise_mode_propagated")     # requested behaviour
        elif spec["minimize"] == "custom-bare" and exc.startswith("KeyError: 'flops'"):
            ctx.count("custom_bare_keyerror")      # a callable that fills nothing: outside the property
        else:
            ctx.fail("search() raised: " + exc, rec)
    if ok and "combo-float-factor" in kc:
        msgs = " ".join(str(st.get("msg")) for t in obs["trials"] for st in t["stages"]) + " ".join(obs.get("warnings", []))
        if "parse `minimize`" in msgs:
            ctx.fail("custom factor + reconfiguration: trials fail with a parse error", rec, key="combo-float-factor")
            ctx.count("known:combo-float-factor")
    for p in obs["problems"]:
        ok = False
        # what is recorded for a trial that FAILED is not part of the property text: such a
        # difference is a departure from the model only
        ctx.fail(p, rec, found_input=not p.startswith("record-only: "))
    # (d) never more trials than requested, per search() call
    for s in obs["searches"]:
        if s["nreported"] > spec["max_repeats"] or s["nasks"] > spec["max_repeats"]:
            ctx.fail("more trials than max_repeats: reported %d asked %d" % (s["nreported"], s["nasks"]), rec)
            ok = False
    if len(set(obs["lens"])) != 1 and not any(s["exc"] and s["exc"].startswith("KeyError: 'flops'") for s in obs["searches"]):
        ctx.fail("recorded lists have different lengths %r" % (obs["lens"],), rec)
        ok = False
    # (b) best is the first strictly smallest recorded score
    i = py_argmin_first(obs["scores"])
    b = obs["best"]
    if obs["returned"]:
        if i is None:
            ctx.fail("a tree was returned although no trial scored below inf", rec)
            ok = False
        else:
            # (opt.best_score is internal: an exception thrown by the library's report_result leaves it
            #  updated although nothing was recorded -- not judged in such histories)
            rp = any(pl and pl.startswith("report:") for pl in (spec.get("history") or []))
            if b["score"] != obs["scores"][i] or (obs["best_score"] != obs["scores"][i] and not rp):
                ctx.fail("best score %r / %r is not the minimum recorded score %r" % (
                    b["score"], obs["best_score"], obs["scores"][i]), rec)
                ok = False
            if (b["flops"], b["write"], b["size"]) != (obs["flops"][i], obs["write"][i], obs["size"][i]):
                ctx.fail("best's costs %r are not the costs recorded for the winning trial %r" % (
                    (b["flops"], b["write"], b["size"]), (obs["flops"][i], obs["write"][i], obs["size"][i])), rec)
                ok = False
            if b["method"] != obs["methods"][i] or obs["params"][i] not in (b.get("params_cands") or []):
                ctx.fail("best['params'] is not the setting recorded for the winning trial", rec)
                ok = False
            b["_params_ask"] = obs["params"][i] if obs["params"][i] in (b.get("params_cands") or []) else 0
    elif not any(s["exc"] for s in obs["searches"]):
        ctx.fail("search() returned no tree", rec)
        ok = False
    # (e) failed trials: recorded as inf everywhere, never reported to the library
    for j, s in enumerate(obs["scores"]):
        if s == "inf" and (obs["flops"][j], obs["write"][j], obs["size"][j]) != ("inf", "inf", "inf"):
            ctx.fail("record-only: failed trial %d has finite recorded costs" % j, rec, found_input=False)
            ok = False
    for m, p, s in obs["reports"]:
        if s in ("inf", "nan"):
            ctx.fail("a failed trial was reported to the hyper-parameter library", rec)
            ok = False
    return ok


def run(ctx):
    from vlib.core import standard_proof_steps
    if not standard_proof_steps(ctx):
        return
    from vlib import gen
    rng = ctx.rng

    # ---------------------------------------------------------------- cases
    specs, labels = [], []

    def add(label, spec):
        specs.append(spec)
        labels.append(label)

    # probes of the recorded defects (every run)
    net0 = {"inputs": [["a", "b"], ["b", "c"], ["c", "d"], ["d", "a", "e"], ["e", "f"], ["f"]], "output": [],
            "size_dict": {c: 2 + (ord(c) % 3) for c in "abcdef"}}
    base = dict(net0, mode="serial", methods=["greedy"], max_repeats=4, optlib="random", seed=3,
                on_trial_error="warn", nsearch=1, opts={})
    add("reg:limit", dict(base, minimize="limit"))
    add("reg:limit-64", dict(base, minimize="limit-64"))
    add("reg:combo-256+reconf", dict(base, minimize="combo-256", opts={"reconf_opts": {}}))
    add("reg:limit-8+slicing_reconf", dict(base, minimize="limit-8", opts={"slicing_reconf_opts": {"target_size": 8}}))
    add("probe:custom-bare", dict(base, minimize="custom-bare"))
    # regression shapes around them that must work
    add("reg:limit+slicing", dict(base, minimize="limit", opts={"slicing_opts": {"target_slices": 2}}))
    add("reg:combo-256", dict(base, minimize="combo-256"))
    add("reg:combo+reconf", dict(base, minimize="combo", opts={"reconf_opts": {}}))

    for i in range(ctx.n(170, 5000)):
        add("serial%d" % i, make_spec(rng, gen))
    # annealing as the LAST stage, started from a near-optimal deterministic tree, short and hot:
    # many anneals end worse than they began (what is recorded must be the tree that is kept)
    for i in range(ctx.n(40, 300)):
        while True:
            inputs, output, size_dict = gen.rand_net(rng, nmin=6, nmax=10, max_ix=12, p_scalar=0.0, p_disconnected=0.0,
                                                     p_size1=0.05, dmax=4, p_hyper=0.2, p_repeat=0.1)
            if sum(len(t) >= 2 for t in inputs) >= 5:
                break
        sp = make_spec(rng, gen, methods=["c08opt"], minimize=rng.choice(["flops", "flops", "combo", "size", "write"]),
                       opts={"simulated_annealing_opts": {"tstart": rng.choice([5, 10, 50]), "tfinal": rng.choice([2, 5]),
                                                          "tsteps": rng.randint(1, 3), "numiter": rng.randint(3, 12)}},
                       max_repeats=rng.randint(3, 8), on_trial_error="ignore", nsearch=1,
                       mode="serial" if i % 4 else "scripted", ranks=[2, 0, 3, 1], slack=[0, 1], pre_dispatch=2)
        for k in ("max_time", "clock", "faults", "mts"):
            sp.pop(k, None)
        sp.update(inputs=[list(t) for t in inputs], output=list(output), size_dict=size_dict)
        add("anneal-last%d" % i, sp)
    # default hyper-parameter library (cmaes here): adaptive get_setting
    for i in range(ctx.n(6, 40)):
        add("default-optlib%d" % i, make_spec(rng, gen, optlib=None, methods=rng.choice([["greedy"], ["greedy", "kahypar"], ["c08det", "greedy"]]),
                                                minimize=rng.choice(["flops", "combo", "size"])))
    # scripted executor: every completion order of n trials for several pre_dispatch values
    nperm = ctx.n(4, 5)
    snet = rand_network(rng, gen)
    for pd in ([1, 2, 3, nperm + 1] if ctx.quick else [1, 2, 3, 4, nperm + 1]):
        for perm in itertools.permutations(range(nperm)):
            sp = make_spec(rng, gen, mode="scripted", methods=["c08det", "c08flaky"], minimize="flops", opts={},
                           max_repeats=nperm, ranks=list(perm), slack=[0], pre_dispatch=pd, nsearch=1,
                           on_trial_error="ignore", twin=True)
            sp.pop("max_time", None), sp.pop("clock", None), sp.pop("mts", None)
            sp.update(inputs=snet[0], output=snet[1], size_dict=snet[2], seed=1234 + pd)
            add("perm%d:%s" % (pd, "".join(map(str, perm))), sp)
    # scripted executor: random orders, slack (several futures done at once), stops, failures
    for i in range(ctx.n(90, 2500)):
        n = rng.randint(2, 12)
        ranks = list(range(n))
        rng.shuffle(ranks)
        sp = make_spec(rng, gen, mode="scripted", max_repeats=n, ranks=ranks,
                       slack=[rng.choice([0, 0, 1, 2, 5]) for _ in range(4)], pre_dispatch=rng.randint(0, 6),
                       twin=True, nsearch=1)
        add("scripted%d" % i, sp)
    # compressed objectives through HyperCompressedOptimizer, as SEQUENCES of searches in one worker
    # process on contractions whose largest dimension differs (2 then 4 and the reverse), chi='auto'
    # and explicit; every trial row is re-scored by a freshly built objective with an explicit chi
    groups = []

    def graph_net(n, d):
        inputs = [[] for _ in range(n)]
        edges = [(i, rng.randrange(i)) for i in range(1, n)]
        for _ in range(rng.randint(2, 4)):
            a, b = rng.sample(range(n), 2)
            if (a, b) not in edges and (b, a) not in edges:
                edges.append((a, b))
        sd = {}
        for k, (a, b) in enumerate(edges):
            ix = gen.SYMS[k]
            inputs[a].append(ix)
            inputs[b].append(ix)
            sd[ix] = d if k == 0 else rng.randint(2, d)
        return inputs, [], sd

    def probe_net(d):
        ins, out, sd = graph_net(6, d)
        return {"inputs": ins, "output": out, "size_dict": sd, "path": [list(x) for x in gen.rand_path(rng, len(ins))]}

    for r in range(ctx.n(1, 5)):
        for base_obj in COMPRESSED:
            for order in ((2, 4), (4, 2)):
                for chi in (None, rng.choice([3, 8, 16])):
                    if chi is not None and (r + order[0]) % 2:
                        continue
                    grp = []
                    for d in order:
                        ins, out, sd = graph_net(rng.randint(6, 9), d)
                        mode = "serial"
                        if chi is None and r == 0 and base_obj in ("peak-compressed", "flops-compressed") and order == (2, 4):
                            mode = "thread"
                        sp = {"inputs": ins, "output": out, "size_dict": sd, "mode": mode, "compressed": True, "chi": chi,
                              "methods": ["greedy-compressed", "greedy-span"], "minimize": base_obj,
                              "opts": rng.choice([{}, {}, {"reconf_opts": {"maxiter": 1}}]) if mode == "serial" else {},
                              "max_repeats": rng.randint(3, 6), "optlib": "random", "seed": rng.randrange(10 ** 6),
                              "on_trial_error": "ignore", "nsearch": 1, "workers": 2, "fn_probe": probe_net(3)}
                        add("compressed:%s:chi=%s:d=%d(%s)" % (base_obj, chi, d, "%d->%d" % order), sp)
                        grp.append(len(specs) - 1)
                    groups.append(grp)
    # histories on ONE optimizer object: searches aborted part-way (a raising trial under
    # on_trial_error='raise', an exception in the reporting path) followed by further searches
    plans = [["trial:2", None], ["trial:0", None], ["trial:1", "trial:3", None], [None, "trial:2", None],
             ["report:1", None], ["report:0", "trial:1", None], ["trial:3", None, None], ["trial:4", None]]
    for i in range(ctx.n(48, 400)):
        mode = ["scripted", "serial", "scripted", "thread"][i % 4]
        n = rng.randint(5, 9)
        ranks = list(range(n))
        rng.shuffle(ranks)
        ins, out, sd = rand_network(rng, gen)
        sp = {"inputs": ins, "output": out, "size_dict": sd, "mode": mode, "methods": rng.choice([["c08abort"], ["c08abort", "c08det"]]),
              "minimize": rng.choice(["flops", "combo", "size"]), "opts": {}, "max_repeats": n, "optlib": "random",
              "seed": rng.randrange(10 ** 6), "on_trial_error": "raise", "history": plans[(i // 4) % len(plans)],
              "check_det": False, "ranks": ranks, "slack": [rng.choice([0, 0, 1, 3]) for _ in range(3)],
              "pre_dispatch": rng.randint(2, 6), "workers": 1}
        if rng.random() < 0.25:
            sp["mts"] = rng.randint(1, 4)
        add("history%d:%s:%s" % (i, mode, ",".join(str(x) for x in sp["history"])), sp)
    # real pools
    for i in range(ctx.n(8, 40)):
        sp = make_spec(rng, gen, mode="thread", methods=rng.choice([["c08det", "c08flaky"], ["c08det"], ["greedy", "c08flaky"]]),
                       workers=rng.randint(1, 4), nsearch=1, on_trial_error="ignore")
        for k in ("max_time", "clock", "faults"):
            sp.pop(k, None)
        add("thread%d" % i, sp)
    if not ctx.quick:
        for i in range(2):
            sp = make_spec(rng, gen, mode="process", methods=["c08det", "c08flaky"], minimize="flops", opts={},
                           workers=2, nsearch=1, on_trial_error="ignore", max_repeats=10)
            for k in ("max_time", "clock", "faults", "mts"):
                sp.pop(k, None)
            add("process%d" % i, sp)

    # twins: the serial run of a scripted case
    twin_of = {}
    for i in range(len(specs)):
        if specs[i].get("twin"):
            tw = dict(specs[i], mode="serial")
            for k in ("ranks", "slack", "pre_dispatch", "twin"):
                tw.pop(k, None)
            twin_of[i] = len(specs)
            specs.append(tw)
            labels.append(labels[i] + ":serial-twin")

    ctx.log("running %d hyper-optimizer searches in worker processes" % len(specs))
    t0 = _time.time()
    pd_spec = {"kind": "predispatch", "nws": list(range(1, 41)) + [rng.randint(41, 3000) for _ in range(20)]}
    results = run_specs(specs + [pd_spec], groups=groups)
    pd_obs = results.pop()
    ctx.log("runs done in %.1fs" % (_time.time() - t0))
    if not pd_obs or "predispatch" not in pd_obs:
        ctx.fail("could not read pre_dispatch of the parallel setter", {"obs": pd_obs}, found_input=False)
    else:
        rows = pd_obs["predispatch"]
        failing = ctx.coq_cases("c08_predispatch", ["Hyper"],
                                [("nw=%d" % nw, "pre_dispatch_of %d%%nat" % w, "%d%%nat" % pd) for nw, w, pd in rows])
        for idx, label, val in failing:
            ctx.fail("model and implementation disagree on pre_dispatch", {"row": rows[idx], "model_value": val},
                     found_input=False)

    # ---------------------------------------------------------------- oracle + model cases
    deferred = []
    pipe_cases, pipe_recs = [], []
    search_cases, search_recs = [], []
    argmin_cases, argmin_recs = [], []
    max_pipe = ctx.n(700, 20000)
    for i, (spec, obs, label) in enumerate(zip(specs, results, labels)):
        usable = judge(ctx, spec, obs, label)
        if obs is None or obs.get("hang") or "harness_exc" in obs:
            continue
        feats = {"mode:" + spec["mode"], "min:" + spec["minimize"], "opts:" + ("+".join(sorted(k[:-5] for k in spec["opts"])) or "none")}
        nfail = sum(1 for s in obs["scores"] if s == "inf")
        if nfail:
            feats.add("failed_trials")
        if any(s == "nan" for s in obs["scores"]):
            feats.add("nan_score")
        if len(set(obs["scores"])) < len(obs["scores"]):
            feats.add("tied_scores")
        if spec.get("max_time") is not None:
            feats.add("stop:" + str(spec["max_time"]).split(":")[0] if isinstance(spec["max_time"], str) else "stop:time")
        if obs["searches"] and obs["searches"][-1]["nreported"] < spec["max_repeats"] and not obs["searches"][-1]["exc"]:
            feats.add("stopped_early")
        if spec.get("mts") is not None:
            feats.add("max_training_steps")
        if spec.get("nsearch", 1) > 1:
            feats.add("second_search")
        if spec.get("faults"):
            feats.add("stage_faults")
        if list(spec["opts"]) == ["simulated_annealing_opts"]:
            for t in obs.get("trials", []):
                st = t.get("stages") or []
                if st and isinstance(st[-1].get("after"), list) and isinstance(t.get("base"), list):
                    ctx.count("anneal_last_ended_worse" if st[-1]["after"][0] > t["base"][0] else
                              ("anneal_last_ended_better" if st[-1]["after"][0] < t["base"][0] else "anneal_last_unchanged"))
        ctx.count("trial_rows_checked_against_kept_tree", obs.get("rows_checked", 0))
        if obs.get("sliced"):
            feats.add("returned_tree_sliced")
        if spec["optlib"] is None:
            feats.add("default_optlib")
        if spec.get("compressed"):
            feats.add("compressed:chi=%s" % ("auto" if spec.get("chi") is None else "explicit"))
            feats.add("compressed:maxdim=%d" % max(spec["size_dict"].values()))
        if spec.get("fn_probe"):
            feats.add("scoring_function_probe")
        if spec.get("history"):
            feats.add("history:" + spec["mode"])
            for sr in obs["searches"]:
                if sr["exc"] and "c08: injected" in sr["exc"]:
                    ctx.count("history_aborted_search")
                    if sr.get("npending"):
                        ctx.count("history_abort_left_futures_pending")
                elif not sr["exc"]:
                    ctx.count("history_completed_search_after_abort" if any(
                        x["exc"] for x in obs["searches"][:obs["searches"].index(sr)]) else "history_completed_search")
        for f in feats:
            ctx.count(f)
        ctx.case((label, json.dumps(spec, sort_keys=True)), nontrivial=len(obs["scores"]) >= 2,
                 sample={"spec": spec, "scores": obs["scores"], "flops": obs["flops"], "best": obs["best"],
                         "rebuilt": obs.get("rebuilt")} if i in (8, 9, 10) else None)

        instrumented = spec["mode"] in ("serial", "scripted")
        # ---- (f) the recorded score sequence through the model's selection rule
        bi = obs["best"]["tree"] if instrumented else None
        if obs["scores"] and len(set(obs["lens"])) == 1:
            pos = py_argmin_first(obs["scores"])
            # where the tree the optimizer kept was reported (identity of the tree object)
            if instrumented and obs["best"]["has_tree"] and obs["best"]["tree"] is not None:
                k = obs["best"]["tree"]
                if k in obs["params"]:          # row whose setting is ask number k = trial number k
                    pos = obs["params"].index(k)
            elif instrumented and not obs["best"]["has_tree"]:
                pos = None
            argmin_cases.append((label, "argmin_first %s" % lst(pyf_lit(s) for s in obs["scores"]),
                                 "(@None nat)" if pos is None else "(Some %d%%nat)" % pos))
            argmin_recs.append({"spec": spec, "label": label, "scores": obs["scores"]})
        if not instrumented:
            continue
        # ---- pipeline: every recorded trial dict against the model's trial_fn
        for t in obs["trials"]:
            if len(pipe_cases) >= max_pipe and not (spec.get("compressed") or label.startswith("anneal-last")):
                break
            want_stages = [("CompReconf" if (st == "Reconf" and spec.get("compressed")) else st)
                           for k, st in OPT_STAGES if k in spec["opts"]]
            got_stages = [s["stage"] for s in t["stages"]]
            if got_stages != want_stages[:len(got_stages)] or (
                    t["exc"] is None and t["base"] not in ("bad", "err") and all(isinstance(s["after"], list) for s in t["stages"])
                    and got_stages != want_stages):
                # model departures are reported after the oracle's verdicts (only the first few
                # violations are printed, and a failing input must not be crowded out)
                deferred.append(("post-processing stages ran as %r, setup() was given %r" % (got_stages, want_stages),
                                 {"spec": spec, "label": label, "trial": t}))
                continue
            pc = pipeline_case(spec, t, obs.get("limit_ensures", False))
            if pc is None:
                continue
            pipe_cases.append(("%s:trial%d" % (label, t["k"]), pc[0], pc[1]))
            pipe_recs.append({"spec": spec, "label": label, "trial": t})
            ctx.count("pipeline_trials")
            if spec.get("compressed"):
                ctx.count("pipeline_trials_compressed")
        # ---- the whole run through serial / par
        if not usable and not any(s["exc"] for s in obs["searches"]):
            continue
        if spec.get("history"):
            # ---- a history of searches on ONE optimizer object, some of them aborted
            if any(pl and pl.startswith("report:") for pl in spec["history"]):
                ctx.count("history_report_abort(oracle only)")
                continue
            if obs["best"]["has_tree"] and "_params_ask" not in obs["best"]:
                continue
            gs, runf, mts = search_terms(spec, obs)
            lets, want = "", []
            prev, pend = "init_state", "[]"
            parts = []
            for si, sr in enumerate(obs["searches"]):
                k0 = sr["asks0"]
                crashed_i = bool(sr["exc"]) and "c08: injected" in sr["exc"]
                if spec["mode"] == "serial":
                    lets += "let r%d := serial nat %s %s %s NoStop %d%%nat %d%%nat 0%%nat %s [] in " % (
                        si, mts, gs, runf, spec["max_repeats"], k0, prev)
                    lets += "let p%d := @nil fut in " % si
                    ids_i = obs["params"][sr["before"]:sr["before"] + sr["nreported"]]
                    pend_i = []
                else:
                    t0i = obs["pool_marks"][si][0]
                    t1i = obs["pool_marks"][si + 1][0] if si + 1 < len(obs["pool_marks"]) else len(obs["pool"]["taken"])
                    flags = lst(lst("true" if b else "false" for b in fl) for _, fl in obs["pool"]["flags"][t0i:t1i])
                    common = "nat %s %s %s NoStop %d%%nat (fun step _ => tbl %s [] step) true %s %d%%nat %d%%nat %s" % (
                        mts, gs, runf, obs["pre_dispatch"], flags, pend, spec["max_repeats"], k0, prev)
                    lets += "let r%d := par_search %s in let p%d := par_search_pending %s in " % (si, common, si, common)
                    # a future whose result() raised was taken but is not reported
                    ids_i = [j for j in obs["pool"]["taken"][t0i:t1i] if obs["trials"][j]["exc"] is None]
                    pend_i = sr["pending"]
                parts.append("(match fst (fst (fst r%d)) with Crashed => true | _ => false end, "
                             "(map (@e_id nat) (snd (fst r%d)), (snd r%d, map fst p%d)))" % (si, si, si, si))
                want.append("(%s, (%s, (%d%%nat, %s)))" % ("true" if crashed_i else "false", lst("%d%%nat" % j for j in ids_i),
                                                          sr["asks0"] + sr["nasks"], lst("%d%%nat" % j for j in pend_i)))
                prev, pend = "(snd (fst (fst r%d)))" % si, "p%d" % si
            try:
                want_state = observed_state(obs)
            except Exception:
                continue
            lhs = "(%s (%s, observe %s))" % (lets, lst(parts), prev)
            rhs = "(%s, %s)" % (lst(want), want_state)
            search_cases.append((label, lhs, rhs))
            search_recs.append({"spec": spec, "label": label, "obs": {k: obs.get(k) for k in ("scores", "best", "searches", "pool", "pool_marks", "asks")}})
            ctx.count("search_replays_history")
            continue
        if spec.get("nsearch", 1) > 1 and spec["mode"] == "scripted":
            continue
        if obs["best"]["has_tree"] and "_params_ask" not in obs["best"]:
            continue
        gs, runf, mts = search_terms(spec, obs)
        try:
            want_state = observed_state(obs)
        except Exception:
            continue
        crashed = bool(obs["searches"][-1]["exc"]) and not obs["searches"][-1]["exc"].startswith("KeyError: 'tree'")
        ntr = len(obs["trials"])
        if spec["mode"] == "serial":
            nows = [t.get("now", 0) for t in obs["trials"]]
            # consecutive search() calls: the clock restarts, the step counter too
            k0 = 0
            prev = "init_state"
            lets = ""
            for si, s in enumerate(obs["searches"]):
                t0c = 1000.0 if k0 == 0 else obs["trials"][k0 - 1].get("now", 1000.0)
                sm = stop_term(spec, nows[k0:k0 + s["nasks"]], t0c)
                lets += "let r%d := serial nat %s %s %s %s %d%%nat %d%%nat 0%%nat %s [] in " % (
                    si, mts, gs, runf, sm, spec["max_repeats"], k0, prev)
                prev = "(snd (fst (fst r%d)))" % si
                k0 += s["nasks"]
            term = "r%d" % (len(obs["searches"]) - 1)
            lhs = ("(%s (match fst (fst (fst %s)) with Crashed => true | _ => false end, "
                   "(observe (snd (fst (fst %s))), snd %s)))" % (lets, term, term, term))
            if crashed:
                # the model stops before the failing report; the real lists may be partly appended
                lhs = "(%s match fst (fst (fst %s)) with Crashed => true | _ => false end)" % (lets, term)
                rhs = "true"
            else:
                rhs = "(false, (%s, %d%%nat))" % (want_state, k0)
            search_cases.append((label, lhs, rhs))
            search_recs.append({"spec": spec, "label": label, "obs": {k: obs[k] for k in ("scores", "flops", "best", "searches", "tsb", "reports", "asks")}})
            ctx.count("search_replays_serial")
        else:
            pool = obs["pool"]
            nows = pool.get("now_at_take", [])
            sm = stop_term(spec, nows)
            flags = lst(lst("true" if b else "false" for b in fl) for _, fl in pool["flags"])
            sched = "(fun step _ => tbl %s [] step)" % flags
            term = "(par nat %s %s %s %s %d%%nat %s %d%%nat 0%%nat 0%%nat init_state [] [])" % (
                mts, gs, runf, sm, obs["pre_dispatch"], sched, spec["max_repeats"])
            if crashed:
                lhs = "(let r := %s in match fst (fst (fst r)) with Crashed => true | _ => false end)" % term
                rhs = "true"
            else:
                lhs = ("(let r := %s in (match fst (fst (fst r)) with Crashed | Stuck => true | _ => false end, "
                       "(observe (snd (fst (fst r))), (map (@e_id nat) (snd (fst r)), snd r))))" % term)
                rhs = "(false, (%s, (%s, %d%%nat)))" % (want_state, lst("%d%%nat" % k for k in pool["taken"]), pool["nsub"])
            search_cases.append((label, lhs, rhs))
            search_recs.append({"spec": spec, "label": label, "obs": {k: obs[k] for k in ("scores", "flops", "best", "searches", "tsb", "reports", "asks", "pool")}})
            ctx.count("search_replays_parallel")
            # in-flight list the executor saw = the model's futures list (checked through `taken`/positions)

        # ---- (g) scripted run against its serial twin
        if i in twin_of:
            tw = results[twin_of[i]]
            if tw and not tw.get("hang") and "harness_exc" not in tw and not tw["searches"][-1]["exc"] \
                    and not obs["searches"][-1]["exc"]:
                stopped = spec.get("max_time") is not None
                par_rows = sorted(zip(obs["params"], obs["methods"], obs["scores"], obs["flops"], obs["write"], obs["size"]), key=repr)
                ser_rows = sorted(zip(tw["params"], tw["methods"], tw["scores"], tw["flops"], tw["write"], tw["size"]), key=repr)
                adaptive = spec["optlib"] is None
                if not stopped and not adaptive and not spec.get("faults"):
                    if sorted(pool["taken"]) != list(range(spec["max_repeats"])):
                        ctx.fail("not every submitted trial was reported exactly once: %r" % (pool["taken"],),
                                 {"spec": spec, "label": label, "pool": pool})
                    if par_rows != ser_rows:
                        ctx.fail("the trials reported on the pool are not a permutation of the serial run's",
                                 {"spec": spec, "label": label, "parallel": par_rows, "serial": ser_rows})
                    elif obs["best"]["score"] != tw["best"]["score"]:
                        ctx.fail("pool run and serial run disagree on the best score",
                                 {"spec": spec, "label": label, "parallel": obs["best"], "serial": tw["best"]})
                    ctx.count("twin_compared")
                if len(set(pool["taken"])) != len(pool["taken"]):
                    ctx.fail("a trial was reported twice: %r" % (pool["taken"],), {"spec": spec, "label": label})
                # pairing: row j of the record belongs to submission taken[j]
                for j, k in enumerate(pool["taken"]):
                    t = obs["trials"][k]
                    if t["exc"] is None and (obs["params"][j] != k or obs["scores"][j] != t["fields"]["score"]
                                             or obs["flops"][j] != t["fields"]["flops"]):
                        ctx.fail("record row %d pairs setting %r with the result of submission %d" % (j, obs["params"][j], k),
                                 {"spec": spec, "label": label, "pool": pool})
                        break

    for what, rec in deferred:
        ctx.fail(what, rec, found_input=False)
    ctx.log("oracle done; %d pipeline cases, %d search replays, %d selection cases -> coqc" % (
        len(pipe_cases), len(search_cases), len(argmin_cases)))
    for name, cases, recs, what in (
            ("c08_pipeline", pipe_cases, pipe_recs, "Model/Hyper.v trial_fn vs the recorded trial dict"),
            ("c08_search", search_cases, search_recs, "Model/Hyper.v serial/par vs the optimizer's final record"),
            ("c08_argmin", argmin_cases, argmin_recs, "Model/Hyper.v argmin_first vs the first minimum of the recorded scores")):
        failing = ctx.coq_cases(name, ["Hyper"], cases, chunk=60)
        for idx, label, val in failing:
            rec = dict(recs[idx]) if idx < len(recs) else {}
            rec["model_value"] = val
            rec["correspondence"] = what
            rec["coq_rhs"] = cases[idx][2][:3000] if idx < len(cases) else None
            ctx.fail("model and implementation disagree: " + what, rec, found_input=False)

    ctx.coverage["rule"] = (
        "random networks of 3..9 tensors (hyper/repeated/scalar/disconnected/size-1 features); method subsets of "
        "greedy, random-greedy, random, labels, kahypar and two registered deterministic methods (one failing on "
        "pseed%%3==0 / BadTrial on pseed%%7==1); objectives flops/size/write/combo/limit with and without factors and "
        "callables (one returning NaN); option sets none/slicing/reconf/slicing_reconf/anneal and combinations, with "
        "injected stage failures; max_repeats 2..12; stops equil/time/rate under a scripted clock; "
        "max_training_steps; second search() call; serial, scripted executor (all permutations of %d trials x "
        "pre_dispatch values, random orders with several futures done at once), ThreadPoolExecutor%s; "
        "non-trivial = at least two trials reported; distinct by the whole spec") % (
        nperm, "" if ctx.quick else ", ProcessPoolExecutor")
    ctx.assumptions = [
        "float arithmetic of the objectives, score ** compression and the gaussian smudge are oracles (the recorded score is fed to the model)",
        "a trial's result is a function of its submission number and setting (no state shared between concurrent trials)",
        "the pool returns, through future.result(), the value of the submitted call; real pool timing is not modelled (scripted + sampled)",
        "correspondence is executed, not proved (hand-written model)",
    ]
    ctx.trusted.append("harness instrumentation: wrappers around base_trial_fn, the tree post-processing methods, opt.setup, the optlib callbacks, a scripted clock and executor (all in the worker process)")


if __name__ == "__main__":
    if "--worker" in sys.argv:
        sys.path.insert(0, os.path.join(os.path.dirname(os.path.dirname(os.path.abspath(__file__)))))
        worker_main()
    else:
        from vlib.core import main
        main(PROP, run)

"""C02 -- tree transformations never change the value the tree computes.
Shares its machinery (tracer, histories, model replay) with harness/props/c04.py."""
import os
import sys

sys.path.insert(0, os.path.dirname(os.path.abspath(__file__)))
import c04
from vlib.core import main

PROP = "C02"


def run(ctx):
    c04.run_property(ctx, "C02")


if __name__ == "__main__":
    main(PROP, run)

"""C02 -- tree transformations never change the value the tree computes.
Shares its machinery (tracer, histories, model replay) with harness/props/c04.py.

C02 step 3 (Props/C02rec.v): on top of the shared driver this check evaluates, inside Coq,
  * mon3_ok (Model/TreeStatePre3.v) on EVERY recorded primitive trace: the boolean precondition
    primA_pre3_b of C02str_prim_preserves (the dfs facts replaced by complete_b, every primitive covered,
    structural state facts derived from the invariant SI; operands of contract_nodes_pair sorted and
    leaves-or-keys; "legs supplied for the root carry the declared output order") holds for every
    primitive at the state the model reaches;
  * sorted_keys_b && complete_b && struct_b on every state in which a contraction just ran (complete_b is
    the remaining end-state premise of C02str_history_exec; struct_b is the boolean form of SI)."""
import os
import sys
import time

sys.path.insert(0, os.path.dirname(os.path.abspath(__file__)))
import c04
from vlib.core import main

PROP = "C02"


def split_top(s):
    """split a Coq application into its top-level arguments (parentheses / brackets respected)"""
    out, depth, cur = [], 0, []
    for ch in s:
        if ch in "([":
            depth += 1
        elif ch in ")]":
            depth -= 1
        if ch.isspace() and depth == 0:
            if cur:
                out.append("".join(cur))
                cur = []
        else:
            cur.append(ch)
    if cur:
        out.append("".join(cur))
    return out


def monitor_A(ctx, coq_cases, captured):
    # --- the precondition monitor of (A) on every recorded trace -------------------------------
    mon_cases = []
    for label, lhs, _rhs in captured.get("c02_trace", []):
        pre = "mobs (mrun "
        if not lhs.startswith(pre):
            continue
        body = lhs[len(pre):]
        k = body.rfind(")")          # "... [(tid, PRE)]) post_tid"
        mon_cases.append((label + ".pre3", "mon3_ok " + body[:k], "true"))
    if mon_cases:
        t0 = time.time()
        failing = coq_cases("c02_pre3", ["TreeState", "TreeStatePre", "TreeStateRec", "TreeStatePre2", "TreeStatePre3"], mon_cases,
                            chunk=max(20, len(mon_cases) // 48 + 1), timeout=900)
        ctx.log("precondition monitor (primA_pre3_b, all primitives covered) on %d traces in %.1fs, %d failing" % (
            len(mon_cases), time.time() - t0, len(failing)))
        ctx.count("preA_traces_checked", len(mon_cases))
        for idx, label, val in failing[:5]:
            ctx.fail("a recorded primitive does not meet the precondition of C02fin_prim_preserves (primA_pre3_b)",
                     {"label": label, "case": mon_cases[idx][1][:4000] if idx < len(mon_cases) else None,
                      "monitor": val,
                      "correspondence": "mon3_ok (Model/TreeStatePre3.v) on the recorded primitive trace"},
                     found_input=False)
    # --- side condition of C02rec_history_value on the states in which a contraction ran --------
    sk_cases = []
    for label, lhs, _rhs in captured.get("c02_inv", []):
        if not (label.endswith(".ready") and lhs.startswith("contractible_b ")):
            continue
        args = split_top(lhs[len("contractible_b "):])
        if len(args) != 3:
            continue
        sk_cases.append((label + ".sorted", "sorted_keys_b %s && complete_b %s %s && struct_b %s" % (args[1], args[0], args[1], args[1]), "true"))
    if sk_cases:
        t0 = time.time()
        failing = coq_cases("c02_sorted", ["TreeState", "TreeStatePre", "TreeStateRec", "TreeStatePre2", "TreeStatePre3"], sk_cases,
                            chunk=max(20, len(sk_cases) // 48 + 1), timeout=600)
        ctx.log("sorted_keys_b && complete_b && struct_b on %d ready states in %.1fs, %d failing" % (len(sk_cases), time.time() - t0, len(failing)))
        for idx, label, val in failing[:5]:
            ctx.fail("a state in which a contraction ran has a children dict that is not keyed by sorted nodes "
                     "or is not complete (side conditions sorted_keys_b / complete_b of C02fin_history_value)",
                     {"label": label, "value": val}, found_input=False)
    ctx.assumptions.append(
        "C02str_history_exec: boolean premises about the end state that are evaluated per run, not derived: "
        "no exception, complete_b; the per-primitive preconditions primA_pre3_b (every primitive covered) are "
        "evaluated on every recorded trace (mon3_ok); struct_b (SI) and sorted_keys_b are derived for states "
        "reached from a fresh tree and are additionally evaluated on the observed states")


def run(ctx):
    captured = {}
    orig = ctx.coq_cases

    def wrapped(name, imports, cases, **kw):
        captured.setdefault(name, []).extend(cases)
        return orig(name, imports, cases, **kw)

    ctx.coq_cases = wrapped
    try:
        c04.run_property(ctx, "C02")
    finally:
        ctx.coq_cases = orig
    monitor_A(ctx, orig, captured)


if __name__ == "__main__":
    main(PROP, run)
